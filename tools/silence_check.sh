#!/bin/bash
# Runs every quick check on the unchanged tree with several VERIF_SEED values from fresh processes; every run must exit 0
# and print no VIOLATION line. usage: tools/silence_check.sh [seed ...]   (default seeds: 1 2 3 4 5)
cd "$(dirname "$0")/.." || exit 2
seeds=("$@"); [ ${#seeds[@]} -eq 0 ] && seeds=(1 2 3 4 5)
bad=0
for s in "${seeds[@]}"; do
  for p in C01 C02 C03 C04 C05 C06 C07 C08 C09 C10 C11 C12 C13 C14 C15 C16 C17 C18 C19 C20; do
    out=$(VERIF_SEED=$s ./check $p --tier quick 2>&1); rc=$?
    if [ $rc -ne 0 ] || echo "$out" | grep -q "^VIOLATION"; then
      bad=$((bad+1)); echo "seed=$s $p rc=$rc"; echo "$out" | grep -E "^violation|VIOLATION|HARNESS" | cut -c1-400
    fi
  done
  echo "seed $s done (problems so far: $bad)"
done
exit $bad
