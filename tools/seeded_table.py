#!/usr/bin/env python3
"""Prints the DESIGN.md section 12.1 table from seeded/*/meta.json"""
import json,glob,os
rows=[]
for d in sorted(glob.glob('/verif/seeded/*')):
    mp=d+'/meta.json'
    if not os.path.exists(mp): continue
    m=json.load(open(mp))
    det=m.get('detected_by')
    if isinstance(det,dict): det=[f'{k} {v}' for k,v in det.items()]
    if m.get('confirmed_by') and (not det or all(len(x)<12 for x in det)): det=[m['confirmed_by']]
    missed=m.get('missed_before','')
    summ=m['summary'].replace('|','/').replace('\n',' ')
    if len(summ)>230: summ=summ[:227]+'...'
    rows.append(f"| {os.path.basename(d)} | {summ} | {'; '.join(det or ['-']).replace('|','/')} | {missed.replace('|','/') or '-'} |")
print("| seed | change (what it breaks) | caught by | missed at first, and what was strengthened |")
print("|---|---|---|---|")
print('\n'.join(rows))
