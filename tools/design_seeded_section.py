#!/usr/bin/env python3
"""Regenerates the table between the SEEDED-TABLE markers of DESIGN.md from seeded/*/meta.json"""
import subprocess,re
table=subprocess.run(['/verif/tools/seeded_table.py'],capture_output=True,text=True).stdout
p='/verif/DESIGN.md'
s=open(p).read()
s=re.sub(r'<!-- SEEDED-TABLE-BEGIN -->.*?<!-- SEEDED-TABLE-END -->','<!-- SEEDED-TABLE-BEGIN -->\n'+table.replace('\\','\\\\')+'<!-- SEEDED-TABLE-END -->',s,flags=re.S)
open(p,'w').write(s)
