#!/bin/bash
# Which engine-level checks catch which seeded changes: applies every seeded patch that touches the protocol engine to /repo
# in turn and runs the quick tier of all engine-level checks (no regression corpus); writes seeded/MATRIX.txt.
cd /verif || exit 2
trap 'git -C /repo checkout -q -- .; rm -rf /tmp/vr_mx; exit 3' TERM INT
checks=(C01 C04 C05 C06 C07 C08 C09 C10 C11 C14 C15 C17 C18)
out=seeded/MATRIX.txt
if [ ! -f $out ]; then printf "%-6s" seed > $out; for c in "${checks[@]}"; do printf " %-5s" $c >> $out; done; echo >> $out; fi
# drop a half-written last row (interrupted run), keep complete rows
awk 'NF==14' $out > $out.tmp && mv $out.tmp $out
for d in seeded/*/; do
  name=$(basename $d)
  grep -q "gneiss-mqtt/src/protocol.rs\|gneiss-mqtt/src/alias.rs" $d/patch.diff || continue
  grep -q "^$name " $out && continue
  if ! git -C /repo diff --quiet; then echo "repo dirty, abort"; exit 2; fi
  git -C /repo apply "$PWD/$d/patch.diff" || { echo "$name: patch does not apply"; continue; }
  printf "%-6s" $name >> $out
  for c in "${checks[@]}"; do
    R=/tmp/vr_mx; rm -rf $R; mkdir -p $R; cp known_findings.json $R/
    o=$(./check $c --tier quick --root $R 2>&1); rc=$?
    if [ $rc -eq 1 ]; then ev=$(echo "$o" | grep -o "evaluations=[0-9]*" | head -1 | cut -d= -f2); printf " %-5s" "x" >> $out; else if [ $rc -eq 0 ]; then printf " %-5s" "." >> $out; else printf " %-5s" "E$rc" >> $out; fi; fi
  done
  echo >> $out
  git -C /repo checkout -q -- .
  rm -rf /tmp/vr_mx
done
cat $out
