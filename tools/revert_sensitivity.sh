#!/bin/bash
# For each "fix:" commit: revert it in /repo's working tree (not committed), run the named quick check,
# expect exit 1 (the check catches the original defect), then restore the tree.
# usage: tools/revert_sensitivity.sh [commit:prop ...]   (default: the table below)
cd /verif
TABLE=(
"7a71132:C08" "3faf175:C04" "0213aa2:C11" "9cc26b6:C18" "5de08e2:C17" "06f377e:C12" "bec93d6:C11"
"ccd37f7:C11" "cb729a5:C11" "4a3f6d5:C11" "5ecbd83:C02" "d479b4a:C16" "92b588c:C02" "d1f17ab:C03"
"f2e8998:C16" "679f765:C14" "786f1b3:C19" "173f439:C19" "0669cf8:C19" "699ebcf:C12" "a99d18c:C12"
"13c8dd0:C20" "c6c05e4:C13" "016b2bc:C13" "2b4fc23:C13" "2dacda3:C13"
)
if [ $# -gt 0 ]; then TABLE=("$@"); fi
for item in "${TABLE[@]}"; do
  c="${item%%:*}"; p="${item##*:}"
  if ! git -C /repo diff --quiet; then echo "repo dirty, abort"; exit 2; fi
  if ! git -C /repo revert --no-commit "$c" >/dev/null 2>&1; then
     echo "$c $p REVERT-CONFLICT"; git -C /repo revert --abort >/dev/null 2>&1; git -C /repo reset -q --hard; continue
  fi
  git -C /repo reset -q   # keep the change in the working tree only
  # fresh scratch root per row: the known findings are honoured, the regression corpus is NOT copied, so
  # the generated campaign alone has to rediscover the defect
  rm -rf /tmp/vr_sens; mkdir -p /tmp/vr_sens; cp known_findings.json /tmp/vr_sens/
  out=$(./check "$p" --tier quick --root /tmp/vr_sens 2>&1); rc=$?
  sig=$(echo "$out" | grep -m1 "^violation" | cut -c1-220)
  echo "$c $p exit=$rc :: $sig"
  git -C /repo checkout -q -- . ; git -C /repo clean -qfd gneiss-mqtt gneiss-mqtt-aws >/dev/null 2>&1
done
rm -rf /tmp/vr_sens
