#!/usr/bin/env python3
"""Records what the main session ran against a seeded change: tools/seeded_meta.py <name> key=value ...
keys: detected (e.g. "C17 quick after 87 cases: C17.wrong_topic"), missed_before (free text), verified (free text), note"""
import json,sys
name=sys.argv[1]
p=f'/verif/seeded/{name}/meta.json'
m=json.load(open(p))
m.setdefault('origin','fresh sub-agent given only the property record and a scratch worktree of /repo')
m.setdefault('what_was_run',f'tools/seeded_verify.sh (scratch worktree: demo passes without / fails with the patch; pinned suite with hooks off still passes with the patch), then tools/seeded_run.sh {name} (git -C /repo apply patch.diff; ./check <prop> --tier quick with an empty regression corpus; git -C /repo checkout -- .)')
for kv in sys.argv[2:]:
    k,v=kv.split('=',1)
    if k=='detected':
        m.setdefault('detected_by',[])
        if isinstance(m['detected_by'],dict): m['detected_by']=[f'{a} {b}' for a,b in m['detected_by'].items()]
        m['detected_by'].append(v)
    else:
        m[k]=v
json.dump(m,open(p,'w'),indent=1)
