#!/bin/bash
# Applies a seeded breaking change (seeded/<name>/patch.diff) to /repo's working tree, runs the quick check of
# the listed properties (default: the property the change was seeded for) in a scratch root that honours the
# known findings but has no regression corpus, prints one line per check, and restores /repo.
# usage: tools/seeded_run.sh <name> [Cxx ...|all]        (name = directory under seeded/, e.g. C05 or C05b)
cd /verif || exit 2
name="$1"; shift
patch="seeded/$name/patch.diff"
[ -f "$patch" ] || { echo "no $patch"; exit 2; }
props=("$@")
if [ ${#props[@]} -eq 0 ]; then props=("${name:0:3}"); fi
if [ "${props[0]}" = "all" ]; then props=(C01 C02 C03 C04 C05 C06 C07 C08 C09 C10 C11 C12 C13 C14 C15 C16 C17 C18 C19 C20); fi
if ! git -C /repo diff --quiet; then echo "repo dirty, abort"; exit 2; fi
git -C /repo apply "$PWD/$patch" || { echo "$name: patch does not apply"; exit 2; }
tier="${SEEDED_TIER:-quick}"
for p in "${props[@]}"; do
  R=/tmp/vr_seed_$name; rm -rf "$R"; mkdir -p "$R"; cp known_findings.json "$R/"
  start=$(date +%s)
  out=$(./check "$p" --tier "$tier" --root "$R" 2>&1); rc=$?
  end=$(date +%s)
  sig=$(echo "$out" | grep -m1 "^violation" | cut -c1-260)
  evals=$(echo "$out" | grep -o "evaluations=[0-9]*" | head -1)
  echo "seed=$name check=$p tier=$tier exit=$rc $evals wall=$((end-start))s :: $sig"
  if [ $rc -eq 1 ]; then mkdir -p "seeded/$name/replays"; cp "$R"/replays/* "seeded/$name/replays/" 2>/dev/null; fi
  rm -rf "$R"
done
git -C /repo checkout -q -- .
