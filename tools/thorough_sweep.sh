#!/bin/bash
# Runs the thorough tier of every property (meant for `vp run --with-repo -- tools/thorough_sweep.sh`): the harness of the
# snapshot is pointed at the /repo snapshot so that temporary edits of /repo's working tree cannot leak in.
cd "$(dirname "$0")/.." || exit 2
if [ -n "${VP_RUN_REPO:-}" ]; then
    sed -i "s#\"/repo/#\"$VP_RUN_REPO/#" harness/vcheck/Cargo.toml harness/vcheck-aws/Cargo.toml
fi
props=("$@"); [ ${#props[@]} -eq 0 ] && props=(C01 C02 C03 C04 C05 C06 C07 C08 C09 C10 C11 C12 C13 C14 C15 C16 C17 C18 C19 C20)
for p in "${props[@]}"; do
    s=$(date +%s)
    ./check "$p" --tier thorough > "sweep_$p.out" 2>&1; rc=$?
    e=$(date +%s)
    echo "$p rc=$rc wall=$((e-s))s $(grep -E '^C[0-9]+ thorough' sweep_$p.out | cut -c1-160)"
    grep -E "VIOLATION|HARNESS-ERROR|^violation" "sweep_$p.out" | cut -c1-400
done
