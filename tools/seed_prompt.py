#!/usr/bin/env python3
"""Prints the brief for an independent sub-agent that has to seed a breaking change for one property.
usage: seed_prompt.py <Cxx> <worktree-dir> [text of ideas that are already taken]
The brief contains only the property record and the worktree path - nothing from /verif's machinery."""
import json, sys
pid, wt = sys.argv[1], sys.argv[2]
taken = sys.argv[3] if len(sys.argv) > 3 else ""
rec = None
for l in open('/verif/properties.jsonl'):
    d = json.loads(l)
    if d['id'] == pid:
        rec = d
prop = {k: rec[k] for k in ('id', 'title', 'statement', 'quantifier', 'why_tests_cant', 'anchors')}
print(f"""You are given a scratch git worktree of a Rust repository at {wt} (gneiss-mqtt: an MQTT 5 / 3.1.1 client
library with a sans-IO protocol engine, tokio and threaded drivers, and AWS IoT glue). Work ONLY inside {wt}.
Never read, list or write anything under /verif or /repo or any other copy of this repository; do not use git
commands that touch other worktrees. The machine is offline: always pass --offline to cargo.

## The property

The library is supposed to satisfy this semantic property (JSON record):

{json.dumps(prop, indent=1)}

## Your task

Write ONE change to the library's non-test source code that BREAKS this property, such that
 * the workspace still compiles (`cargo build --workspace --offline`, and with `--all-features` for the crate you touch if cheap),
 * the existing test suite still passes: run `cargo test --workspace --no-fail-fast --offline 2>&1 | tee /tmp/{pid}_tests.log` once BEFORE
   your change and once AFTER it; about 98 tests fail in both runs because they need a network / environment variables -
   what matters is that the set of passing tests does not shrink (compare the two `test ... ok` lists),
 * the change looks like a realistic maintenance mistake (a refactor that drops a condition, an off-by-one, a wrong field,
   a cleanup missed on one path, a reordered pair of statements, a cache that is not invalidated, ...) - no sabotage that a
   reviewer would spot as deliberate, no `if magic_value`, no new randomness, no time bombs,
 * it needs something SPECIFIC to manifest: a particular interleaving, a crash or fault at a particular point, a multi-step
   sequence of operations, an unusual input or configuration, or two cooperating sites that each look fine alone. It must NOT be
   something that ordinary use (connect, publish a few messages, subscribe, disconnect) would expose at once,
 * it is small (ideally under ~15 changed lines) and touches only files under gneiss-mqtt/src or gneiss-mqtt-aws/src (no tests, no Cargo files).
{('Ideas that are already taken - choose a DIFFERENT mechanism and code site: ' + taken) if taken else ''}

Then write a DEMONSTRATION: a new test (preferably a new file such as gneiss-mqtt/src/testing/seed_demo.rs registered with
`#[cfg(test)] mod seed_demo;`, or a tests/ integration test, or a small program) that exercises the real library code and
FAILS with your change and PASSES without it. It must be deterministic, offline, and finish in seconds. Verify both directions yourself.

## Deliverables (all inside {wt}/SEED/, a new untracked directory)

 * patch.diff  - `git diff` of the library change ONLY (must apply with `git apply` to a clean checkout of this worktree's HEAD)
 * demo.diff   - `git diff` (incl. new files: use `git add -N` first) of the demonstration ONLY, applying on a clean checkout independently of patch.diff
 * notes.md    - the change, why it breaks the property, exactly what is needed for it to manifest, and why ordinary use / the existing tests do not see it
 * meta.json   - {{"property": "{pid}", "summary": "...", "needs": "...", "demo_test": "<exact cargo test command that runs only the demonstration>", "tests_before": "<n passed / n failed>", "tests_after": "<n passed / n failed>"}}

When you are done, restore all tracked files (`git -C {wt} checkout -- .` and remove the demo's new files) so that only SEED/ remains, and reply with a
five-line summary (what the change is, what it needs to manifest, test counts before/after, demo result with/without).
Be economical: the first full test build takes a few minutes; run the whole suite only twice (before/after) and otherwise run single tests.""")
