#!/bin/bash
# validates every evidence file against the schema
python3-vt - <<'PY'
import json,jsonschema,glob,sys
schema=json.load(open('/root/.vp/EVIDENCE.schema.json'))
bad=0
for f in sorted(glob.glob('/verif/evidence/*.json')):
    try:
        jsonschema.validate(json.load(open(f)),schema); print('ok ',f)
    except Exception as e:
        bad+=1; print('BAD',f,str(e)[:200])
sys.exit(1 if bad else 0)
PY
