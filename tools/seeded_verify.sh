#!/bin/bash
# Independent confirmation of a seeded change delivered by a sub-agent in <dir>/SEED (patch.diff, demo.diff, meta.json):
#  1. fresh scratch worktree of /repo HEAD under /tmp
#  2. demo alone must PASS, 3. patch + demo must FAIL, 4. patch alone: the pinned suite's stable tests still pass
#     (hooks off, compared with BASELINE.json), then the worktree and its build output are removed.
# usage: tools/seeded_verify.sh <seed-dir> <name>       e.g. tools/seeded_verify.sh /tmp/seed_C17/SEED C17
set -u
SEED="$1"; NAME="$2"
W=/tmp/sv_$NAME
git -C /repo worktree remove --force "$W" >/dev/null 2>&1; rm -rf "$W"
git -C /repo worktree add --detach "$W" HEAD >/dev/null 2>&1 || { echo "cannot create worktree"; exit 2; }
# reuse an already built target directory of the agent's worktree when there is one (saves a cold build)
SRC_TARGET="$(dirname "$SEED")/target"
[ -d "$SRC_TARGET" ] && cp -a "$SRC_TARGET" "$W/target" 2>/dev/null
cd "$W" || exit 2
export CARGO_NET_OFFLINE=true
demo_cmd=$(python3 -c "import json;print(json.load(open('$SEED/meta.json'))['demo_test'])")
echo "demo command: $demo_cmd"
git apply "$SEED/demo.diff" || { echo "RESULT $NAME demo.diff does not apply"; exit 2; }
( eval "$demo_cmd" ) > /tmp/sv_${NAME}_demo_without.log 2>&1; rc_without=$?
git apply "$SEED/patch.diff" || { echo "RESULT $NAME patch.diff does not apply on top of demo"; exit 2; }
( eval "$demo_cmd" ) > /tmp/sv_${NAME}_demo_with.log 2>&1; rc_with=$?
# patch alone, full suite
git checkout -q -- . ; git clean -qfd -e target -e SEED . >/dev/null 2>&1
git apply "$SEED/patch.diff" || { echo "RESULT $NAME patch.diff does not apply on clean tree"; exit 2; }
cargo test --workspace --no-fail-fast --offline > /tmp/sv_${NAME}_suite.log 2>&1
python3 - /tmp/sv_${NAME}_suite.log <<'PY' > /tmp/sv_${NAME}_suite.cmp
import json,re,sys
log=open(sys.argv[1]).read()
base=json.load(open('/root/.vp/BASELINE.json'))
stable=set(base['stable_pass'])
cur=None; passed=set()
for line in log.splitlines():
    m=re.search(r'Running .*\(target/debug/deps/([A-Za-z0-9_]+)-[0-9a-f]+\)',line)
    if m: cur=m.group(1).replace('_','-'); continue
    m=re.match(r'test (\S+) \.\.\. (ok|FAILED)',line)
    if m and cur and m.group(2)=='ok': passed.add(f"{cur}::{m.group(1)}")
missing=sorted(stable-passed)
print(f"stable={len(stable)} still_passing={len(stable&passed)} missing={len(missing)}")
for n in missing[:20]: print("MISSING",n)
PY
cmp=$(head -1 /tmp/sv_${NAME}_suite.cmp)
echo "RESULT $NAME demo_without_patch_rc=$rc_without demo_with_patch_rc=$rc_with suite: $cmp"
grep MISSING /tmp/sv_${NAME}_suite.cmp | head
cd /; git -C /repo worktree remove --force "$W" >/dev/null 2>&1; rm -rf "$W"
