#!/bin/bash
# Same measurement as revert_sensitivity.sh, but in a scratch worktree of /repo and a scratch copy of the harness, so that
# /repo and /verif/harness stay untouched (can run next to other work). For each "fix:" commit: revert it in the scratch
# tree, rebuild the scratch harness, run the named property's QUICK check with an empty regression corpus (known findings
# honoured), expect exit 1.  usage: tools/revert_sensitivity_scratch.sh [commit:prop ...]
W=/tmp/rs_repo; H=/tmp/rs_harness
TABLE=(
"7a71132:C08" "3faf175:C04" "0213aa2:C11" "9cc26b6:C18" "5de08e2:C17" "06f377e:C12" "bec93d6:C11"
"ccd37f7:C11" "cb729a5:C11" "4a3f6d5:C11" "5ecbd83:C02" "d479b4a:C16" "92b588c:C02" "d1f17ab:C03"
"f2e8998:C16" "679f765:C14" "786f1b3:C19" "173f439:C19" "0669cf8:C19" "699ebcf:C12" "a99d18c:C12"
"13c8dd0:C20" "c6c05e4:C13" "016b2bc:C13" "2b4fc23:C13" "2dacda3:C13"
)
if [ $# -gt 0 ]; then TABLE=("$@"); fi
git -C /repo worktree remove --force $W >/dev/null 2>&1; rm -rf $W $H
git -C /repo worktree add --detach $W HEAD >/dev/null 2>&1 || exit 2
mkdir -p $H; rsync -a --exclude target --exclude 'fuzz/target' --exclude 'fuzz/run' /verif/harness/ $H/
cp -a /verif/harness/target $H/target 2>/dev/null
sed -i "s#\"/repo/#\"$W/#" $H/vcheck/Cargo.toml $H/vcheck-aws/Cargo.toml
export CARGO_NET_OFFLINE=true
for item in "${TABLE[@]}"; do
  c="${item%%:*}"; p="${item##*:}"
  if ! git -C $W revert --no-commit "$c" >/dev/null 2>&1; then echo "$c $p REVERT-CONFLICT"; git -C $W revert --abort >/dev/null 2>&1; git -C $W reset -q --hard; continue; fi
  git -C $W reset -q
  pkg=vcheck; [ "$p" = "C20" ] && pkg=vcheck-aws
  if ! (cd $H && cargo build --release --offline -p $pkg >/tmp/rs_build.log 2>&1); then echo "$c $p BUILD-FAILED"; git -C $W checkout -q -- .; continue; fi
  R=/tmp/rs_root; rm -rf $R; mkdir -p $R; cp /verif/known_findings.json $R/
  out=$($H/target/release/$pkg "$p" --tier quick --root $R 2>&1); rc=$?
  sig=$(echo "$out" | grep -m1 "^violation" | cut -c1-220)
  echo "$c $p exit=$rc :: $sig"
  git -C $W checkout -q -- . ; git -C $W clean -qfd gneiss-mqtt gneiss-mqtt-aws >/dev/null 2>&1
done
git -C /repo worktree remove --force $W >/dev/null 2>&1; rm -rf $W $H /tmp/rs_root
