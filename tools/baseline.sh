#!/bin/bash
# Runs the repository's own test suite with the verif hooks OFF and compares the passing set with
# /root/.vp/BASELINE.json (stable_pass). Exit 0 iff every stable test still passes.
set -u
LOG=${1:-/tmp/baseline_run.log}
cd /repo
cargo test --workspace --no-fail-fast --offline > "$LOG" 2>&1
python3 - "$LOG" <<'PY'
import json,re,sys
log=open(sys.argv[1]).read()
base=json.load(open('/root/.vp/BASELINE.json'))
stable=set(base['stable_pass'])
# cargo prints "Running unittests src/lib.rs (target/debug/deps/gneiss_mqtt-xxxx)" before each binary
cur=None; passed=set(); failed=set()
for line in log.splitlines():
    m=re.search(r'Running .*\(target/debug/deps/([A-Za-z0-9_]+)-[0-9a-f]+\)',line)
    if m: cur=m.group(1).replace('_','-'); continue
    m=re.match(r'test (\S+) \.\.\. (ok|FAILED)',line)
    if m and cur:
        name=f"{cur}::{m.group(1)}"
        (passed if m.group(2)=='ok' else failed).add(name)
missing=sorted(stable-passed)
print(f"stable={len(stable)} passed_now={len(passed)} stable_still_passing={len(stable&passed)} missing={len(missing)}")
for n in missing[:40]: print("MISSING",n)
sys.exit(1 if missing else 0)
PY
