//! Golden vectors: byte-exact canonical examples, checked in both directions (encode and decode).

mod common;
use common::*;
use refmqtt::*;

fn golden(name: &str, v: Version, d: Direction, packet: Packet, opts: &EncodeOpts, bytes: &[u8]) {
    let enc = encode(v, &packet, opts);
    assert_eq!(hex(&enc), hex(bytes), "{name}: encode");
    let (dec, n) = decode(v, d, bytes).unwrap_or_else(|e| panic!("{name}: decode failed: {e:?}"));
    assert_eq!(n, bytes.len(), "{name}: consumed");
    assert_eq!(dec, packet, "{name}: decode");
    assert_prefixes_incomplete(name, v, d, bytes);
    // bytes following the packet are not touched
    let mut more = bytes.to_vec();
    more.extend_from_slice(&[0xFF, 0x00, 0xC0]);
    let (dec2, n2) = decode(v, d, &more).unwrap_or_else(|e| panic!("{name}: decode with trailing data failed: {e:?}"));
    assert_eq!((dec2, n2), (packet, bytes.len()), "{name}: decode with following data");
}

fn d() -> EncodeOpts {
    EncodeOpts::default()
}

#[test]
fn golden_connack() {
    golden("v5 connack", V5, S2C, Packet::Connack(Connack::default()), &d(), &[0x20, 0x03, 0x00, 0x00, 0x00]);
    golden("v311 connack", V311, S2C, Packet::Connack(Connack::default()), &d(), &[0x20, 0x02, 0x00, 0x00]);
    golden(
        "v311 connack sp",
        V311,
        S2C,
        Packet::Connack(Connack { session_present: true, ..Connack::default() }),
        &d(),
        &[0x20, 0x02, 0x01, 0x00],
    );
    golden(
        "v311 connack refused",
        V311,
        S2C,
        Packet::Connack(Connack { reason: 5, ..Connack::default() }),
        &d(),
        &[0x20, 0x02, 0x00, 0x05],
    );
    golden(
        "v5 connack not authorized + receive maximum",
        V5,
        S2C,
        Packet::Connack(Connack { reason: 0x87, receive_maximum: Some(10), ..Connack::default() }),
        &d(),
        &[0x20, 0x06, 0x00, 0x87, 0x03, 0x21, 0x00, 0x0A],
    );
}

#[test]
fn golden_ping() {
    for v in [V5, V311] {
        golden("pingreq", v, C2S, Packet::Pingreq, &d(), &[0xC0, 0x00]);
        golden("pingresp", v, S2C, Packet::Pingresp, &d(), &[0xD0, 0x00]);
    }
}

#[test]
fn golden_disconnect() {
    let dflt = Packet::Disconnect(Disconnect::default());
    golden("v5 disconnect c2s", V5, C2S, dflt.clone(), &d(), &[0xE0, 0x00]);
    golden("v5 disconnect s2c", V5, S2C, dflt.clone(), &d(), &[0xE0, 0x00]);
    golden("v311 disconnect", V311, C2S, dflt.clone(), &d(), &[0xE0, 0x00]);
    golden(
        "v5 disconnect explicit reason",
        V5,
        C2S,
        dflt.clone(),
        &EncodeOpts { explicit_reason: true, ..d() },
        &[0xE0, 0x01, 0x00],
    );
    golden(
        "v5 disconnect explicit prop len",
        V5,
        C2S,
        dflt.clone(),
        &EncodeOpts { explicit_prop_len: true, ..d() },
        &[0xE0, 0x02, 0x00, 0x00],
    );
    golden(
        "v5 disconnect with will",
        V5,
        C2S,
        Packet::Disconnect(Disconnect { reason: 0x04, ..Disconnect::default() }),
        &d(),
        &[0xE0, 0x01, 0x04],
    );
    golden(
        "v5 disconnect session expiry",
        V5,
        C2S,
        Packet::Disconnect(Disconnect { reason: 0x00, session_expiry: Some(0x0000_0E10), ..Disconnect::default() }),
        &d(),
        &[0xE0, 0x07, 0x00, 0x05, 0x11, 0x00, 0x00, 0x0E, 0x10],
    );
    // the explicit_* options have no effect on 3.1.1
    let all = EncodeOpts { prop_order_seed: 9, explicit_reason: true, explicit_prop_len: true };
    golden("v311 disconnect, explicit opts", V311, C2S, dflt, &all, &[0xE0, 0x00]);
}

#[test]
fn golden_acks() {
    let a = Ack { pid: 1, ..Ack::default() };
    golden("v5 puback shortest", V5, S2C, Packet::Puback(a.clone()), &d(), &[0x40, 0x02, 0x00, 0x01]);
    golden("v311 puback", V311, S2C, Packet::Puback(a.clone()), &d(), &[0x40, 0x02, 0x00, 0x01]);
    golden(
        "v5 puback explicit reason",
        V5,
        S2C,
        Packet::Puback(a.clone()),
        &EncodeOpts { explicit_reason: true, ..d() },
        &[0x40, 0x03, 0x00, 0x01, 0x00],
    );
    golden(
        "v5 puback explicit prop len",
        V5,
        S2C,
        Packet::Puback(a.clone()),
        &EncodeOpts { explicit_prop_len: true, ..d() },
        &[0x40, 0x04, 0x00, 0x01, 0x00, 0x00],
    );
    golden("v5 pubrec shortest", V5, S2C, Packet::Pubrec(a.clone()), &d(), &[0x50, 0x02, 0x00, 0x01]);
    golden("v5 pubrel shortest", V5, C2S, Packet::Pubrel(a.clone()), &d(), &[0x62, 0x02, 0x00, 0x01]);
    golden("v5 pubcomp shortest", V5, S2C, Packet::Pubcomp(a.clone()), &d(), &[0x70, 0x02, 0x00, 0x01]);
    golden("v311 pubrel", V311, C2S, Packet::Pubrel(a.clone()), &d(), &[0x62, 0x02, 0x00, 0x01]);
    golden(
        "v5 puback no matching subscribers",
        V5,
        S2C,
        Packet::Puback(Ack { pid: 0x1234, reason: 0x10, ..Ack::default() }),
        &d(),
        &[0x40, 0x03, 0x12, 0x34, 0x10],
    );
    golden(
        "v5 pubrel pid not found + reason string",
        V5,
        S2C,
        Packet::Pubrel(Ack { pid: 2, reason: 0x92, reason_string: Some("x".into()), ..Ack::default() }),
        &d(),
        &[0x62, 0x08, 0x00, 0x02, 0x92, 0x04, 0x1F, 0x00, 0x01, b'x'],
    );
}

#[test]
fn golden_subscribe() {
    golden(
        "v311 subscribe",
        V311,
        C2S,
        Packet::Subscribe(Subscribe {
            pid: 1,
            entries: vec![SubEntry { filter: "a/b".into(), qos: 1, ..SubEntry::default() }],
            ..Subscribe::default()
        }),
        &d(),
        &[0x82, 0x08, 0x00, 0x01, 0x00, 0x03, 0x61, 0x2F, 0x62, 0x01],
    );
    // the subscription identifier is a Variable Byte Integer: one byte for the value 1
    golden(
        "v5 subscribe subid 1",
        V5,
        C2S,
        Packet::Subscribe(Subscribe {
            pid: 10,
            subscription_id: Some(1),
            entries: vec![SubEntry { filter: "a".into(), qos: 0, ..SubEntry::default() }],
            ..Subscribe::default()
        }),
        &d(),
        &[0x82, 0x09, 0x00, 0x0A, 0x02, 0x0B, 0x01, 0x00, 0x01, 0x61, 0x00],
    );
    golden(
        "v5 subscribe subid 300",
        V5,
        C2S,
        Packet::Subscribe(Subscribe {
            pid: 10,
            subscription_id: Some(300),
            entries: vec![SubEntry { filter: "a".into(), qos: 0, ..SubEntry::default() }],
            ..Subscribe::default()
        }),
        &d(),
        &[0x82, 0x0A, 0x00, 0x0A, 0x03, 0x0B, 0xAC, 0x02, 0x00, 0x01, 0x61, 0x00],
    );
    golden(
        "v5 subscribe subid max",
        V5,
        C2S,
        Packet::Subscribe(Subscribe {
            pid: 10,
            subscription_id: Some(268_435_455),
            entries: vec![SubEntry { filter: "a".into(), qos: 0, ..SubEntry::default() }],
            ..Subscribe::default()
        }),
        &d(),
        &[0x82, 0x0C, 0x00, 0x0A, 0x05, 0x0B, 0xFF, 0xFF, 0xFF, 0x7F, 0x00, 0x01, 0x61, 0x00],
    );
    // options byte: retain handling 2 (bits 5-4), RAP (bit 3), NL (bit 2), QoS 1
    golden(
        "v5 subscribe options",
        V5,
        C2S,
        Packet::Subscribe(Subscribe {
            pid: 2,
            entries: vec![SubEntry {
                filter: "#".into(),
                qos: 1,
                no_local: true,
                retain_as_published: true,
                retain_handling: 2,
            }],
            ..Subscribe::default()
        }),
        &d(),
        &[0x82, 0x07, 0x00, 0x02, 0x00, 0x00, 0x01, 0x23, 0x2D],
    );
}

#[test]
fn golden_suback_unsub() {
    golden(
        "v311 suback",
        V311,
        S2C,
        Packet::Suback(Suback { pid: 1, reasons: vec![1, 0x80], ..Suback::default() }),
        &d(),
        &[0x90, 0x04, 0x00, 0x01, 0x01, 0x80],
    );
    golden(
        "v5 suback",
        V5,
        S2C,
        Packet::Suback(Suback { pid: 1, reasons: vec![2, 0x87], ..Suback::default() }),
        &d(),
        &[0x90, 0x05, 0x00, 0x01, 0x00, 0x02, 0x87],
    );
    golden(
        "v311 unsubscribe",
        V311,
        C2S,
        Packet::Unsubscribe(Unsubscribe { pid: 3, filters: vec!["a/b".into()], ..Unsubscribe::default() }),
        &d(),
        &[0xA2, 0x07, 0x00, 0x03, 0x00, 0x03, 0x61, 0x2F, 0x62],
    );
    golden(
        "v5 unsubscribe",
        V5,
        C2S,
        Packet::Unsubscribe(Unsubscribe { pid: 3, filters: vec!["a/b".into()], ..Unsubscribe::default() }),
        &d(),
        &[0xA2, 0x08, 0x00, 0x03, 0x00, 0x00, 0x03, 0x61, 0x2F, 0x62],
    );
    golden(
        "v311 unsuback",
        V311,
        S2C,
        Packet::Unsuback(Unsuback { pid: 3, ..Unsuback::default() }),
        &d(),
        &[0xB0, 0x02, 0x00, 0x03],
    );
    golden(
        "v5 unsuback",
        V5,
        S2C,
        Packet::Unsuback(Unsuback { pid: 3, reasons: vec![0x00, 0x11], ..Unsuback::default() }),
        &d(),
        &[0xB0, 0x05, 0x00, 0x03, 0x00, 0x00, 0x11],
    );
}

#[test]
fn golden_connect() {
    let c = Connect { clean_start: true, keep_alive: 60, client_id: "c".into(), ..Connect::default() };
    golden(
        "v5 connect",
        V5,
        C2S,
        Packet::Connect(c.clone()),
        &d(),
        &[0x10, 0x0E, 0x00, 0x04, 0x4D, 0x51, 0x54, 0x54, 0x05, 0x02, 0x00, 0x3C, 0x00, 0x00, 0x01, 0x63],
    );
    golden(
        "v311 connect",
        V311,
        C2S,
        Packet::Connect(c),
        &d(),
        &[0x10, 0x0D, 0x00, 0x04, 0x4D, 0x51, 0x54, 0x54, 0x04, 0x02, 0x00, 0x3C, 0x00, 0x01, 0x63],
    );
    // every flag set: user name, password, will retain, will qos 1, will flag, clean session = 0xEE
    golden(
        "v311 connect all fields",
        V311,
        C2S,
        Packet::Connect(Connect {
            clean_start: true,
            keep_alive: 10,
            client_id: "id".into(),
            will: Some(Will { qos: 1, retain: true, topic: "w".into(), payload: vec![0xAA], ..Will::default() }),
            username: Some("u".into()),
            password: Some(vec![0x70]),
            ..Connect::default()
        }),
        &d(),
        &[
            0x10, 0x1A, 0x00, 0x04, b'M', b'Q', b'T', b'T', 0x04, 0xEE, 0x00, 0x0A, // variable header
            0x00, 0x02, b'i', b'd', // client id
            0x00, 0x01, b'w', // will topic
            0x00, 0x01, 0xAA, // will payload
            0x00, 0x01, b'u', // user name
            0x00, 0x01, 0x70, // password
        ],
    );
    // same in V5 with one connect property and one will property: order is
    // client id, will properties, will topic, will payload, user name, password
    golden(
        "v5 connect all fields",
        V5,
        C2S,
        Packet::Connect(Connect {
            clean_start: true,
            keep_alive: 10,
            client_id: "id".into(),
            will: Some(Will {
                qos: 1,
                retain: true,
                topic: "w".into(),
                payload: vec![0xAA],
                will_delay_interval: Some(5),
                ..Will::default()
            }),
            username: Some("u".into()),
            password: Some(vec![0x70]),
            session_expiry: Some(16),
            ..Connect::default()
        }),
        &d(),
        &[
            0x10, 0x26, 0x00, 0x04, b'M', b'Q', b'T', b'T', 0x05, 0xEE, 0x00, 0x0A, // variable header
            0x05, 0x11, 0x00, 0x00, 0x00, 0x10, // properties: session expiry 16
            0x00, 0x02, b'i', b'd', // client id
            0x05, 0x18, 0x00, 0x00, 0x00, 0x05, // will properties: will delay 5
            0x00, 0x01, b'w', // will topic
            0x00, 0x01, 0xAA, // will payload
            0x00, 0x01, b'u', // user name
            0x00, 0x01, 0x70, // password
        ],
    );
}

#[test]
fn golden_publish() {
    golden(
        "v5 publish qos1",
        V5,
        C2S,
        Packet::Publish(Publish { qos: 1, pid: Some(7), topic: "t".into(), payload: b"hi".to_vec(), ..Publish::default() }),
        &d(),
        &[0x32, 0x08, 0x00, 0x01, 0x74, 0x00, 0x07, 0x00, 0x68, 0x69],
    );
    golden(
        "v311 publish qos1",
        V311,
        C2S,
        Packet::Publish(Publish { qos: 1, pid: Some(7), topic: "t".into(), payload: b"hi".to_vec(), ..Publish::default() }),
        &d(),
        &[0x32, 0x07, 0x00, 0x01, 0x74, 0x00, 0x07, 0x68, 0x69],
    );
    golden(
        "v311 publish qos0 retain",
        V311,
        S2C,
        Packet::Publish(Publish { retain: true, topic: "t".into(), payload: b"hi".to_vec(), ..Publish::default() }),
        &d(),
        &[0x31, 0x05, 0x00, 0x01, 0x74, 0x68, 0x69],
    );
    golden(
        "v5 publish qos2 dup",
        V5,
        S2C,
        Packet::Publish(Publish { dup: true, qos: 2, pid: Some(0x0102), topic: "t".into(), ..Publish::default() }),
        &d(),
        &[0x3C, 0x06, 0x00, 0x01, 0x74, 0x01, 0x02, 0x00],
    );
    // canonical property order: ascending identifier, user properties last;
    // two subscription identifiers (1 and 200 = C8 01) keep their order
    golden(
        "v5 publish properties canonical order",
        V5,
        S2C,
        Packet::Publish(Publish {
            topic: "t".into(),
            payload_format: Some(1),
            content_type: Some("c".into()),
            topic_alias: Some(3),
            subscription_ids: vec![200, 1],
            user_props: vec![("a".into(), "b".into())],
            payload: b"p".to_vec(),
            ..Publish::default()
        }),
        &d(),
        &[
            0x30, 0x1A, 0x00, 0x01, 0x74, // fixed header, topic
            0x15, // property length 21
            0x01, 0x01, // payload format indicator
            0x03, 0x00, 0x01, b'c', // content type
            0x0B, 0xC8, 0x01, // subscription identifier 200
            0x0B, 0x01, // subscription identifier 1
            0x23, 0x00, 0x03, // topic alias
            0x26, 0x00, 0x01, b'a', 0x00, 0x01, b'b', // user property
            b'p',
        ],
    );
    // topic alias with empty topic
    golden(
        "v5 publish alias only",
        V5,
        C2S,
        Packet::Publish(Publish { topic: String::new(), topic_alias: Some(1), ..Publish::default() }),
        &d(),
        &[0x30, 0x06, 0x00, 0x00, 0x03, 0x23, 0x00, 0x01],
    );
}

#[test]
fn golden_auth() {
    golden("v5 auth success shortest", V5, S2C, Packet::Auth(Auth::default()), &d(), &[0xF0, 0x00]);
    golden(
        "v5 auth success explicit",
        V5,
        S2C,
        Packet::Auth(Auth::default()),
        &EncodeOpts { explicit_reason: true, ..d() },
        &[0xF0, 0x02, 0x00, 0x00],
    );
    golden(
        "v5 auth continue",
        V5,
        C2S,
        Packet::Auth(Auth { reason: 0x18, auth_method: Some("m".into()), auth_data: Some(vec![1]), ..Auth::default() }),
        &d(),
        &[0xF0, 0x0A, 0x18, 0x08, 0x15, 0x00, 0x01, b'm', 0x16, 0x00, 0x01, 0x01],
    );
}

#[test]
fn golden_vli() {
    let cases: &[(u32, &[u8])] = &[
        (0, &[0x00]),
        (127, &[0x7F]),
        (128, &[0x80, 0x01]),
        (300, &[0xAC, 0x02]),
        (16_383, &[0xFF, 0x7F]),
        (16_384, &[0x80, 0x80, 0x01]),
        (2_097_151, &[0xFF, 0xFF, 0x7F]),
        (2_097_152, &[0x80, 0x80, 0x80, 0x01]),
        (268_435_455, &[0xFF, 0xFF, 0xFF, 0x7F]),
    ];
    for (v, b) in cases {
        let mut out = Vec::new();
        encode_vli(*v, &mut out);
        assert_eq!(&out[..], *b, "encode {v}");
        assert_eq!(vli_len(*v), b.len(), "vli_len {v}");
        assert_eq!(decode_vli(b), Ok(Some((*v, b.len()))), "decode {v}");
        let mut more = b.to_vec();
        more.push(0x55);
        assert_eq!(decode_vli(&more), Ok(Some((*v, b.len()))), "decode {v} + extra");
        for n in 0..b.len() {
            assert_eq!(decode_vli(&b[..n]), Ok(None), "prefix {n} of {v}");
        }
    }
    // non-minimal encodings
    for b in [&[0x80u8, 0x00][..], &[0x80, 0x80, 0x00], &[0xFF, 0x80, 0x00], &[0x80, 0x80, 0x80, 0x00], &[0x81, 0x00]] {
        assert!(matches!(decode_vli(b), Err(DecodeError::Malformed(_))), "non-minimal {b:?}");
    }
    // a fifth byte would be needed
    for b in [&[0x80u8, 0x80, 0x80, 0x80][..], &[0xFF, 0xFF, 0xFF, 0xFF, 0x7F], &[0x80, 0x80, 0x80, 0x80, 0x01]] {
        assert!(matches!(decode_vli(b), Err(DecodeError::Malformed(_))), "too long {b:?}");
    }
    assert_eq!(decode_vli(&[0x80, 0x80, 0x80]), Ok(None));
}

#[test]
fn golden_peek_fixed_header() {
    assert_eq!(peek_fixed_header(&[]), Ok(None));
    assert_eq!(peek_fixed_header(&[0x30]), Ok(None));
    assert_eq!(peek_fixed_header(&[0x30, 0x80]), Ok(None));
    assert_eq!(peek_fixed_header(&[0xC0, 0x00]), Ok(Some((0xC0, 0, 2))));
    assert_eq!(peek_fixed_header(&[0x30, 0xAC, 0x02, 0x99]), Ok(Some((0x30, 300, 3))));
    assert_eq!(peek_fixed_header(&[0x30, 0xFF, 0xFF, 0xFF, 0x7F]), Ok(Some((0x30, 268_435_455, 5))));
    assert!(matches!(peek_fixed_header(&[0x30, 0xFF, 0xFF, 0xFF, 0xFF]), Err(DecodeError::Malformed(_))));
    assert!(matches!(peek_fixed_header(&[0x30, 0x80, 0x00]), Err(DecodeError::Malformed(_))));
}

#[test]
#[should_panic]
fn encode_vli_too_large_panics() {
    let mut out = Vec::new();
    encode_vli(268_435_456, &mut out);
}

#[test]
fn type_names_and_codes() {
    let all = samples(V5);
    let mut seen = [false; 16];
    for (_, p) in &all {
        let code = p.type_code();
        assert!((1..=15).contains(&code));
        seen[code as usize] = true;
        assert_eq!(p.type_name(), type_name_of(code));
        let bytes = encode(V5, p, &EncodeOpts::default());
        assert_eq!(bytes[0] >> 4, code, "{}", p.type_name());
    }
    assert!(seen[1..].iter().all(|x| *x), "samples must cover all 15 packet types");
    assert_eq!(Packet::Pingreq.type_name(), "PINGREQ");
    assert_eq!(Packet::Auth(Auth::default()).type_code(), 15);
}

#[test]
fn reason_code_tables() {
    assert_eq!(legal_reason_codes(2, S2C).len(), 22);
    assert_eq!(legal_reason_codes(4, C2S), legal_reason_codes(5, S2C));
    assert_eq!(legal_reason_codes(6, C2S), &[0x00, 0x92]);
    assert_eq!(legal_reason_codes(7, S2C), &[0x00, 0x92]);
    assert_eq!(legal_reason_codes(9, S2C).len(), 12);
    assert_eq!(legal_reason_codes(11, S2C).len(), 7);
    assert!(legal_reason_codes(14, C2S).contains(&0x04));
    assert!(!legal_reason_codes(14, S2C).contains(&0x04));
    assert!(legal_reason_codes(14, S2C).contains(&0x8B));
    assert!(!legal_reason_codes(14, C2S).contains(&0x8B));
    assert_eq!(legal_reason_codes(14, C2S).len(), 14);
    assert_eq!(legal_reason_codes(14, S2C).len(), 28);
    assert_eq!(legal_reason_codes(15, C2S), &[0x18, 0x19]);
    assert_eq!(legal_reason_codes(15, S2C), &[0x00, 0x18]);
    for t in [1u8, 3, 8, 10, 12, 13, 0, 16] {
        assert!(legal_reason_codes(t, C2S).is_empty());
    }
}
