//! Shared helpers: fully populated sample packets, byte builders, assertions.
#![allow(dead_code)]

use refmqtt::*;

pub use refmqtt::Direction::{ClientToServer as C2S, ServerToClient as S2C};
pub use refmqtt::Version::{V311, V5};

pub fn ups() -> UserProps {
    vec![
        ("k1".to_string(), "v1".to_string()),
        ("k2".to_string(), "v2".to_string()),
        ("k1".to_string(), "v3 \u{00e9}\u{4e16}\u{1F600}".to_string()),
        (String::new(), String::new()),
        ("k0".to_string(), "v0".to_string()),
    ]
}

fn s(x: &str) -> Option<String> {
    Some(x.to_string())
}

pub fn full_will() -> Will {
    Will {
        qos: 2,
        retain: true,
        topic: "will/topic/\u{00fc}".to_string(),
        payload: vec![0x00, 0xFF, 0x10, 0x80, b'w'],
        will_delay_interval: Some(0x0102_0304),
        payload_format: Some(0),
        message_expiry: Some(0xFFFF_FFFF),
        content_type: s("application/octet-stream"),
        response_topic: s("will/resp"),
        correlation_data: Some(vec![1, 2, 3, 0]),
        user_props: ups(),
    }
}

pub fn full_connect() -> Connect {
    Connect {
        clean_start: true,
        keep_alive: 0x1234,
        client_id: "client-\u{00e9}-1".to_string(),
        will: Some(full_will()),
        username: s("user name"),
        password: Some(vec![0, 1, 2, 0xFF, b'p']),
        session_expiry: Some(0xFFFF_FFFF),
        receive_maximum: Some(1),
        maximum_packet_size: Some(268_435_460),
        topic_alias_maximum: Some(0),
        request_response_information: Some(true),
        request_problem_information: Some(false),
        user_props: ups(),
        auth_method: s("SCRAM-SHA-1"),
        auth_data: Some(vec![0xDE, 0xAD, 0x00, 0xBE, 0xEF]),
    }
}

pub fn full_connack() -> Connack {
    Connack {
        session_present: true,
        reason: 0,
        session_expiry: Some(3600),
        receive_maximum: Some(65535),
        maximum_qos: Some(1),
        retain_available: Some(false),
        maximum_packet_size: Some(1),
        assigned_client_id: s("assigned-\u{4e16}"),
        topic_alias_maximum: Some(10),
        reason_string: s("all good"),
        user_props: ups(),
        wildcard_subscription_available: Some(true),
        subscription_identifiers_available: Some(false),
        shared_subscription_available: Some(true),
        server_keep_alive: Some(0),
        response_information: s("resp/info"),
        server_reference: s("other.example.org:1883"),
        auth_method: s("m"),
        auth_data: Some(vec![]),
    }
}

pub fn full_publish(dir: Direction) -> Publish {
    Publish {
        dup: true,
        qos: 2,
        retain: true,
        topic: "a/b/\u{00fc}/ c".to_string(),
        pid: Some(0xABCD),
        payload: vec![0x00, 0x01, 0xFF, 0xFE, b'x', 0x80],
        payload_format: Some(0),
        message_expiry: Some(0),
        topic_alias: Some(65535),
        response_topic: s("r/t"),
        correlation_data: Some(vec![9, 8, 7]),
        subscription_ids: if dir == S2C { vec![1, 300, 268_435_455, 127, 128, 1] } else { vec![] },
        content_type: s("text/plain"),
        user_props: ups(),
    }
}

fn ack(pid: u16, reason: u8, with_props: bool) -> Ack {
    Ack {
        pid,
        reason,
        reason_string: if with_props { s("because") } else { None },
        user_props: if with_props { ups() } else { vec![] },
    }
}

/// Valid sample packets for `version` (every packet type, fully populated plus minimal variants),
/// each with the direction it has to be decoded in.
pub fn samples(version: Version) -> Vec<(Direction, Packet)> {
    let v5 = version == V5;
    let mut v: Vec<(Direction, Packet)> = Vec::new();

    // CONNECT
    v.push((C2S, Packet::Connect(full_connect())));
    v.push((
        C2S,
        Packet::Connect(Connect { clean_start: true, keep_alive: 60, client_id: "c".into(), ..Connect::default() }),
    ));
    v.push((
        C2S,
        Packet::Connect(Connect {
            clean_start: false,
            client_id: "x".into(),
            will: Some(Will { qos: 0, retain: false, topic: "w".into(), payload: vec![], ..Will::default() }),
            username: s("u"),
            ..Connect::default()
        }),
    ));
    if v5 {
        // V5 allows a password without a user name and an empty client id without clean start
        v.push((
            C2S,
            Packet::Connect(Connect { client_id: String::new(), password: Some(vec![1]), ..Connect::default() }),
        ));
    }

    // CONNACK
    v.push((S2C, Packet::Connack(full_connack())));
    v.push((S2C, Packet::Connack(Connack::default())));
    v.push((
        S2C,
        Packet::Connack(Connack {
            session_present: false,
            reason: if v5 { 0x87 } else { 5 },
            reason_string: s("no"),
            ..Connack::default()
        }),
    ));

    // PUBLISH
    v.push((S2C, Packet::Publish(full_publish(S2C))));
    v.push((C2S, Packet::Publish(full_publish(C2S))));
    v.push((
        C2S,
        Packet::Publish(Publish { topic: "t".into(), ..Publish::default() }), // qos 0, empty payload
    ));
    v.push((
        S2C,
        Packet::Publish(Publish {
            qos: 1,
            pid: Some(1),
            topic: "t/1".into(),
            payload: vec![b'h'; 200], // forces a two byte remaining length
            payload_format: Some(1),
            ..Publish::default()
        }),
    ));
    if v5 {
        v.push((
            C2S,
            Packet::Publish(Publish { topic: String::new(), topic_alias: Some(1), payload: b"z".to_vec(), ..Publish::default() }),
        ));
    }

    // PUBACK / PUBREC / PUBREL / PUBCOMP
    for dir in [C2S, S2C] {
        v.push((dir, Packet::Puback(ack(1, 0x10, true))));
        v.push((dir, Packet::Pubrec(ack(0xFFFF, 0x80, true))));
        v.push((dir, Packet::Pubrel(ack(0x0100, 0x92, true))));
        v.push((dir, Packet::Pubcomp(ack(0x00FF, 0x92, true))));
    }
    v.push((S2C, Packet::Puback(ack(2, 0, false))));
    v.push((S2C, Packet::Pubrec(ack(3, 0, false))));
    v.push((C2S, Packet::Pubrel(ack(4, 0, false))));
    v.push((S2C, Packet::Pubcomp(ack(5, 0, false))));
    v.push((S2C, Packet::Puback(ack(6, 0x97, false))));
    v.push((S2C, Packet::Pubrec(ack(7, 0x99, false))));
    v.push((S2C, Packet::Pubrel(ack(8, 0x92, false))));
    v.push((C2S, Packet::Pubcomp(ack(9, 0x92, false))));
    v.push((C2S, Packet::Puback(ack(10, 0, true))));

    // SUBSCRIBE
    v.push((
        C2S,
        Packet::Subscribe(Subscribe {
            pid: 0x1001,
            subscription_id: Some(300),
            user_props: ups(),
            entries: vec![
                SubEntry { filter: "a/+/c/#".into(), qos: 2, no_local: true, retain_as_published: true, retain_handling: 2 },
                SubEntry { filter: "$share/grp/x/+".into(), qos: 1, no_local: false, retain_as_published: true, retain_handling: 1 },
                SubEntry { filter: "#".into(), qos: 0, no_local: false, retain_as_published: false, retain_handling: 0 },
                SubEntry { filter: "+".into(), qos: 1, no_local: true, retain_as_published: false, retain_handling: 0 },
                SubEntry { filter: "/".into(), qos: 2, no_local: false, retain_as_published: false, retain_handling: 2 },
                SubEntry { filter: "+/+/\u{00e9}".into(), qos: 0, ..SubEntry::default() },
                SubEntry { filter: "$SYS/#".into(), qos: 0, ..SubEntry::default() },
            ],
        }),
    ));
    v.push((
        C2S,
        Packet::Subscribe(Subscribe {
            pid: 1,
            subscription_id: Some(268_435_455),
            entries: vec![SubEntry { filter: "a".into(), ..SubEntry::default() }],
            ..Subscribe::default()
        }),
    ));

    // SUBACK
    v.push((
        S2C,
        Packet::Suback(Suback {
            pid: 0x1001,
            reason_string: s("partially"),
            user_props: ups(),
            reasons: if v5 {
                legal_reason_codes(9, S2C).to_vec()
            } else {
                vec![0, 1, 2, 0x80, 2, 1, 0]
            },
        }),
    ));
    v.push((S2C, Packet::Suback(Suback { pid: 1, reasons: vec![0], ..Suback::default() })));

    // UNSUBSCRIBE
    v.push((
        C2S,
        Packet::Unsubscribe(Unsubscribe {
            pid: 0x2002,
            user_props: ups(),
            filters: vec!["a/+/c/#".into(), "$share/grp/x/+".into(), "#".into(), "plain".into()],
        }),
    ));
    v.push((C2S, Packet::Unsubscribe(Unsubscribe { pid: 1, filters: vec!["a".into()], ..Unsubscribe::default() })));

    // UNSUBACK
    v.push((
        S2C,
        Packet::Unsuback(Unsuback {
            pid: 0x2002,
            reason_string: s("done"),
            user_props: ups(),
            reasons: legal_reason_codes(11, S2C).to_vec(),
        }),
    ));
    v.push((S2C, Packet::Unsuback(Unsuback { pid: 1, reasons: vec![0x11], ..Unsuback::default() })));

    // PINGREQ / PINGRESP
    v.push((C2S, Packet::Pingreq));
    v.push((S2C, Packet::Pingresp));

    // DISCONNECT
    v.push((
        C2S,
        Packet::Disconnect(Disconnect {
            reason: 0x04,
            session_expiry: Some(7),
            reason_string: s("bye"),
            server_reference: None,
            user_props: ups(),
        }),
    ));
    v.push((C2S, Packet::Disconnect(Disconnect::default())));
    v.push((C2S, Packet::Disconnect(Disconnect { reason: 0x81, ..Disconnect::default() })));
    if v5 {
        v.push((
            S2C,
            Packet::Disconnect(Disconnect {
                reason: 0x9C,
                session_expiry: None,
                reason_string: s("moved"),
                server_reference: s("srv2:8883"),
                user_props: ups(),
            }),
        ));
        v.push((S2C, Packet::Disconnect(Disconnect::default())));
        v.push((S2C, Packet::Disconnect(Disconnect { reason: 0x8B, ..Disconnect::default() })));
        v.push((S2C, Packet::Disconnect(Disconnect { reason: 0, reason_string: s("r"), ..Disconnect::default() })));

        // AUTH
        v.push((
            C2S,
            Packet::Auth(Auth {
                reason: 0x18,
                auth_method: s("SCRAM-SHA-256"),
                auth_data: Some(vec![1, 0, 2]),
                reason_string: s("continue"),
                user_props: ups(),
            }),
        ));
        v.push((C2S, Packet::Auth(Auth { reason: 0x19, auth_method: s("m"), ..Auth::default() })));
        v.push((S2C, Packet::Auth(Auth { reason: 0x18, auth_method: s("m"), auth_data: Some(vec![]), ..Auth::default() })));
        v.push((S2C, Packet::Auth(Auth::default())));
        v.push((S2C, Packet::Auth(Auth { reason: 0, auth_method: s("m"), ..Auth::default() })));
    }
    v
}

// -------------------------------------------------------------------------------------------------
// byte builders

/// Concatenate byte slices.
pub fn cat(parts: &[&[u8]]) -> Vec<u8> {
    let mut v = Vec::new();
    for p in parts {
        v.extend_from_slice(p);
    }
    v
}

/// MQTT string / binary: two byte length + bytes.
pub fn st(x: &str) -> Vec<u8> {
    bin(x.as_bytes())
}

pub fn bin(x: &[u8]) -> Vec<u8> {
    let mut v = vec![(x.len() >> 8) as u8, (x.len() & 0xFF) as u8];
    v.extend_from_slice(x);
    v
}

/// Variable byte integer bytes.
pub fn vli(x: u32) -> Vec<u8> {
    let mut v = Vec::new();
    encode_vli(x, &mut v);
    v
}

/// Fixed header (first byte + minimal remaining length) + body.
pub fn pk(first: u8, body: &[u8]) -> Vec<u8> {
    let mut v = vec![first];
    encode_vli(body.len() as u32, &mut v);
    v.extend_from_slice(body);
    v
}

/// Property section: length + raw properties.
pub fn props(raw: &[u8]) -> Vec<u8> {
    cat(&[&vli(raw.len() as u32), raw])
}

// -------------------------------------------------------------------------------------------------
// assertions

pub fn hex(b: &[u8]) -> String {
    b.iter().map(|x| format!("{x:02X}")).collect::<Vec<_>>().join(" ")
}

pub fn assert_malformed(name: &str, v: Version, d: Direction, bytes: &[u8], needle: &str) {
    match decode(v, d, bytes) {
        Err(DecodeError::Malformed(m)) => {
            assert!(
                m.contains(needle),
                "{name}: [{}] is Malformed as expected, but the message {m:?} does not contain {needle:?}",
                hex(bytes)
            );
        }
        other => panic!("{name}: [{}] expected Malformed(..{needle}..), got {other:?}", hex(bytes)),
    }
}

pub fn assert_ok(name: &str, v: Version, d: Direction, bytes: &[u8]) -> Packet {
    match decode(v, d, bytes) {
        Ok((p, n)) => {
            assert_eq!(n, bytes.len(), "{name}: consumed length");
            p
        }
        other => panic!("{name}: [{}] expected Ok, got {other:?}", hex(bytes)),
    }
}

/// Every strict prefix of a valid packet must be `Incomplete`: never `Malformed`, never `Ok`.
pub fn assert_prefixes_incomplete(name: &str, v: Version, d: Direction, bytes: &[u8]) {
    for n in 0..bytes.len() {
        let r = decode(v, d, &bytes[..n]);
        assert_eq!(
            r,
            Err(DecodeError::Incomplete),
            "{name}: prefix of {n}/{} bytes of [{}]",
            bytes.len(),
            hex(bytes)
        );
    }
}
