//! Cheap deterministic robustness tests: `decode` never panics, and its results are self-consistent.

mod common;
use common::*;
use refmqtt::*;

struct XorShift(u64);
impl XorShift {
    fn next(&mut self) -> u64 {
        let mut x = self.0;
        x ^= x << 13;
        x ^= x >> 7;
        x ^= x << 17;
        self.0 = x;
        x
    }
    fn below(&mut self, n: u64) -> u64 {
        self.next() % n
    }
}

/// Decode `bytes` in every version/direction and check the invariants that must hold for ANY input.
/// Returns how many of the four decodes succeeded.
fn check_invariants(bytes: &[u8]) -> usize {
    let mut oks = 0;
    let header = peek_fixed_header(bytes);
    for v in [V5, V311] {
        for d in [C2S, S2C] {
            let r = decode(v, d, bytes);
            match (&r, &header) {
                (Ok((p, n)), Ok(Some((first, rl, hl)))) => {
                    oks += 1;
                    assert_eq!(*n, hl + *rl as usize, "consumed = header + remaining length [{}]", hex(bytes));
                    assert!(*n <= bytes.len());
                    assert_eq!(p.type_code(), first >> 4);
                    // whatever decodes can be re-encoded, and decodes to the same model again
                    let again = encode(v, p, &EncodeOpts::default());
                    assert_eq!(
                        decode(v, d, &again),
                        Ok((p.clone(), again.len())),
                        "{v:?} {d:?} re-encode of [{}] gave [{}]",
                        hex(bytes),
                        hex(&again)
                    );
                    // and in a permuted / explicit layout as well
                    let opts = EncodeOpts { prop_order_seed: 0x5EED, explicit_reason: true, explicit_prop_len: true };
                    let again = encode(v, p, &opts);
                    assert_eq!(decode(v, d, &again), Ok((p.clone(), again.len())));
                    // the decoded bytes are a valid packet: all its strict prefixes are Incomplete
                    if *n <= 24 {
                        assert_prefixes_incomplete("fuzz", v, d, &bytes[..*n]);
                    }
                }
                (Ok(_), other) => panic!("decode Ok but peek_fixed_header says {other:?} [{}]", hex(bytes)),
                (Err(DecodeError::Incomplete), Ok(Some((_, rl, hl)))) => {
                    // Incomplete is only for the outer framing
                    assert!(
                        bytes.len() < hl + *rl as usize,
                        "{v:?} {d:?}: Incomplete although the whole announced packet is present [{}]",
                        hex(bytes)
                    );
                }
                (Err(DecodeError::Incomplete), Ok(None)) => {}
                (Err(DecodeError::Incomplete), Err(e)) => {
                    panic!("decode Incomplete but fixed header is malformed ({e:?}) [{}]", hex(bytes))
                }
                (Err(DecodeError::Malformed(m)), _) => {
                    assert!(!m.is_empty());
                }
            }
        }
    }
    oks
}

const VALID_FIRST_BYTES: [u8; 26] = [
    0x10, 0x20, 0x30, 0x31, 0x32, 0x33, 0x34, 0x35, 0x3A, 0x3B, 0x3C, 0x3D, 0x40, 0x50, 0x62, 0x70, 0x82, 0x90, 0xA2,
    0xB0, 0xC0, 0xD0, 0xE0, 0xF0, 0x30, 0x82,
];

#[test]
fn random_bytes_never_panic() {
    let mut rng = XorShift(0x9E37_79B9_7F4A_7C15);
    let mut oks = 0usize;
    for i in 0..200_000u32 {
        let len = rng.below(65) as usize;
        let mut bytes: Vec<u8> = Vec::with_capacity(len);
        while bytes.len() < len {
            let word = rng.next().to_le_bytes();
            // bias towards small values, which are far more interesting for length fields
            let small = rng.below(3) == 0;
            for b in word {
                if bytes.len() < len {
                    bytes.push(if small { b & 0x0F } else { b });
                }
            }
        }
        // three out of four inputs get a plausible fixed header so that the body parsers are reached
        if i % 4 != 0 && len >= 2 {
            bytes[0] = VALID_FIRST_BYTES[rng.below(VALID_FIRST_BYTES.len() as u64) as usize];
            bytes[1] = (len - 2) as u8;
            if i % 4 == 2 && len >= 12 && bytes[0] == 0x10 {
                // plausible CONNECT variable header
                let level = if i % 8 == 2 { 5 } else { 4 };
                bytes[2..9].copy_from_slice(&[0x00, 0x04, b'M', b'Q', b'T', b'T', level]);
                bytes[9] &= 0xFE;
            }
        }
        oks += check_invariants(&bytes);
    }
    // the generator must be good enough to reach the success paths many times
    assert!(oks > 1000, "only {oks} successful decodes; the fuzz inputs are too weak");
}

#[test]
fn mutated_valid_packets_never_panic() {
    let mut rng = XorShift(0xD1B5_4A32_D192_ED03);
    let mut total = 0usize;
    for v in [V5, V311] {
        for (_, packet) in samples(v) {
            for seed in [0u64, 3] {
                let opts = EncodeOpts { prop_order_seed: seed, explicit_reason: seed != 0, explicit_prop_len: false };
                let bytes = encode(v, &packet, &opts);
                if bytes.len() > 600 {
                    continue;
                }
                for pos in 0..bytes.len() {
                    // every single-bit flip
                    for bit in 0..8 {
                        let mut m = bytes.clone();
                        m[pos] ^= 1 << bit;
                        check_invariants(&m);
                        total += 1;
                    }
                    // interesting values
                    for val in [0x00u8, 0x01, 0x7F, 0x80, 0xFF, rng.next() as u8] {
                        let mut m = bytes.clone();
                        m[pos] = val;
                        check_invariants(&m);
                        total += 1;
                    }
                    // delete one byte / insert one byte, with and without fixing the remaining length
                    let mut del = bytes.clone();
                    del.remove(pos);
                    check_invariants(&del);
                    let mut ins = bytes.clone();
                    ins.insert(pos, rng.next() as u8);
                    check_invariants(&ins);
                    total += 2;
                }
                // cut the body short and patch the remaining length so the framing is complete:
                // the result must never be Incomplete (checked inside check_invariants)
                let (first, rl, hl) = peek_fixed_header(&bytes).unwrap().unwrap();
                for cut in 1..=(rl as usize).min(40) {
                    let body = &bytes[hl..bytes.len() - cut];
                    let m = pk(first, body);
                    for d in [C2S, S2C] {
                        assert_ne!(decode(v, d, &m), Err(DecodeError::Incomplete), "[{}]", hex(&m));
                    }
                    check_invariants(&m);
                    total += 1;
                }
                // extend the body with junk and patch the remaining length
                for extra in 1..4usize {
                    let mut body = bytes[hl..].to_vec();
                    for _ in 0..extra {
                        body.push(rng.next() as u8);
                    }
                    check_invariants(&pk(first, &body));
                    total += 1;
                }
            }
        }
    }
    assert!(total > 50_000, "{total}");
}

#[test]
fn two_packets_back_to_back() {
    // decode consumes exactly one packet from the front of a stream
    for v in [V5, V311] {
        let all = samples(v);
        let mut stream = Vec::new();
        for (_, p) in &all {
            stream.extend_from_slice(&encode(v, p, &EncodeOpts { prop_order_seed: 2, ..EncodeOpts::default() }));
        }
        let mut pos = 0;
        for (d, p) in &all {
            let (got, n) = decode(v, *d, &stream[pos..]).unwrap();
            assert_eq!(got, p.normalized(v));
            pos += n;
        }
        assert_eq!(pos, stream.len());
        assert_eq!(decode(v, C2S, &stream[pos..]), Err(DecodeError::Incomplete));
    }
}
