//! One or more hand-built negative vectors for every strictness rule of the decoder.
//! Every case checks `Malformed` AND that the message names the intended rule.

mod common;
use common::*;
use refmqtt::*;

// -------------------------------------------------------------------------------------------------
// valid base packets (hand-built) that the negative cases are derived from

const MQTT5_HDR: &[u8] = &[0x00, 0x04, b'M', b'Q', b'T', b'T', 0x05];
const MQTT4_HDR: &[u8] = &[0x00, 0x04, b'M', b'Q', b'T', b'T', 0x04];

/// V5 CONNECT: flags, keep alive 60, `props_raw`, then `payload`.
fn connect5(flags: u8, props_raw: &[u8], payload: &[u8]) -> Vec<u8> {
    pk(0x10, &cat(&[MQTT5_HDR, &[flags, 0x00, 0x3C], &props(props_raw), payload]))
}
fn connect4(flags: u8, payload: &[u8]) -> Vec<u8> {
    pk(0x10, &cat(&[MQTT4_HDR, &[flags, 0x00, 0x3C], payload]))
}
fn connect5_props(raw: &[u8]) -> Vec<u8> {
    connect5(0x02, raw, &st("c"))
}
fn connect5_will_props(raw: &[u8]) -> Vec<u8> {
    connect5(0x06, &[], &cat(&[&st("c"), &props(raw), &st("w"), &bin(b"")]))
}
fn connack5(raw: &[u8]) -> Vec<u8> {
    pk(0x20, &cat(&[&[0x00, 0x00], &props(raw)]))
}
fn publish5(raw: &[u8]) -> Vec<u8> {
    pk(0x30, &cat(&[&st("t"), &props(raw), b"p"]))
}
fn puback5(raw: &[u8]) -> Vec<u8> {
    pk(0x40, &cat(&[&[0x00, 0x01, 0x00], &props(raw)]))
}
fn pubrec5(raw: &[u8]) -> Vec<u8> {
    pk(0x50, &cat(&[&[0x00, 0x01, 0x00], &props(raw)]))
}
fn pubrel5(raw: &[u8]) -> Vec<u8> {
    pk(0x62, &cat(&[&[0x00, 0x01, 0x00], &props(raw)]))
}
fn pubcomp5(raw: &[u8]) -> Vec<u8> {
    pk(0x70, &cat(&[&[0x00, 0x01, 0x00], &props(raw)]))
}
fn subscribe5(raw: &[u8]) -> Vec<u8> {
    pk(0x82, &cat(&[&[0x00, 0x01], &props(raw), &st("a"), &[0x00]]))
}
fn suback5(raw: &[u8]) -> Vec<u8> {
    pk(0x90, &cat(&[&[0x00, 0x01], &props(raw), &[0x00]]))
}
fn unsubscribe5(raw: &[u8]) -> Vec<u8> {
    pk(0xA2, &cat(&[&[0x00, 0x01], &props(raw), &st("a")]))
}
fn unsuback5(raw: &[u8]) -> Vec<u8> {
    pk(0xB0, &cat(&[&[0x00, 0x01], &props(raw), &[0x00]]))
}
fn disconnect5(raw: &[u8]) -> Vec<u8> {
    pk(0xE0, &cat(&[&[0x00], &props(raw)]))
}
fn auth5(raw: &[u8]) -> Vec<u8> {
    pk(0xF0, &cat(&[&[0x18], &props(raw)]))
}

/// One valid encoding of every property defined by MQTT 5.0 (identifier + value).
fn prop_table() -> Vec<(u8, Vec<u8>)> {
    let u32_1 = [0u8, 0, 0, 1];
    let u16_1 = [0u8, 1];
    vec![
        (0x01, vec![0x01]),
        (0x02, u32_1.to_vec()),
        (0x03, st("c")),
        (0x08, st("r")),
        (0x09, bin(&[1])),
        (0x0B, vec![0x05]),
        (0x11, u32_1.to_vec()),
        (0x12, st("i")),
        (0x13, u16_1.to_vec()),
        (0x15, st("m")),
        (0x16, bin(&[2])),
        (0x17, vec![0x01]),
        (0x18, u32_1.to_vec()),
        (0x19, vec![0x01]),
        (0x1A, st("x")),
        (0x1C, st("s")),
        (0x1F, st("why")),
        (0x21, u16_1.to_vec()),
        (0x22, u16_1.to_vec()),
        (0x23, u16_1.to_vec()),
        (0x24, vec![0x01]),
        (0x25, vec![0x01]),
        (0x26, cat(&[&st("k"), &st("v")])),
        (0x27, u32_1.to_vec()),
        (0x28, vec![0x01]),
        (0x29, vec![0x01]),
        (0x2A, vec![0x01]),
    ]
}

fn one(id: u8, val: &[u8]) -> Vec<u8> {
    cat(&[&[id], val])
}

struct PropCtx {
    name: &'static str,
    build: fn(&[u8]) -> Vec<u8>,
    dir: Direction,
    allowed: &'static [u8],
    /// identifiers that are in the packet's table but illegal for this sender: (id, needle)
    dir_forbidden: &'static [(u8, &'static str)],
}

fn prop_contexts() -> Vec<PropCtx> {
    const ACK: &[u8] = &[0x1F, 0x26];
    vec![
        PropCtx {
            name: "CONNECT",
            build: connect5_props,
            dir: C2S,
            allowed: &[0x11, 0x15, 0x16, 0x17, 0x19, 0x21, 0x22, 0x26, 0x27],
            dir_forbidden: &[],
        },
        PropCtx {
            name: "WILL",
            build: connect5_will_props,
            dir: C2S,
            allowed: &[0x01, 0x02, 0x03, 0x08, 0x09, 0x18, 0x26],
            dir_forbidden: &[],
        },
        PropCtx {
            name: "CONNACK",
            build: connack5,
            dir: S2C,
            allowed: &[
                0x11, 0x12, 0x13, 0x15, 0x16, 0x1A, 0x1C, 0x1F, 0x21, 0x22, 0x24, 0x25, 0x26, 0x27, 0x28, 0x29, 0x2A,
            ],
            dir_forbidden: &[],
        },
        PropCtx {
            name: "PUBLISH s2c",
            build: publish5,
            dir: S2C,
            allowed: &[0x01, 0x02, 0x03, 0x08, 0x09, 0x0B, 0x23, 0x26],
            dir_forbidden: &[],
        },
        PropCtx {
            name: "PUBLISH c2s",
            build: publish5,
            dir: C2S,
            allowed: &[0x01, 0x02, 0x03, 0x08, 0x09, 0x23, 0x26],
            dir_forbidden: &[(0x0B, "MQTT-3.3.4-6")],
        },
        PropCtx { name: "PUBACK", build: puback5, dir: S2C, allowed: ACK, dir_forbidden: &[] },
        PropCtx { name: "PUBREC", build: pubrec5, dir: C2S, allowed: ACK, dir_forbidden: &[] },
        PropCtx { name: "PUBREL", build: pubrel5, dir: S2C, allowed: ACK, dir_forbidden: &[] },
        PropCtx { name: "PUBCOMP", build: pubcomp5, dir: C2S, allowed: ACK, dir_forbidden: &[] },
        PropCtx { name: "SUBSCRIBE", build: subscribe5, dir: C2S, allowed: &[0x0B, 0x26], dir_forbidden: &[] },
        PropCtx { name: "SUBACK", build: suback5, dir: S2C, allowed: ACK, dir_forbidden: &[] },
        PropCtx { name: "UNSUBSCRIBE", build: unsubscribe5, dir: C2S, allowed: &[0x26], dir_forbidden: &[] },
        PropCtx { name: "UNSUBACK", build: unsuback5, dir: S2C, allowed: ACK, dir_forbidden: &[] },
        PropCtx {
            name: "DISCONNECT c2s",
            build: disconnect5,
            dir: C2S,
            allowed: &[0x11, 0x1F, 0x26],
            dir_forbidden: &[(0x1C, "Server Reference")],
        },
        PropCtx {
            name: "DISCONNECT s2c",
            build: disconnect5,
            dir: S2C,
            allowed: &[0x1C, 0x1F, 0x26],
            dir_forbidden: &[(0x11, "MQTT-3.14.2-2")],
        },
        PropCtx { name: "AUTH", build: auth5, dir: C2S, allowed: &[0x15, 0x16, 0x1F, 0x26], dir_forbidden: &[] },
    ]
}

// -------------------------------------------------------------------------------------------------
// properties: allowed set per packet, duplicates, unknown identifiers

#[test]
fn base_packets_are_valid() {
    for c in prop_contexts() {
        assert_ok(c.name, V5, c.dir, &(c.build)(&[]));
    }
    assert_ok("connect4", V311, C2S, &connect4(0x02, &st("c")));
}

#[test]
fn properties_allowed_per_packet_type() {
    let table = prop_table();
    for c in prop_contexts() {
        for (id, val) in &table {
            let name = format!("{} property {id:#04x}", c.name);
            let mut raw = one(*id, val);
            if c.name == "CONNECT" && *id == 0x16 {
                // authentication data needs an authentication method next to it
                raw = cat(&[&one(0x15, &st("m")), &raw]);
            }
            let bytes = (c.build)(&raw);
            if c.allowed.contains(id) {
                assert_ok(&name, V5, c.dir, &bytes);
            } else if let Some((_, needle)) = c.dir_forbidden.iter().find(|(i, _)| i == id) {
                assert_malformed(&name, V5, c.dir, &bytes, needle);
            } else {
                assert_malformed(&name, V5, c.dir, &bytes, "is not allowed in");
            }
        }
    }
}

#[test]
fn duplicate_properties() {
    let table = prop_table();
    for c in prop_contexts() {
        for (id, val) in &table {
            if !c.allowed.contains(id) {
                continue;
            }
            let name = format!("{} duplicate property {id:#04x}", c.name);
            let mut raw = cat(&[&one(*id, val), &one(*id, val)]);
            if c.name == "CONNECT" && *id == 0x16 {
                raw = cat(&[&one(0x15, &st("m")), &raw]);
            }
            // a user property in between must not hide the duplicate
            let raw_spread = cat(&[&one(*id, val), &one(0x26, &cat(&[&st("k"), &st("v")])), &one(*id, val)]);
            let repeatable = *id == 0x26 || (*id == 0x0B && c.name.starts_with("PUBLISH"));
            if repeatable {
                assert_ok(&name, V5, c.dir, &(c.build)(&raw));
            } else {
                assert_malformed(&name, V5, c.dir, &(c.build)(&raw), "more than once");
                if !(c.name == "CONNECT" && *id == 0x16) && c.allowed.contains(&0x26) {
                    assert_malformed(&name, V5, c.dir, &(c.build)(&raw_spread), "more than once");
                }
            }
        }
    }
}

#[test]
fn unknown_property_identifiers() {
    let known: Vec<u8> = prop_table().iter().map(|(id, _)| *id).collect();
    for c in prop_contexts() {
        for id in 0u8..=0x7F {
            if known.contains(&id) {
                continue;
            }
            let name = format!("{} unknown property {id:#04x}", c.name);
            assert_malformed(&name, V5, c.dir, &(c.build)(&[id, 0x00]), "unknown property identifier");
            assert_malformed(&name, V5, c.dir, &(c.build)(&[id]), "unknown property identifier");
        }
        // identifiers are variable byte integers: 128 = 80 01 is unknown, 81 00 is a non-minimal "1"
        assert_malformed(c.name, V5, c.dir, &(c.build)(&[0x80, 0x01, 0x00]), "unknown property identifier");
        assert_malformed(c.name, V5, c.dir, &(c.build)(&[0x81, 0x00, 0x00]), "not minimally encoded");
    }
}

#[test]
fn property_length_and_value_framing() {
    // property length larger than what is left in the packet
    assert_malformed("connack plen past end", V5, S2C, &[0x20, 0x03, 0x00, 0x00, 0x05], "exceeds");
    assert_malformed("publish plen past end", V5, S2C, &pk(0x30, &cat(&[&st("t"), &[0x02, 0x01]])), "exceeds");
    // property length is a VLI: must be minimal, at most 4 bytes, and present
    assert_malformed("connack plen non-minimal", V5, S2C, &[0x20, 0x04, 0x00, 0x00, 0x80, 0x00], "not minimally encoded");
    assert_malformed(
        "connack plen 5 bytes",
        V5,
        S2C,
        &[0x20, 0x07, 0x00, 0x00, 0x80, 0x80, 0x80, 0x80, 0x00],
        "longer than 4 bytes",
    );
    assert_malformed("connack plen cut", V5, S2C, &[0x20, 0x03, 0x00, 0x00, 0x80], "cut off");
    assert_malformed("publish no plen", V5, S2C, &pk(0x30, &st("t")), "cut off");
    assert_malformed("subscribe no plen", V5, C2S, &[0x82, 0x02, 0x00, 0x01], "cut off");
    // property value runs past the end of the property section
    assert_malformed("u32 cut", V5, S2C, &connack5(&[0x11, 0x00, 0x00]), "runs past the end");
    assert_malformed("u16 cut", V5, S2C, &connack5(&[0x21, 0x00]), "runs past the end");
    assert_malformed("byte cut", V5, S2C, &connack5(&[0x24]), "runs past the end");
    assert_malformed("string cut", V5, S2C, &connack5(&[0x1F, 0x00, 0x05, b'a']), "runs past the end");
    assert_malformed("string len cut", V5, S2C, &connack5(&[0x1F, 0x00]), "runs past the end");
    assert_malformed("binary cut", V5, S2C, &connack5(&[0x16, 0x00, 0x02, 0x01]), "runs past the end");
    assert_malformed("user prop value missing", V5, S2C, &connack5(&cat(&[&[0x26], &st("k")])), "runs past the end");
    assert_malformed("vli cut", V5, C2S, &subscribe5(&[0x0B, 0x80]), "cut off");
    // a property value may not borrow bytes from behind the property section:
    // property length 3 covers "11 00 00", the two following bytes would complete the u32
    assert_malformed(
        "value crosses property length",
        V5,
        S2C,
        &pk(0x20, &[0x00, 0x00, 0x03, 0x11, 0x00, 0x00, 0x00, 0x01]),
        "runs past the end",
    );
    // strings inside properties obey the string rules
    assert_malformed("reason string bad utf8", V5, S2C, &connack5(&[0x1F, 0x00, 0x02, 0xC3, 0x28]), "ill-formed UTF-8");
    assert_malformed("reason string nul", V5, S2C, &connack5(&[0x1F, 0x00, 0x01, 0x00]), "U+0000");
    assert_malformed("user prop key nul", V5, S2C, &connack5(&cat(&[&[0x26], &st("a\0"), &st("v")])), "U+0000");
    assert_malformed(
        "user prop value surrogate",
        V5,
        S2C,
        &connack5(&cat(&[&[0x26], &st("k"), &[0x00, 0x03, 0xED, 0xA0, 0x80]])),
        "ill-formed UTF-8",
    );
}

#[test]
fn property_value_rules() {
    // Subscription Identifier is a Variable Byte Integer with range 1..=268435455
    assert_malformed("subid 0 subscribe", V5, C2S, &subscribe5(&[0x0B, 0x00]), "Subscription Identifier has value 0");
    assert_malformed("subid 0 publish", V5, S2C, &publish5(&[0x0B, 0x00]), "Subscription Identifier has value 0");
    assert_malformed("subid twice subscribe", V5, C2S, &subscribe5(&[0x0B, 0x01, 0x0B, 0x02]), "more than once in SUBSCRIBE");
    assert_ok("subid many publish", V5, S2C, &publish5(&[0x0B, 0x01, 0x0B, 0x02, 0x0B, 0x01]));
    assert_malformed("subid 5 byte vli", V5, C2S, &subscribe5(&[0x0B, 0xFF, 0xFF, 0xFF, 0xFF, 0x01]), "longer than 4 bytes");
    assert_malformed("subid non-minimal", V5, C2S, &subscribe5(&[0x0B, 0x81, 0x00]), "not minimally encoded");
    // a sender that wrongly writes it as a two / four byte integer is caught
    assert_malformed("subid as u16 5", V5, C2S, &subscribe5(&[0x0B, 0x00, 0x05]), "Subscription Identifier has value 0");
    assert_malformed("subid as u32 5", V5, C2S, &subscribe5(&[0x0B, 0x00, 0x00, 0x00, 0x05]), "Subscription Identifier has value 0");
    assert_malformed("subid as u16 0x0105", V5, C2S, &subscribe5(&[0x0B, 0x01, 0x05]), "unknown property identifier");
    let p = assert_ok("subid max", V5, C2S, &subscribe5(&[0x0B, 0xFF, 0xFF, 0xFF, 0x7F]));
    match p {
        Packet::Subscribe(s) => assert_eq!(s.subscription_id, Some(268_435_455)),
        other => panic!("{other:?}"),
    }

    assert_malformed("topic alias 0", V5, S2C, &publish5(&[0x23, 0x00, 0x00]), "Topic Alias has value 0");
    assert_malformed("receive maximum 0 connect", V5, C2S, &connect5_props(&[0x21, 0x00, 0x00]), "Receive Maximum has value 0");
    assert_malformed("receive maximum 0 connack", V5, S2C, &connack5(&[0x21, 0x00, 0x00]), "Receive Maximum has value 0");
    assert_malformed(
        "max packet size 0 connect",
        V5,
        C2S,
        &connect5_props(&[0x27, 0x00, 0x00, 0x00, 0x00]),
        "Maximum Packet Size has value 0",
    );
    assert_malformed(
        "max packet size 0 connack",
        V5,
        S2C,
        &connack5(&[0x27, 0x00, 0x00, 0x00, 0x00]),
        "Maximum Packet Size has value 0",
    );
    assert_malformed("maximum qos 2", V5, S2C, &connack5(&[0x24, 0x02]), "Maximum QoS has value 2");
    assert_malformed("maximum qos 255", V5, S2C, &connack5(&[0x24, 0xFF]), "Maximum QoS has value 255");
    assert_ok("maximum qos 0", V5, S2C, &connack5(&[0x24, 0x00]));
    for id in [0x25u8, 0x28, 0x29, 0x2A] {
        assert_malformed("connack bool 2", V5, S2C, &connack5(&[id, 0x02]), "only 0 or 1 are allowed");
        assert_malformed("connack bool ff", V5, S2C, &connack5(&[id, 0xFF]), "only 0 or 1 are allowed");
        assert_ok("connack bool 0", V5, S2C, &connack5(&[id, 0x00]));
    }
    for id in [0x17u8, 0x19] {
        assert_malformed("connect bool 2", V5, C2S, &connect5_props(&[id, 0x02]), "only 0 or 1 are allowed");
        assert_ok("connect bool 0", V5, C2S, &connect5_props(&[id, 0x00]));
    }
    assert_malformed("payload format 2", V5, S2C, &publish5(&[0x01, 0x02]), "Payload Format Indicator has value 2");
    assert_malformed("will payload format 2", V5, C2S, &connect5_will_props(&[0x01, 0x02]), "Payload Format Indicator has value 2");
    // zero is fine where the spec gives it a meaning
    assert_ok("topic alias maximum 0", V5, S2C, &connack5(&[0x22, 0x00, 0x00]));
    assert_ok("session expiry 0", V5, S2C, &connack5(&[0x11, 0x00, 0x00, 0x00, 0x00]));
    assert_ok("server keep alive 0", V5, S2C, &connack5(&[0x13, 0x00, 0x00]));
}

// -------------------------------------------------------------------------------------------------
// fixed header

#[test]
fn fixed_header_flags() {
    // (valid packet, version, direction)
    let bases: Vec<(Vec<u8>, Version, Direction)> = vec![
        (connect5_props(&[]), V5, C2S),
        (connect4(0x02, &st("c")), V311, C2S),
        (connack5(&[]), V5, S2C),
        (vec![0x20, 0x02, 0x00, 0x00], V311, S2C),
        (vec![0x40, 0x02, 0x00, 0x01], V5, S2C),
        (vec![0x50, 0x02, 0x00, 0x01], V311, S2C),
        (vec![0x62, 0x02, 0x00, 0x01], V5, C2S),
        (vec![0x62, 0x02, 0x00, 0x01], V311, S2C),
        (vec![0x70, 0x02, 0x00, 0x01], V5, C2S),
        (subscribe5(&[]), V5, C2S),
        (vec![0x82, 0x06, 0x00, 0x01, 0x00, 0x01, b'a', 0x00], V311, C2S),
        (suback5(&[]), V5, S2C),
        (unsubscribe5(&[]), V5, C2S),
        (vec![0xA2, 0x05, 0x00, 0x01, 0x00, 0x01, b'a'], V311, C2S),
        (unsuback5(&[]), V5, S2C),
        (vec![0xB0, 0x02, 0x00, 0x01], V311, S2C),
        (vec![0xC0, 0x00], V5, C2S),
        (vec![0xC0, 0x00], V311, C2S),
        (vec![0xD0, 0x00], V5, S2C),
        (vec![0xD0, 0x00], V311, S2C),
        (vec![0xE0, 0x00], V5, C2S),
        (vec![0xE0, 0x00], V5, S2C),
        (vec![0xE0, 0x00], V311, C2S),
        (auth5(&[]), V5, C2S),
    ];
    for (base, v, d) in bases {
        let name = format!("{v:?} {d:?} [{}]", hex(&base));
        assert_ok(&name, v, d, &base);
        let good = base[0] & 0x0F;
        for flags in 0u8..16 {
            if flags == good {
                continue;
            }
            let mut bad = base.clone();
            bad[0] = (base[0] & 0xF0) | flags;
            assert_malformed(&format!("{name} flags {flags:#06b}"), v, d, &bad, "fixed header reserved flags");
            // detected from the very first byte
            assert_malformed(&format!("{name} flags {flags:#06b} first byte"), v, d, &bad[..1], "fixed header reserved flags");
        }
    }
}

#[test]
fn publish_flags() {
    for v in [V5, V311] {
        let body: Vec<u8> = if v == V5 { cat(&[&st("t"), &[0x00, 0x07, 0x00]]) } else { cat(&[&st("t"), &[0x00, 0x07]]) };
        for d in [C2S, S2C] {
            // QoS 3, with every combination of DUP / RETAIN
            for first in [0x36u8, 0x37, 0x3E, 0x3F] {
                assert_malformed("publish qos 3", v, d, &pk(first, &body), "QoS 3");
            }
            // DUP with QoS 0
            for first in [0x38u8, 0x39] {
                assert_malformed("publish dup qos 0", v, d, &pk(first, &body), "DUP=1 with QoS 0");
            }
            // all other flag combinations are legal
            for first in [0x32u8, 0x33, 0x34, 0x35, 0x3A, 0x3B, 0x3C, 0x3D] {
                assert_ok("publish flags ok", v, d, &pk(first, &body));
            }
        }
    }
}

#[test]
fn reserved_packet_types_and_direction() {
    for v in [V5, V311] {
        for d in [C2S, S2C] {
            assert_malformed("type 0", v, d, &[0x00, 0x00], "type 0 is reserved");
            assert_malformed("type 0 first byte", v, d, &[0x0F], "type 0 is reserved");
        }
    }
    assert_malformed("v311 type 15", V311, C2S, &[0xF0, 0x00], "type 15 is reserved");
    assert_malformed("v311 type 15", V311, S2C, &[0xF0, 0x00], "type 15 is reserved");

    let wrong_way: Vec<(Vec<u8>, Direction)> = vec![
        (connect5_props(&[]), S2C),
        (connack5(&[]), C2S),
        (subscribe5(&[]), S2C),
        (suback5(&[]), C2S),
        (unsubscribe5(&[]), S2C),
        (unsuback5(&[]), C2S),
        (vec![0xC0, 0x00], S2C),
        (vec![0xD0, 0x00], C2S),
    ];
    for (bytes, d) in wrong_way {
        assert_malformed("wrong direction v5", V5, d, &bytes, "cannot flow in direction");
        // the V311 encodings differ but the type nibble alone decides
        assert_malformed("wrong direction v311", V311, d, &bytes[..1], "cannot flow in direction");
    }
    assert_malformed("v311 server disconnect", V311, S2C, &[0xE0, 0x00], "DISCONNECT cannot flow from server to client");
    assert_ok("v5 server disconnect", V5, S2C, &[0xE0, 0x00]);
}

#[test]
fn remaining_length() {
    // non-minimal
    assert_malformed("rl 80 00", V5, C2S, &[0xC0, 0x80, 0x00], "not minimally encoded");
    assert_malformed("rl 82 00 (=2)", V5, S2C, &[0x40, 0x82, 0x00, 0x00, 0x01], "not minimally encoded");
    assert_malformed("rl 80 80 00", V311, C2S, &[0x30, 0x80, 0x80, 0x00], "not minimally encoded");
    // more than 4 bytes
    assert_malformed("rl 5 bytes", V5, C2S, &[0x30, 0xFF, 0xFF, 0xFF, 0xFF, 0x7F], "longer than 4 bytes");
    assert_malformed("rl 4 continuation bytes", V311, S2C, &[0x30, 0x80, 0x80, 0x80, 0x80], "longer than 4 bytes");
    assert_malformed("rl 5 bytes small", V5, C2S, &[0x30, 0x80, 0x80, 0x80, 0x80, 0x01], "longer than 4 bytes");
    // three continuation bytes are still undecided
    assert_eq!(decode(V5, C2S, &[0x30, 0x80, 0x80, 0x80]), Err(DecodeError::Incomplete));
    // the maximum is accepted as a header (and then the body is simply not there yet)
    assert_eq!(decode(V5, C2S, &[0x30, 0xFF, 0xFF, 0xFF, 0x7F, 0x00]), Err(DecodeError::Incomplete));

    // body must be consumed exactly: trailing bytes inside the remaining length
    assert_malformed("connack5 trailing", V5, S2C, &[0x20, 0x04, 0x00, 0x00, 0x00, 0x00], "trailing byte");
    assert_malformed(
        "connect5 trailing",
        V5,
        C2S,
        &connect5(0x02, &[], &cat(&[&st("c"), &[0x00]])),
        "trailing byte",
    );
    assert_malformed("connect4 trailing", V311, C2S, &connect4(0x02, &cat(&[&st("c"), &[0x00, 0x00]])), "trailing byte");
    assert_malformed("puback5 trailing", V5, S2C, &[0x40, 0x05, 0x00, 0x01, 0x00, 0x00, 0x00], "trailing byte");
    assert_malformed("disconnect5 trailing", V5, C2S, &[0xE0, 0x03, 0x00, 0x00, 0x00], "trailing byte");
    assert_malformed("auth5 trailing", V5, C2S, &[0xF0, 0x03, 0x18, 0x00, 0x00], "trailing byte");
    assert_malformed("unsuback5 trailing is a bad reason code", V5, S2C, &[0xB0, 0x05, 0x00, 0x01, 0x00, 0x00, 0x01], "not in the UNSUBACK reason code table");
    // ... and no reads past it (the bytes behind the packet would complete the field)
    assert_malformed(
        "connect5 client id past end",
        V5,
        C2S,
        &cat(&[&[0x10, 0x0D], MQTT5_HDR, &[0x02, 0x00, 0x3C, 0x00, 0x00, 0x01], b"c"]),
        "runs past the end",
    );
    assert_malformed("puback pid past end", V5, S2C, &[0x40, 0x01, 0x00, 0x01], "at least 2");
    assert_malformed("publish pid past end", V311, S2C, &[0x32, 0x04, 0x00, 0x01, b't', 0x00, 0x07], "runs past the end");
    assert_malformed("publish topic past end", V311, S2C, &[0x30, 0x03, 0x00, 0x05, b't', b'o', b'p', b'i', b'c'], "runs past the end");
    assert_malformed("publish empty body", V311, S2C, &[0x30, 0x00], "runs past the end");
    assert_malformed("publish 1 byte body", V5, S2C, &[0x30, 0x01, 0x00], "runs past the end");
    assert_malformed("subscribe options past end", V311, C2S, &[0x82, 0x05, 0x00, 0x01, 0x00, 0x01, b'a', 0x00], "runs past the end");
    assert_malformed("connect empty body", V5, C2S, &[0x10, 0x00], "runs past the end");
}

#[test]
fn ping_remaining_length() {
    for v in [V5, V311] {
        assert_malformed("pingreq rl 1", v, C2S, &[0xC0, 0x01, 0x00], "PINGREQ remaining length is 1, must be 0");
        assert_malformed("pingresp rl 2", v, S2C, &[0xD0, 0x02, 0x00, 0x00], "PINGRESP remaining length is 2, must be 0");
        // known as soon as the fixed header is complete
        assert_malformed("pingreq rl 1 header only", v, C2S, &[0xC0, 0x01], "must be 0");
    }
}

// -------------------------------------------------------------------------------------------------
// strings

#[test]
fn utf8_strings() {
    let bad_utf8: &[&[u8]] = &[
        &[0xC3, 0x28],             // invalid continuation
        &[0xFF],                   // never valid
        &[0xC0, 0x80],             // overlong NUL
        &[0xE0, 0x80, 0xAF],       // overlong
        &[0xED, 0xA0, 0x80],       // U+D800 high surrogate
        &[0xED, 0xBF, 0xBF],       // U+DFFF low surrogate
        &[0xF4, 0x90, 0x80, 0x80], // > U+10FFFF
        &[0xE2, 0x82],             // truncated sequence
        &[b'a', 0x80],             // stray continuation
    ];
    for raw in bad_utf8 {
        for v in [V5, V311] {
            let tail: &[u8] = if v == V5 { &[0x00] } else { &[] };
            let name = format!("{v:?} topic {}", hex(raw));
            assert_malformed(&name, v, S2C, &pk(0x30, &cat(&[&bin(raw), tail])), "ill-formed UTF-8");
            // client id
            let name = format!("{v:?} client id {}", hex(raw));
            let bytes = if v == V5 { connect5(0x02, &[], &bin(raw)) } else { connect4(0x02, &bin(raw)) };
            assert_malformed(&name, v, C2S, &bytes, "ill-formed UTF-8");
        }
        assert_malformed("filter", V311, C2S, &pk(0x82, &cat(&[&[0x00, 0x01], &bin(raw), &[0x00]])), "ill-formed UTF-8");
        assert_malformed("unsubscribe filter", V5, C2S, &pk(0xA2, &cat(&[&[0x00, 0x01, 0x00], &bin(raw)])), "ill-formed UTF-8");
    }
    // U+0000
    for v in [V5, V311] {
        let tail: &[u8] = if v == V5 { &[0x00] } else { &[] };
        assert_malformed("topic nul", v, S2C, &pk(0x30, &cat(&[&st("a\0b"), tail])), "U+0000");
        let bytes = if v == V5 { connect5(0x02, &[], &st("\0")) } else { connect4(0x02, &st("\0")) };
        assert_malformed("client id nul", v, C2S, &bytes, "U+0000");
        let payload = cat(&[&st("c"), &st("us\0er")]);
        let bytes = if v == V5 { connect5(0x82, &[], &payload) } else { connect4(0x82, &payload) };
        assert_malformed("user name nul", v, C2S, &bytes, "U+0000");
    }
    // binary data is NOT subject to these rules
    let payload = cat(&[&st("c"), &st("u"), &bin(&[0x00, 0xFF, 0xC0])]);
    assert_ok("password bytes", V5, C2S, &connect5(0xC2, &[], &payload));
    assert_ok("password bytes", V311, C2S, &connect4(0xC2, &payload));
    // valid multi-byte text is fine, including U+FEFF and the largest code point
    let text = "\u{FEFF}\u{00e9}\u{4e16}\u{10FFFF}";
    assert_ok("utf8 ok", V311, S2C, &pk(0x30, &st(text)));
}

// -------------------------------------------------------------------------------------------------
// CONNECT

#[test]
fn connect_protocol_name_and_level() {
    for name in ["MQIsdp", "mqtt", "MQT", "MQTTT", "", "MQTT "] {
        let body = cat(&[&st(name), &[0x05, 0x02, 0x00, 0x3C, 0x00], &st("c")]);
        assert_malformed("v5 protocol name", V5, C2S, &pk(0x10, &body), "protocol name");
        let body = cat(&[&st(name), &[0x04, 0x02, 0x00, 0x3C], &st("c")]);
        assert_malformed("v311 protocol name", V311, C2S, &pk(0x10, &body), "protocol name");
    }
    for level in [0u8, 3, 4, 6, 0x84, 0xFF] {
        let body = cat(&[&st("MQTT"), &[level, 0x02, 0x00, 0x3C, 0x00], &st("c")]);
        assert_malformed("v5 protocol level", V5, C2S, &pk(0x10, &body), "protocol level");
    }
    for level in [0u8, 3, 5, 6, 0x84, 0xFF] {
        let body = cat(&[&st("MQTT"), &[level, 0x02, 0x00, 0x3C], &st("c")]);
        assert_malformed("v311 protocol level", V311, C2S, &pk(0x10, &body), "protocol level");
    }
}

#[test]
fn connect_flags() {
    let p = st("c");
    for v in [V5, V311] {
        let mk = |flags: u8, payload: &[u8]| if v == V5 { connect5(flags, &[], payload) } else { connect4(flags, payload) };
        assert_malformed("reserved bit", v, C2S, &mk(0x03, &p), "MQTT-3.1.2-3");
        assert_malformed("reserved bit only", v, C2S, &mk(0x01, &p), "MQTT-3.1.2-3");
        // will qos / will retain without will flag
        assert_malformed("will qos 1 no will", v, C2S, &mk(0x0A, &p), "Will QoS is 1 while the Will Flag is 0");
        assert_malformed("will qos 2 no will", v, C2S, &mk(0x12, &p), "Will QoS is 2 while the Will Flag is 0");
        assert_malformed("will retain no will", v, C2S, &mk(0x22, &p), "Will Retain is 1 while the Will Flag is 0");
        // will qos 3
        let will_payload = if v == V5 {
            cat(&[&st("c"), &[0x00], &st("w"), &bin(b"x")])
        } else {
            cat(&[&st("c"), &st("w"), &bin(b"x")])
        };
        assert_malformed("will qos 3", v, C2S, &mk(0x1E, &will_payload), "Will QoS is 3");
        assert_malformed("will qos 3 no will", v, C2S, &mk(0x1A, &p), "Will QoS is 3");
        assert_ok("will qos 2 retain", v, C2S, &mk(0x36, &will_payload));
    }
    // password without user name: malformed in 3.1.1 only
    let payload = cat(&[&st("c"), &bin(b"pw")]);
    assert_malformed("v311 password without user name", V311, C2S, &connect4(0x42, &payload), "MQTT-3.1.2-22");
    let p = assert_ok("v5 password without user name", V5, C2S, &connect5(0x42, &[], &payload));
    match p {
        Packet::Connect(c) => {
            assert_eq!(c.username, None);
            assert_eq!(c.password, Some(b"pw".to_vec()));
        }
        other => panic!("{other:?}"),
    }
}

#[test]
fn connect_payload() {
    // authentication data without authentication method
    assert_malformed(
        "auth data without method",
        V5,
        C2S,
        &connect5_props(&[0x16, 0x00, 0x01, 0xAA]),
        "Authentication Data without an Authentication Method",
    );
    assert_ok("auth method without data", V5, C2S, &connect5_props(&cat(&[&[0x15], &st("m")])));
    // 3.1.1 empty client id needs clean session
    assert_malformed("v311 empty client id, clean 0", V311, C2S, &connect4(0x00, &st("")), "MQTT-3.1.3-7");
    assert_ok("v311 empty client id, clean 1", V311, C2S, &connect4(0x02, &st("")));
    assert_ok("v5 empty client id, clean 0", V5, C2S, &connect5(0x00, &[], &st("")));
    // will topic is a topic name
    for v in [V5, V311] {
        for (topic, needle) in [("a/+", "wildcard"), ("#", "wildcard"), ("", "topic name is empty")] {
            let payload = if v == V5 {
                cat(&[&st("c"), &[0x00], &st(topic), &bin(b"x")])
            } else {
                cat(&[&st("c"), &st(topic), &bin(b"x")])
            };
            let bytes = if v == V5 { connect5(0x06, &[], &payload) } else { connect4(0x06, &payload) };
            assert_malformed("will topic", v, C2S, &bytes, needle);
        }
    }
    // flags promise fields that are not there
    assert_malformed("will flag, nothing after client id", V311, C2S, &connect4(0x06, &st("c")), "runs past the end");
    assert_malformed("v5 will flag, nothing after client id", V5, C2S, &connect5(0x06, &[], &st("c")), "cut off");
    assert_malformed("user name flag, no user name", V311, C2S, &connect4(0x82, &st("c")), "runs past the end");
    assert_malformed(
        "password flag, no password",
        V5,
        C2S,
        &connect5(0xC2, &[], &cat(&[&st("c"), &st("u")])),
        "runs past the end",
    );
    assert_malformed(
        "will payload missing",
        V311,
        C2S,
        &connect4(0x06, &cat(&[&st("c"), &st("w")])),
        "runs past the end",
    );
    // fields present that the flags do not announce
    assert_malformed(
        "user name without flag",
        V311,
        C2S,
        &connect4(0x02, &cat(&[&st("c"), &st("u")])),
        "trailing byte",
    );
    // the field order is client id, will properties, will topic, will payload, user name, password
    let payload = cat(&[&st("id"), &[0x00], &st("wt"), &bin(b"wp"), &st("un"), &bin(b"pw")]);
    match assert_ok("order", V5, C2S, &connect5(0xC6, &[], &payload)) {
        Packet::Connect(c) => {
            assert_eq!(c.client_id, "id");
            let w = c.will.unwrap();
            assert_eq!((w.topic.as_str(), &w.payload[..]), ("wt", &b"wp"[..]));
            assert_eq!(c.username.as_deref(), Some("un"));
            assert_eq!(c.password.as_deref(), Some(&b"pw"[..]));
        }
        other => panic!("{other:?}"),
    }
}

// -------------------------------------------------------------------------------------------------
// CONNACK

#[test]
fn connack_rules() {
    for flags in [0x02u8, 0x03, 0x80, 0xFE, 0xFF] {
        assert_malformed("v5 connack flags", V5, S2C, &[0x20, 0x03, flags, 0x00, 0x00], "MQTT-3.2.2-1");
        assert_malformed("v311 connack flags", V311, S2C, &[0x20, 0x02, flags, 0x00], "MQTT-3.2.2-1");
    }
    // reason code must be in the CONNACK table
    let legal = legal_reason_codes(2, S2C);
    for rc in 0u8..=255 {
        let bytes = [0x20, 0x03, 0x00, rc, 0x00];
        if legal.contains(&rc) {
            assert_ok("v5 connack reason", V5, S2C, &bytes);
        } else {
            assert_malformed("v5 connack reason", V5, S2C, &bytes, "not in the CONNACK reason code table");
        }
        let bytes = [0x20, 0x02, 0x00, rc];
        if rc <= 5 {
            assert_ok("v311 connack return code", V311, S2C, &bytes);
        } else {
            assert_malformed("v311 connack return code", V311, S2C, &bytes, "only 0..=5 are defined");
        }
    }
    // session present with an error code
    for rc in legal.iter().filter(|rc| **rc != 0) {
        assert_malformed("v5 session present + error", V5, S2C, &[0x20, 0x03, 0x01, *rc, 0x00], "Session Present must be 0");
    }
    for rc in 1u8..=5 {
        assert_malformed("v311 session present + error", V311, S2C, &[0x20, 0x02, 0x01, rc], "Session Present must be 0");
    }
    // remaining length
    assert_malformed("v311 connack rl 3", V311, S2C, &[0x20, 0x03, 0x00, 0x00, 0x00], "must be exactly 2");
    assert_malformed("v311 connack rl 1", V311, S2C, &[0x20, 0x01, 0x00], "must be exactly 2");
    assert_malformed("v311 connack rl 0", V311, S2C, &[0x20, 0x00], "must be exactly 2");
    assert_malformed("v5 connack rl 2", V5, S2C, &[0x20, 0x02, 0x00, 0x00], "must be at least 3");
    assert_malformed("v5 connack rl 0", V5, S2C, &[0x20, 0x00], "must be at least 3");
}

// -------------------------------------------------------------------------------------------------
// PUBLISH

#[test]
fn publish_rules() {
    for v in [V5, V311] {
        let tail: &[u8] = if v == V5 { &[0x00] } else { &[] };
        for d in [C2S, S2C] {
            for topic in ["a/+", "+", "#", "a/#", "a+b", "a#"] {
                assert_malformed("wildcard topic", v, d, &pk(0x30, &cat(&[&st(topic), tail])), "MQTT-3.3.2-2");
            }
            // packet identifier 0
            assert_malformed("qos1 pid 0", v, d, &pk(0x32, &cat(&[&st("t"), &[0x00, 0x00], tail])), "packet identifier is 0");
            assert_malformed("qos2 pid 0", v, d, &pk(0x34, &cat(&[&st("t"), &[0x00, 0x00], tail])), "packet identifier is 0");
            // packet identifier missing
            assert_malformed("qos1 no pid", v, d, &pk(0x32, &st("t")), "PUBLISH packet identifier");
            // qos 0 has no packet identifier: the two bytes are payload (3.1.1) ...
            if v == V311 {
                match assert_ok("qos0", v, d, &pk(0x30, &cat(&[&st("t"), &[0x00, 0x07]]))) {
                    Packet::Publish(p) => {
                        assert_eq!(p.pid, None);
                        assert_eq!(p.payload, vec![0x00, 0x07]);
                    }
                    other => panic!("{other:?}"),
                }
            }
        }
    }
    // empty topic
    assert_malformed("v311 empty topic", V311, C2S, &pk(0x30, &st("")), "topic name is empty");
    assert_malformed("v5 empty topic without alias", V5, C2S, &pk(0x30, &cat(&[&st(""), &[0x00]])), "no Topic Alias");
    assert_malformed(
        "v5 empty topic without alias, other props",
        V5,
        S2C,
        &pk(0x30, &cat(&[&st(""), &props(&[0x01, 0x01])])),
        "no Topic Alias",
    );
    assert_ok("v5 empty topic with alias", V5, C2S, &pk(0x30, &cat(&[&st(""), &props(&[0x23, 0x00, 0x01])])));
    // subscription identifier from a client
    assert_malformed("c2s subscription identifier", V5, C2S, &publish5(&[0x0B, 0x01]), "MQTT-3.3.4-6");
    assert_ok("s2c subscription identifier", V5, S2C, &publish5(&[0x0B, 0x01]));
    // payload format indicator
    assert_malformed("payload format 2", V5, C2S, &publish5(&[0x01, 0x02]), "only 0 or 1");
    assert_ok("payload format 1", V5, C2S, &publish5(&[0x01, 0x01]));
    // response topic is a topic name
    assert_malformed("response topic wildcard", V5, C2S, &publish5(&cat(&[&[0x08], &st("a/#")])), "MQTT-3.3.2-14");
}

// -------------------------------------------------------------------------------------------------
// PUBACK / PUBREC / PUBREL / PUBCOMP

#[test]
fn ack_rules() {
    for (first, code, name) in [(0x40u8, 4u8, "PUBACK"), (0x50, 5, "PUBREC"), (0x62, 6, "PUBREL"), (0x70, 7, "PUBCOMP")] {
        for d in [C2S, S2C] {
            // pid 0 in every shape
            assert_malformed(name, V5, d, &[first, 0x02, 0x00, 0x00], "packet identifier is 0");
            assert_malformed(name, V5, d, &[first, 0x03, 0x00, 0x00, 0x00], "packet identifier is 0");
            assert_malformed(name, V5, d, &[first, 0x04, 0x00, 0x00, 0x00, 0x00], "packet identifier is 0");
            assert_malformed(name, V311, d, &[first, 0x02, 0x00, 0x00], "packet identifier is 0");
            // the three V5 shapes
            let a = Ack { pid: 0x0102, ..Ack::default() };
            let wrap = |a: Ack| match code {
                4 => Packet::Puback(a),
                5 => Packet::Pubrec(a),
                6 => Packet::Pubrel(a),
                _ => Packet::Pubcomp(a),
            };
            assert_eq!(assert_ok(name, V5, d, &[first, 0x02, 0x01, 0x02]), wrap(a.clone()));
            assert_eq!(assert_ok(name, V5, d, &[first, 0x03, 0x01, 0x02, 0x00]), wrap(a.clone()));
            assert_eq!(assert_ok(name, V5, d, &[first, 0x04, 0x01, 0x02, 0x00, 0x00]), wrap(a.clone()));
            // reason codes
            let legal = legal_reason_codes(code, d);
            for rc in 0u8..=255 {
                for bytes in [vec![first, 0x03, 0x00, 0x01, rc], vec![first, 0x04, 0x00, 0x01, rc, 0x00]] {
                    if legal.contains(&rc) {
                        assert_ok(name, V5, d, &bytes);
                    } else {
                        assert_malformed(name, V5, d, &bytes, "reason code table");
                    }
                }
            }
            // remaining length
            assert_malformed(name, V5, d, &[first, 0x00], "must be at least 2");
            assert_malformed(name, V5, d, &[first, 0x01, 0x00], "must be at least 2");
            for bytes in [
                vec![first, 0x00],
                vec![first, 0x01, 0x00],
                vec![first, 0x03, 0x00, 0x01, 0x00],
                vec![first, 0x04, 0x00, 0x01, 0x00, 0x00],
            ] {
                assert_malformed(name, V311, d, &bytes, "must be exactly 2");
            }
            // property length beyond the packet
            assert_malformed(name, V5, d, &[first, 0x04, 0x00, 0x01, 0x00, 0x01], "exceeds");
        }
    }
}

// -------------------------------------------------------------------------------------------------
// SUBSCRIBE / UNSUBSCRIBE and topic filter syntax

fn sub5(filter: &str, opts: u8) -> Vec<u8> {
    pk(0x82, &cat(&[&[0x00, 0x01, 0x00], &st(filter), &[opts]]))
}
fn sub4(filter: &str, opts: u8) -> Vec<u8> {
    pk(0x82, &cat(&[&[0x00, 0x01], &st(filter), &[opts]]))
}
fn unsub5(filter: &str) -> Vec<u8> {
    pk(0xA2, &cat(&[&[0x00, 0x01, 0x00], &st(filter)]))
}
fn unsub4(filter: &str) -> Vec<u8> {
    pk(0xA2, &cat(&[&[0x00, 0x01], &st(filter)]))
}

#[test]
fn subscribe_rules() {
    assert_malformed("v5 pid 0", V5, C2S, &pk(0x82, &cat(&[&[0x00, 0x00, 0x00], &st("a"), &[0x00]])), "packet identifier is 0");
    assert_malformed("v311 pid 0", V311, C2S, &pk(0x82, &cat(&[&[0x00, 0x00], &st("a"), &[0x00]])), "packet identifier is 0");
    assert_malformed("v5 no entries", V5, C2S, &[0x82, 0x03, 0x00, 0x01, 0x00], "contains no topic filter");
    assert_malformed("v5 no entries, props", V5, C2S, &[0x82, 0x05, 0x00, 0x01, 0x02, 0x0B, 0x01], "contains no topic filter");
    assert_malformed("v311 no entries", V311, C2S, &[0x82, 0x02, 0x00, 0x01], "contains no topic filter");
    // options byte
    for opts in [0x40u8, 0x80, 0xC0, 0x41, 0xFF] {
        assert_malformed("v5 reserved option bits", V5, C2S, &sub5("a", opts), if opts & 3 == 3 { "QoS 3" } else { "reserved bits 7-6" });
    }
    for opts in [0x04u8, 0x08, 0x10, 0x20, 0x40, 0x80, 0xFC] {
        assert_malformed("v311 reserved option bits", V311, C2S, &sub4("a", opts), "reserved bits 7-2");
    }
    assert_malformed("v5 qos 3", V5, C2S, &sub5("a", 0x03), "QoS 3");
    assert_malformed("v311 qos 3", V311, C2S, &sub4("a", 0x03), "QoS 3");
    assert_malformed("v5 retain handling 3", V5, C2S, &sub5("a", 0x30), "Retain Handling 3");
    assert_malformed("v5 retain handling 3 + rest", V5, C2S, &sub5("a", 0x3E), "Retain Handling 3");
    for opts in [0x00u8, 0x01, 0x02, 0x04, 0x08, 0x10, 0x20, 0x2E] {
        assert_ok("v5 options", V5, C2S, &sub5("a", opts));
    }
    // the second entry is checked as thoroughly as the first
    let two = pk(0x82, &cat(&[&[0x00, 0x01, 0x00], &st("a"), &[0x00], &st("b"), &[0x03]]));
    assert_malformed("v5 second entry qos 3", V5, C2S, &two, "QoS 3");
    let two = pk(0x82, &cat(&[&[0x00, 0x01], &st("a"), &[0x00], &st("b")]));
    assert_malformed("v311 second entry without options", V311, C2S, &two, "runs past the end");
    // shared subscriptions (V5)
    assert_malformed("no local on shared", V5, C2S, &sub5("$share/g/a", 0x04), "MQTT-3.8.3-4");
    assert_ok("shared", V5, C2S, &sub5("$share/g/a", 0x00));
}

#[test]
fn topic_filter_syntax() {
    let bad = [
        ("", "topic filter is empty"),
        ("a/#/b", "must be the last character"),
        ("#/", "must be the last character"),
        ("#/a", "must be the last character"),
        ("a#", "must occupy an entire level"),
        ("a/b#", "must occupy an entire level"),
        ("#a", "must occupy an entire level"),
        ("##", "must occupy an entire level"),
        ("a/#b/c", "must occupy an entire level"),
        ("a+", "must occupy an entire level"),
        ("+a/b", "must occupy an entire level"),
        ("a/b+/c", "must occupy an entire level"),
        ("a/++/c", "must occupy an entire level"),
        ("a/+#", "must occupy an entire level"),
    ];
    for (f, needle) in bad {
        assert_malformed(f, V5, C2S, &sub5(f, 0), needle);
        assert_malformed(f, V311, C2S, &sub4(f, 0), needle);
        assert_malformed(f, V5, C2S, &unsub5(f), needle);
        assert_malformed(f, V311, C2S, &unsub4(f), needle);
        assert!(validate_topic_filter(V5, f).is_err());
    }
    let good = ["a", "/", "//", "a/", "/a", "#", "+", "+/+", "+/#", "a/+/b", "a/b/#", "/#", "$SYS/#", "a b/ c", "$share", "$sharex/+"];
    for f in good {
        assert_ok(f, V5, C2S, &sub5(f, 0));
        assert_ok(f, V311, C2S, &sub4(f, 0));
        assert_ok(f, V5, C2S, &unsub5(f));
        assert_ok(f, V311, C2S, &unsub4(f));
    }
    // shared subscription syntax applies to V5 only
    let bad_shared = [
        ("$share/", "ShareName must be at least one character"),
        ("$share//a", "ShareName must be at least one character"),
        ("$share/g", "must be followed by / and a topic filter"),
        ("$share/g/", "must be followed by / and a topic filter"),
        ("$share/+/a", "ShareName must not contain"),
        ("$share/#", "ShareName must not contain"),
    ];
    for (f, needle) in bad_shared {
        assert_malformed(f, V5, C2S, &sub5(f, 0), needle);
        assert_malformed(f, V5, C2S, &unsub5(f), needle);
        assert_ok(f, V311, C2S, &sub4(f, 0));
    }
    for f in ["$share/g/a", "$share/g/#", "$share/g/+/b", "$share/g//"] {
        assert_ok(f, V5, C2S, &sub5(f, 0));
    }
    // topic names
    assert!(validate_topic_name("a/b").is_ok());
    assert!(validate_topic_name("").is_err());
    assert!(validate_topic_name("a/+").is_err());
    assert!(validate_topic_name("#").is_err());
}

#[test]
fn unsubscribe_rules() {
    assert_malformed("v5 pid 0", V5, C2S, &pk(0xA2, &cat(&[&[0x00, 0x00, 0x00], &st("a")])), "packet identifier is 0");
    assert_malformed("v311 pid 0", V311, C2S, &pk(0xA2, &cat(&[&[0x00, 0x00], &st("a")])), "packet identifier is 0");
    assert_malformed("v5 no filters", V5, C2S, &[0xA2, 0x03, 0x00, 0x01, 0x00], "contains no topic filter");
    assert_malformed("v311 no filters", V311, C2S, &[0xA2, 0x02, 0x00, 0x01], "contains no topic filter");
    assert_malformed("v5 second filter bad", V5, C2S, &pk(0xA2, &cat(&[&[0x00, 0x01, 0x00], &st("a"), &st("b/#/c")])), "must be the last character");
    assert_malformed("v311 filter cut", V311, C2S, &[0xA2, 0x05, 0x00, 0x01, 0x00, 0x03, b'a'], "runs past the end");
}

// -------------------------------------------------------------------------------------------------
// SUBACK / UNSUBACK

#[test]
fn suback_unsuback_rules() {
    assert_malformed("v5 suback pid 0", V5, S2C, &[0x90, 0x04, 0x00, 0x00, 0x00, 0x00], "packet identifier is 0");
    assert_malformed("v311 suback pid 0", V311, S2C, &[0x90, 0x03, 0x00, 0x00, 0x00], "packet identifier is 0");
    assert_malformed("v5 unsuback pid 0", V5, S2C, &[0xB0, 0x04, 0x00, 0x00, 0x00, 0x00], "packet identifier is 0");
    assert_malformed("v311 unsuback pid 0", V311, S2C, &[0xB0, 0x02, 0x00, 0x00], "packet identifier is 0");
    assert_malformed("v5 suback empty", V5, S2C, &[0x90, 0x03, 0x00, 0x01, 0x00], "contains no reason code");
    assert_malformed("v311 suback empty", V311, S2C, &[0x90, 0x02, 0x00, 0x01], "contains no reason code");
    assert_malformed("v5 unsuback empty", V5, S2C, &[0xB0, 0x03, 0x00, 0x01, 0x00], "contains no reason code");
    assert_malformed("v311 unsuback rl 3", V311, S2C, &[0xB0, 0x03, 0x00, 0x01, 0x00], "must be exactly 2");
    assert_malformed("v311 unsuback rl 1", V311, S2C, &[0xB0, 0x01, 0x00], "must be exactly 2");
    let sub = legal_reason_codes(9, S2C);
    let unsub = legal_reason_codes(11, S2C);
    for rc in 0u8..=255 {
        // as only code and as second code
        for bytes in [vec![0x90, 0x04, 0x00, 0x01, 0x00, rc], vec![0x90, 0x05, 0x00, 0x01, 0x00, 0x00, rc]] {
            if sub.contains(&rc) {
                assert_ok("v5 suback", V5, S2C, &bytes);
            } else {
                assert_malformed("v5 suback", V5, S2C, &bytes, "not in the SUBACK reason code table");
            }
        }
        for bytes in [vec![0xB0, 0x04, 0x00, 0x01, 0x00, rc], vec![0xB0, 0x05, 0x00, 0x01, 0x00, 0x00, rc]] {
            if unsub.contains(&rc) {
                assert_ok("v5 unsuback", V5, S2C, &bytes);
            } else {
                assert_malformed("v5 unsuback", V5, S2C, &bytes, "not in the UNSUBACK reason code table");
            }
        }
        for bytes in [vec![0x90, 0x03, 0x00, 0x01, rc], vec![0x90, 0x04, 0x00, 0x01, 0x00, rc]] {
            if [0x00, 0x01, 0x02, 0x80].contains(&rc) {
                assert_ok("v311 suback", V311, S2C, &bytes);
            } else {
                assert_malformed("v311 suback", V311, S2C, &bytes, "MQTT-3.9.3-2");
            }
        }
    }
}

// -------------------------------------------------------------------------------------------------
// DISCONNECT / AUTH

#[test]
fn disconnect_rules() {
    for d in [C2S, S2C] {
        let legal = legal_reason_codes(14, d);
        let other = legal_reason_codes(14, if d == C2S { S2C } else { C2S });
        for rc in 0u8..=255 {
            for bytes in [vec![0xE0, 0x01, rc], vec![0xE0, 0x02, rc, 0x00]] {
                if legal.contains(&rc) {
                    assert_ok("disconnect reason", V5, d, &bytes);
                } else if other.contains(&rc) {
                    assert_malformed("disconnect reason wrong sender", V5, d, &bytes, "\"Sent by\" column");
                } else {
                    assert_malformed("disconnect reason unknown", V5, d, &bytes, "not in the DISCONNECT reason code table");
                }
            }
        }
    }
    // a few spelled out
    assert_malformed("client sends server shutting down", V5, C2S, &[0xE0, 0x01, 0x8B], "may not be sent client to server");
    assert_malformed("server sends disconnect with will", V5, S2C, &[0xE0, 0x01, 0x04], "may not be sent server to client");
    // sender specific properties
    let se = [0x11, 0x00, 0x00, 0x00, 0x05];
    assert_ok("client session expiry", V5, C2S, &disconnect5(&se));
    assert_malformed("server session expiry", V5, S2C, &disconnect5(&se), "MQTT-3.14.2-2");
    let sr = cat(&[&[0x1C], &st("host")]);
    assert_ok("server reference from server", V5, S2C, &pk(0xE0, &cat(&[&[0x9C], &props(&sr)])));
    assert_malformed("server reference from client", V5, C2S, &disconnect5(&sr), "Server Reference");
    // 3.1.1
    assert_malformed("v311 disconnect rl 1", V311, C2S, &[0xE0, 0x01, 0x00], "must be 0");
    assert_malformed("v311 disconnect rl 2", V311, C2S, &[0xE0, 0x02, 0x00, 0x00], "must be 0");
    assert_malformed("v311 disconnect from server", V311, S2C, &[0xE0, 0x00], "cannot flow from server to client");
}

#[test]
fn auth_rules() {
    assert_malformed("v311 auth", V311, C2S, &[0xF0, 0x00], "type 15 is reserved");
    for d in [C2S, S2C] {
        let legal = legal_reason_codes(15, d);
        for rc in 0u8..=255 {
            let bytes = [0xF0, 0x02, rc, 0x00];
            if legal.contains(&rc) {
                assert_ok("auth reason", V5, d, &bytes);
            } else if [0x00, 0x18, 0x19].contains(&rc) {
                assert_malformed("auth reason wrong sender", V5, d, &bytes, "\"Sent by\" column");
            } else {
                assert_malformed("auth reason unknown", V5, d, &bytes, "not in the AUTH reason code table");
            }
        }
        assert_malformed("auth rl 1", V5, d, &[0xF0, 0x01, 0x18], "AUTH remaining length is 1");
    }
    // remaining length 0 means Success, which only a server may send
    assert_ok("auth rl 0 from server", V5, S2C, &[0xF0, 0x00]);
    assert_malformed("auth rl 0 from client", V5, C2S, &[0xF0, 0x00], "\"Sent by\" column");
    assert_malformed("re-authenticate from server", V5, S2C, &[0xF0, 0x02, 0x19, 0x00], "may not be sent server to client");
}
