//! Round trips of fully populated packets under all encoder options, plus the prefix property.

mod common;
use common::*;
use refmqtt::*;

const SEEDS: [u64; 8] = [0, 1, 2, 3, 7, 0xDEAD_BEEF, 0x0123_4567_89AB_CDEF, u64::MAX];

fn all_opts() -> Vec<EncodeOpts> {
    let mut v = Vec::new();
    for seed in SEEDS {
        for explicit_reason in [false, true] {
            for explicit_prop_len in [false, true] {
                v.push(EncodeOpts { prop_order_seed: seed, explicit_reason, explicit_prop_len });
            }
        }
    }
    v
}

#[test]
fn round_trip_every_packet_type() {
    for version in [V5, V311] {
        let mut types_seen = std::collections::BTreeSet::new();
        for (dir, packet) in samples(version) {
            types_seen.insert(packet.type_code());
            let want = packet.normalized(version);
            for opts in all_opts() {
                let name = format!("{version:?} {dir:?} {} {opts:?}", packet.type_name());
                let bytes = encode(version, &packet, &opts);
                match decode(version, dir, &bytes) {
                    Ok((got, n)) => {
                        assert_eq!(n, bytes.len(), "{name}: consumed");
                        assert_eq!(got, want, "{name}: model after round trip [{}]", hex(&bytes));
                        // re-encoding the decoded model canonically and decoding again is stable
                        let again = encode(version, &got, &EncodeOpts::default());
                        assert_eq!(decode(version, dir, &again), Ok((want.clone(), again.len())), "{name}: second trip");
                    }
                    Err(e) => panic!("{name}: decode failed with {e:?} on [{}]", hex(&bytes)),
                }
                // fixed header is consistent with peek_fixed_header
                let (first, rl, hl) = peek_fixed_header(&bytes).unwrap().unwrap();
                assert_eq!(first, bytes[0]);
                assert_eq!(hl + rl as usize, bytes.len(), "{name}: remaining length");
                assert_eq!(hl, 1 + vli_len(rl));
            }
        }
        let expected = if version == V5 { 15 } else { 14 };
        assert_eq!(types_seen.len(), expected, "{version:?}: every packet type must be covered");
    }
}

#[test]
fn v5_model_is_preserved_exactly() {
    // In V5 nothing at all may be lost (other than the pid of a QoS 0 PUBLISH).
    for (dir, packet) in samples(V5) {
        let bytes = encode(V5, &packet, &EncodeOpts::default());
        let (got, _) = decode(V5, dir, &bytes).unwrap();
        assert_eq!(got, packet, "{}", packet.type_name());
    }
    let p = Packet::Publish(Publish { qos: 0, pid: Some(9), topic: "t".into(), ..Publish::default() });
    let bytes = encode(V5, &p, &EncodeOpts::default());
    let (got, _) = decode(V5, C2S, &bytes).unwrap();
    assert_eq!(got, Packet::Publish(Publish { qos: 0, pid: None, topic: "t".into(), ..Publish::default() }));
    assert_eq!(got, p.normalized(V5));
}

#[test]
fn prefixes_of_valid_packets_are_incomplete() {
    for version in [V5, V311] {
        for (dir, packet) in samples(version) {
            for opts in [
                EncodeOpts::default(),
                EncodeOpts { prop_order_seed: 5, explicit_reason: true, explicit_prop_len: false },
                EncodeOpts { prop_order_seed: 11, explicit_reason: true, explicit_prop_len: true },
            ] {
                let bytes = encode(version, &packet, &opts);
                let name = format!("{version:?} {dir:?} {}", packet.type_name());
                assert_prefixes_incomplete(&name, version, dir, &bytes);
            }
        }
    }
}

#[test]
fn property_order_seed_permutes_but_keeps_repeated_order() {
    let p = Packet::Publish(full_publish(S2C));
    let canonical = encode(V5, &p, &EncodeOpts::default());
    let mut distinct = std::collections::BTreeSet::new();
    distinct.insert(canonical.clone());
    for seed in 1..40u64 {
        let opts = EncodeOpts { prop_order_seed: seed, ..EncodeOpts::default() };
        let bytes = encode(V5, &p, &opts);
        assert_eq!(bytes.len(), canonical.len(), "a permutation never changes the size");
        assert_eq!(bytes, encode(V5, &p, &opts), "deterministic for a given seed");
        let mut a = bytes.clone();
        let mut b = canonical.clone();
        a.sort_unstable();
        b.sort_unstable();
        assert_eq!(a, b, "same multiset of bytes");
        let (got, _) = decode(V5, S2C, &bytes).unwrap();
        // equality includes the order of user properties and of subscription identifiers
        assert_eq!(got, p, "seed {seed}");
        distinct.insert(bytes);
    }
    assert!(distinct.len() > 20, "seeds must produce many different layouts, got {}", distinct.len());

    // the will properties and the connect properties are both permuted
    let c = Packet::Connect(full_connect());
    let canonical = encode(V5, &c, &EncodeOpts::default());
    let mut distinct = std::collections::BTreeSet::new();
    for seed in 1..20u64 {
        let bytes = encode(V5, &c, &EncodeOpts { prop_order_seed: seed, ..EncodeOpts::default() });
        assert_eq!(decode(V5, C2S, &bytes).unwrap().0, c);
        if bytes != canonical {
            distinct.insert(bytes);
        }
    }
    assert!(distinct.len() > 10);
}

#[test]
fn canonical_order_is_ascending_with_user_properties_last() {
    let bytes = encode(V5, &Packet::Connack(full_connack()), &EncodeOpts::default());
    // walk the property section by hand
    let (_, _, hl) = peek_fixed_header(&bytes).unwrap().unwrap();
    let mut pos = hl + 2;
    let (plen, n) = decode_vli(&bytes[pos..]).unwrap().unwrap();
    pos += n;
    let end = pos + plen as usize;
    assert_eq!(end, bytes.len());
    let mut ids = Vec::new();
    while pos < end {
        let id = bytes[pos];
        ids.push(id);
        pos += 1;
        pos += match id {
            0x24 | 0x25 | 0x28 | 0x29 | 0x2A => 1,
            0x13 | 0x21 | 0x22 => 2,
            0x11 | 0x27 => 4,
            0x12 | 0x15 | 0x16 | 0x1A | 0x1C | 0x1F => 2 + ((bytes[pos] as usize) << 8 | bytes[pos + 1] as usize),
            0x26 => {
                let kl = (bytes[pos] as usize) << 8 | bytes[pos + 1] as usize;
                let vl = (bytes[pos + 2 + kl] as usize) << 8 | bytes[pos + 3 + kl] as usize;
                4 + kl + vl
            }
            other => panic!("unexpected property {other:#x}"),
        };
    }
    assert_eq!(pos, end);
    let n_user = ups().len();
    let (front, back) = ids.split_at(ids.len() - n_user);
    assert!(back.iter().all(|id| *id == 0x26), "user properties come last: {ids:x?}");
    assert!(front.windows(2).all(|w| w[0] < w[1]), "strictly ascending identifiers: {ids:x?}");
    assert_eq!(
        front,
        &[0x11, 0x12, 0x13, 0x15, 0x16, 0x1A, 0x1C, 0x1F, 0x21, 0x22, 0x24, 0x25, 0x27, 0x28, 0x29, 0x2A]
    );
}

#[test]
fn explicit_forms() {
    // (packet, dir, [len default, len explicit_reason, len explicit_prop_len])
    let cases: Vec<(Packet, Direction, [usize; 3])> = vec![
        (Packet::Puback(Ack { pid: 1, ..Ack::default() }), S2C, [4, 5, 6]),
        (Packet::Pubrec(Ack { pid: 1, ..Ack::default() }), S2C, [4, 5, 6]),
        (Packet::Pubrel(Ack { pid: 1, ..Ack::default() }), S2C, [4, 5, 6]),
        (Packet::Pubcomp(Ack { pid: 1, ..Ack::default() }), S2C, [4, 5, 6]),
        (Packet::Puback(Ack { pid: 1, reason: 0x80, ..Ack::default() }), S2C, [5, 5, 6]),
        (Packet::Disconnect(Disconnect::default()), C2S, [2, 3, 4]),
        (Packet::Disconnect(Disconnect { reason: 0x80, ..Disconnect::default() }), C2S, [3, 3, 4]),
        (Packet::Auth(Auth::default()), S2C, [2, 4, 4]),
        (Packet::Auth(Auth { reason: 0x18, ..Auth::default() }), S2C, [4, 4, 4]),
    ];
    for (p, dir, lens) in cases {
        let o = [
            EncodeOpts::default(),
            EncodeOpts { explicit_reason: true, ..EncodeOpts::default() },
            EncodeOpts { explicit_prop_len: true, ..EncodeOpts::default() },
        ];
        for (opts, want_len) in o.iter().zip(lens) {
            let bytes = encode(V5, &p, opts);
            assert_eq!(bytes.len(), want_len, "{} {opts:?} [{}]", p.type_name(), hex(&bytes));
            assert_eq!(decode(V5, dir, &bytes), Ok((p.clone(), want_len)));
        }
    }
}

#[test]
fn v311_ignores_v5_only_fields() {
    let p = Packet::Connack(full_connack());
    assert_eq!(encode(V311, &p, &EncodeOpts::default()), vec![0x20, 0x02, 0x01, 0x00]);
    let p = Packet::Puback(Ack { pid: 3, reason: 0x10, reason_string: Some("x".into()), user_props: ups() });
    let all = EncodeOpts { prop_order_seed: 3, explicit_reason: true, explicit_prop_len: true };
    assert_eq!(encode(V311, &p, &all), vec![0x40, 0x02, 0x00, 0x03]);
    let p = Packet::Unsuback(Unsuback { pid: 3, reasons: vec![0, 0x11], ..Unsuback::default() });
    assert_eq!(encode(V311, &p, &all), vec![0xB0, 0x02, 0x00, 0x03]);
    let p = Packet::Disconnect(Disconnect { reason: 0x04, reason_string: Some("x".into()), ..Disconnect::default() });
    assert_eq!(encode(V311, &p, &all), vec![0xE0, 0x00]);
    let p = Packet::Subscribe(Subscribe {
        pid: 1,
        subscription_id: Some(5),
        user_props: ups(),
        entries: vec![SubEntry { filter: "a".into(), qos: 2, no_local: true, retain_as_published: true, retain_handling: 2 }],
    });
    assert_eq!(encode(V311, &p, &all), vec![0x82, 0x06, 0x00, 0x01, 0x00, 0x01, b'a', 0x02]);
}

#[test]
#[should_panic]
fn auth_in_v311_cannot_be_encoded() {
    encode(V311, &Packet::Auth(Auth::default()), &EncodeOpts::default());
}

#[test]
#[should_panic]
fn qos3_cannot_be_encoded() {
    let p = Packet::Publish(Publish { qos: 3, pid: Some(1), topic: "t".into(), ..Publish::default() });
    encode(V5, &p, &EncodeOpts::default());
}

#[test]
#[should_panic]
fn oversized_string_cannot_be_encoded() {
    let p = Packet::Publish(Publish { topic: "x".repeat(65_536), ..Publish::default() });
    encode(V5, &p, &EncodeOpts::default());
}

#[test]
fn maximum_size_string_round_trips() {
    let p = Packet::Publish(Publish { topic: "x".repeat(65_535), payload: vec![7; 70_000], ..Publish::default() });
    for v in [V5, V311] {
        let bytes = encode(v, &p, &EncodeOpts::default());
        assert_eq!(decode(v, C2S, &bytes), Ok((p.clone(), bytes.len())));
        // three byte remaining length
        assert_eq!(peek_fixed_header(&bytes).unwrap().unwrap().2, 4);
    }
}
