//! `refmqtt`: an independent, strict reference implementation of the MQTT 5.0 and
//! MQTT 3.1.1 wire formats, written from the OASIS specifications only.
//!
//! * [`model`]  - plain data model of every control packet
//! * [`wire`]   - low level primitives (variable byte integer, bounds-checked reader, topic syntax)
//! * [`dec`]    - strict decoder
//! * [`enc`]    - encoder with controllable layout freedom
#![forbid(unsafe_code)]

pub mod dec;
pub mod enc;
pub mod model;
pub mod wire;

pub use dec::*;
pub use enc::*;
pub use model::*;
pub use wire::*;
