//! Strict decoder for MQTT 5.0 and MQTT 3.1.1 control packets.
//!
//! Everything the specifications call a Malformed Packet, and every Protocol Error that can be detected
//! from the bytes of a single packet alone, is reported as `DecodeError::Malformed` with a message that
//! names the rule. `DecodeError::Incomplete` is only ever produced by the outer framing (fixed header or
//! announced remaining length not yet fully available).

use crate::model::*;
use crate::wire::*;

type R<T> = Result<T, DecodeError>;

fn bad<T>(msg: String) -> R<T> {
    Err(DecodeError::Malformed(msg))
}

fn dir_name(dir: Direction) -> &'static str {
    match dir {
        Direction::ClientToServer => "client to server",
        Direction::ServerToClient => "server to client",
    }
}

/// Decode exactly one control packet from the front of `bytes`. On success returns the packet and the
/// number of bytes consumed. `dir` restricts which packet types and which reason codes are legal.
pub fn decode(version: Version, dir: Direction, bytes: &[u8]) -> Result<(Packet, usize), DecodeError> {
    let first = match bytes.first() {
        Some(b) => *b,
        None => return Err(DecodeError::Incomplete),
    };
    let ptype = first >> 4;
    let flags = first & 0x0F;
    check_type(version, dir, ptype)?;
    check_flags(ptype, flags)?;

    let after_first = bytes.get(1..).unwrap_or(&[]);
    let (rl, vlen) = match decode_vli(after_first) {
        Ok(Some(x)) => x,
        Ok(None) => return Err(DecodeError::Incomplete),
        Err(DecodeError::Malformed(m)) => return bad(format!("remaining length: {m}")),
        Err(e) => return Err(e),
    };
    check_static_length(version, ptype, rl)?;

    let start = 1 + vlen;
    let total = match start.checked_add(rl as usize) {
        Some(t) => t,
        None => return bad("remaining length overflows the address space".to_string()),
    };
    let body = match bytes.get(start..total) {
        Some(b) => b,
        None => return Err(DecodeError::Incomplete),
    };

    let v5 = version == Version::V5;
    let mut r = Reader::new(body);
    let packet = match ptype {
        ptype::CONNECT => Packet::Connect(dec_connect(version, &mut r)?),
        ptype::CONNACK => Packet::Connack(dec_connack(v5, dir, &mut r)?),
        ptype::PUBLISH => Packet::Publish(dec_publish(v5, dir, flags, &mut r)?),
        ptype::PUBACK => Packet::Puback(dec_ack(v5, dir, ptype, &mut r)?),
        ptype::PUBREC => Packet::Pubrec(dec_ack(v5, dir, ptype, &mut r)?),
        ptype::PUBREL => Packet::Pubrel(dec_ack(v5, dir, ptype, &mut r)?),
        ptype::PUBCOMP => Packet::Pubcomp(dec_ack(v5, dir, ptype, &mut r)?),
        ptype::SUBSCRIBE => Packet::Subscribe(dec_subscribe(version, &mut r)?),
        ptype::SUBACK => Packet::Suback(dec_suback(v5, dir, &mut r)?),
        ptype::UNSUBSCRIBE => Packet::Unsubscribe(dec_unsubscribe(version, &mut r)?),
        ptype::UNSUBACK => Packet::Unsuback(dec_unsuback(v5, dir, &mut r)?),
        ptype::PINGREQ => Packet::Pingreq,
        ptype::PINGRESP => Packet::Pingresp,
        ptype::DISCONNECT => Packet::Disconnect(dec_disconnect(v5, dir, &mut r)?),
        ptype::AUTH => Packet::Auth(dec_auth(dir, &mut r)?),
        other => return bad(format!("control packet type {other} is reserved (section 2.1.2)")),
    };
    r.expect_end(type_name_of(ptype))?;
    Ok((packet, total))
}

// ---------------------------------------------------------------------------------------------------
// fixed header

fn check_type(version: Version, dir: Direction, ptype: u8) -> R<()> {
    if ptype == 0 {
        return bad("control packet type 0 is reserved and forbidden (section 2.1.2)".to_string());
    }
    if version == Version::V311 && ptype == ptype::AUTH {
        return bad(
            "control packet type 15 is reserved and forbidden in MQTT 3.1.1 (AUTH exists only in MQTT 5.0) (3.1.1 section 2.2.1)"
                .to_string(),
        );
    }
    let c2s = matches!(
        ptype,
        ptype::CONNECT
            | ptype::PUBLISH
            | ptype::PUBACK
            | ptype::PUBREC
            | ptype::PUBREL
            | ptype::PUBCOMP
            | ptype::SUBSCRIBE
            | ptype::UNSUBSCRIBE
            | ptype::PINGREQ
            | ptype::DISCONNECT
            | ptype::AUTH
    );
    let s2c = match ptype {
        ptype::CONNACK
        | ptype::PUBLISH
        | ptype::PUBACK
        | ptype::PUBREC
        | ptype::PUBREL
        | ptype::PUBCOMP
        | ptype::SUBACK
        | ptype::UNSUBACK
        | ptype::PINGRESP
        | ptype::AUTH => true,
        ptype::DISCONNECT => version == Version::V5,
        _ => false,
    };
    let ok = match dir {
        Direction::ClientToServer => c2s,
        Direction::ServerToClient => s2c,
    };
    if ok {
        Ok(())
    } else if ptype == ptype::DISCONNECT {
        bad("DISCONNECT cannot flow from server to client in MQTT 3.1.1 (3.1.1 section 3.14: sent by the client only)"
            .to_string())
    } else {
        bad(format!(
            "{} cannot flow in direction {} (section 2.1.2 table of control packet types, direction of flow)",
            type_name_of(ptype),
            dir_name(dir)
        ))
    }
}

fn check_flags(ptype: u8, flags: u8) -> R<()> {
    match ptype {
        ptype::PUBLISH => {
            let qos = (flags >> 1) & 0x03;
            let dup = flags & 0x08 != 0;
            if qos == 3 {
                return bad("PUBLISH fixed header has both QoS bits set (QoS 3) [MQTT-3.3.1-4]".to_string());
            }
            if qos == 0 && dup {
                return bad("PUBLISH fixed header has DUP=1 with QoS 0; DUP must be 0 for QoS 0 messages [MQTT-3.3.1-2]"
                    .to_string());
            }
            Ok(())
        }
        ptype::PUBREL | ptype::SUBSCRIBE | ptype::UNSUBSCRIBE => {
            if flags == 0b0010 {
                Ok(())
            } else {
                bad(format!(
                    "{} fixed header reserved flags are {flags:#06b}, must be 0b0010 [MQTT-2.1.3-1]",
                    type_name_of(ptype)
                ))
            }
        }
        _ => {
            if flags == 0 {
                Ok(())
            } else {
                bad(format!(
                    "{} fixed header reserved flags are {flags:#06b}, must be 0b0000 [MQTT-2.1.3-1]",
                    type_name_of(ptype)
                ))
            }
        }
    }
}

/// Remaining-length rules that follow from the packet type alone; checked as soon as the fixed header
/// is complete, before the body has arrived.
fn check_static_length(version: Version, ptype: u8, rl: u32) -> R<()> {
    let name = type_name_of(ptype);
    match (version, ptype) {
        (_, ptype::PINGREQ) | (_, ptype::PINGRESP) => {
            if rl != 0 {
                return bad(format!("{name} remaining length is {rl}, must be 0 (it has no variable header and no payload)"));
            }
        }
        (Version::V311, ptype::CONNACK) => {
            if rl != 2 {
                return bad(format!("MQTT 3.1.1 CONNACK remaining length is {rl}, must be exactly 2 (3.1.1 section 3.2.1)"));
            }
        }
        (Version::V311, ptype::PUBACK)
        | (Version::V311, ptype::PUBREC)
        | (Version::V311, ptype::PUBREL)
        | (Version::V311, ptype::PUBCOMP)
        | (Version::V311, ptype::UNSUBACK) => {
            if rl != 2 {
                return bad(format!(
                    "MQTT 3.1.1 {name} remaining length is {rl}, must be exactly 2 (packet identifier only)"
                ));
            }
        }
        (Version::V311, ptype::DISCONNECT) => {
            if rl != 0 {
                return bad(format!("MQTT 3.1.1 DISCONNECT remaining length is {rl}, must be 0 (3.1.1 section 3.14.1)"));
            }
        }
        (Version::V5, ptype::PUBACK)
        | (Version::V5, ptype::PUBREC)
        | (Version::V5, ptype::PUBREL)
        | (Version::V5, ptype::PUBCOMP) => {
            if rl < 2 {
                return bad(format!(
                    "{name} remaining length is {rl}, must be at least 2 (the packet identifier is mandatory)"
                ));
            }
        }
        (Version::V5, ptype::CONNACK) => {
            if rl < 3 {
                return bad(format!(
                    "MQTT 5.0 CONNACK remaining length is {rl}, must be at least 3 (acknowledge flags, reason code, property length)"
                ));
            }
        }
        (Version::V5, ptype::AUTH) => {
            if rl == 1 {
                return bad(
                    "AUTH remaining length is 1: the reason code and property length may only be omitted together (remaining length 0) (section 3.15.2.1)"
                        .to_string(),
                );
            }
        }
        _ => {}
    }
    Ok(())
}

// ---------------------------------------------------------------------------------------------------
// properties (MQTT 5.0 section 2.2.2)

#[derive(Clone, Copy, Debug, PartialEq, Eq)]
enum Ctx {
    Connect,
    Will,
    Connack,
    Publish,
    Puback,
    Pubrec,
    Pubrel,
    Pubcomp,
    Subscribe,
    Suback,
    Unsubscribe,
    Unsuback,
    Disconnect,
    Auth,
}

impl Ctx {
    fn name(self) -> &'static str {
        match self {
            Ctx::Connect => "CONNECT",
            Ctx::Will => "CONNECT Will Properties",
            Ctx::Connack => "CONNACK",
            Ctx::Publish => "PUBLISH",
            Ctx::Puback => "PUBACK",
            Ctx::Pubrec => "PUBREC",
            Ctx::Pubrel => "PUBREL",
            Ctx::Pubcomp => "PUBCOMP",
            Ctx::Subscribe => "SUBSCRIBE",
            Ctx::Suback => "SUBACK",
            Ctx::Unsubscribe => "UNSUBSCRIBE",
            Ctx::Unsuback => "UNSUBACK",
            Ctx::Disconnect => "DISCONNECT",
            Ctx::Auth => "AUTH",
        }
    }

    /// Table 2-4 of MQTT 5.0 section 2.2.2.2 ("Packet / Will Properties" column).
    fn allows(self, id: u32) -> bool {
        let ids: &[u32] = match self {
            Ctx::Connect => &[0x11, 0x15, 0x16, 0x17, 0x19, 0x21, 0x22, 0x26, 0x27],
            Ctx::Will => &[0x01, 0x02, 0x03, 0x08, 0x09, 0x18, 0x26],
            Ctx::Connack => &[
                0x11, 0x12, 0x13, 0x15, 0x16, 0x1A, 0x1C, 0x1F, 0x21, 0x22, 0x24, 0x25, 0x26, 0x27, 0x28, 0x29,
                0x2A,
            ],
            Ctx::Publish => &[0x01, 0x02, 0x03, 0x08, 0x09, 0x0B, 0x23, 0x26],
            Ctx::Puback | Ctx::Pubrec | Ctx::Pubrel | Ctx::Pubcomp | Ctx::Suback | Ctx::Unsuback => &[0x1F, 0x26],
            Ctx::Subscribe => &[0x0B, 0x26],
            Ctx::Unsubscribe => &[0x26],
            Ctx::Disconnect => &[0x11, 0x1C, 0x1F, 0x26],
            Ctx::Auth => &[0x15, 0x16, 0x1F, 0x26],
        };
        ids.contains(&id)
    }
}

fn prop_name(id: u32) -> Option<&'static str> {
    Some(match id {
        0x01 => "Payload Format Indicator",
        0x02 => "Message Expiry Interval",
        0x03 => "Content Type",
        0x08 => "Response Topic",
        0x09 => "Correlation Data",
        0x0B => "Subscription Identifier",
        0x11 => "Session Expiry Interval",
        0x12 => "Assigned Client Identifier",
        0x13 => "Server Keep Alive",
        0x15 => "Authentication Method",
        0x16 => "Authentication Data",
        0x17 => "Request Problem Information",
        0x18 => "Will Delay Interval",
        0x19 => "Request Response Information",
        0x1A => "Response Information",
        0x1C => "Server Reference",
        0x1F => "Reason String",
        0x21 => "Receive Maximum",
        0x22 => "Topic Alias Maximum",
        0x23 => "Topic Alias",
        0x24 => "Maximum QoS",
        0x25 => "Retain Available",
        0x26 => "User Property",
        0x27 => "Maximum Packet Size",
        0x28 => "Wildcard Subscription Available",
        0x29 => "Subscription Identifier Available",
        0x2A => "Shared Subscription Available",
        _ => return None,
    })
}

#[derive(Default)]
struct Props {
    payload_format: Option<u8>,
    message_expiry: Option<u32>,
    content_type: Option<String>,
    response_topic: Option<String>,
    correlation_data: Option<Vec<u8>>,
    subscription_ids: Vec<u32>,
    session_expiry: Option<u32>,
    assigned_client_id: Option<String>,
    server_keep_alive: Option<u16>,
    auth_method: Option<String>,
    auth_data: Option<Vec<u8>>,
    request_problem_information: Option<bool>,
    will_delay_interval: Option<u32>,
    request_response_information: Option<bool>,
    response_information: Option<String>,
    server_reference: Option<String>,
    reason_string: Option<String>,
    receive_maximum: Option<u16>,
    topic_alias_maximum: Option<u16>,
    topic_alias: Option<u16>,
    maximum_qos: Option<u8>,
    retain_available: Option<bool>,
    user_props: UserProps,
    maximum_packet_size: Option<u32>,
    wildcard_subscription_available: Option<bool>,
    subscription_identifiers_available: Option<bool>,
    shared_subscription_available: Option<bool>,
}

fn once<T>(slot: &mut Option<T>, v: T, name: &str, ctx: Ctx) -> R<()> {
    if slot.is_some() {
        return bad(format!(
            "property {name} appears more than once in {} (protocol error; only User Property may repeat, section 2.2.2.2)",
            ctx.name()
        ));
    }
    *slot = Some(v);
    Ok(())
}

fn bool_byte(r: &mut Reader, name: &str) -> R<bool> {
    match r.u8(name)? {
        0 => Ok(false),
        1 => Ok(true),
        v => bad(format!("property {name} has value {v}; only 0 or 1 are allowed (protocol error)")),
    }
}

/// Read "Property Length + Properties" in the context `ctx`.
fn read_props(r: &mut Reader, ctx: Ctx) -> R<Props> {
    let what = ctx.name();
    let len = r.vli(&format!("{what} property length"))? as usize;
    if len > r.remaining() {
        return bad(format!(
            "{what} property length {len} exceeds the {} byte(s) left in the packet (properties run past the end)",
            r.remaining()
        ));
    }
    let raw = r.take(len, "properties")?;
    let mut pr = Reader::new(raw);
    let mut p = Props::default();
    while !pr.is_empty() {
        let id = pr.vli("property identifier")?;
        let name = match prop_name(id) {
            Some(n) => n,
            None => {
                return bad(format!(
                    "unknown property identifier {id:#04x} in {what} (section 2.2.2.2)"
                ))
            }
        };
        if !ctx.allows(id) {
            return bad(format!(
                "property {name} ({id:#04x}) is not allowed in {what} (section 2.2.2.2 table 2-4)"
            ));
        }
        match id {
            0x01 => {
                let v = pr.u8(name)?;
                if v > 1 {
                    return bad(format!(
                        "property Payload Format Indicator has value {v}; only 0 or 1 are allowed (section 3.3.2.3.2)"
                    ));
                }
                once(&mut p.payload_format, v, name, ctx)?;
            }
            0x02 => {
                let v = pr.u32(name)?;
                once(&mut p.message_expiry, v, name, ctx)?;
            }
            0x03 => {
                let v = pr.string(name)?;
                once(&mut p.content_type, v, name, ctx)?;
            }
            0x08 => {
                let v = pr.string(name)?;
                once(&mut p.response_topic, v, name, ctx)?;
            }
            0x09 => {
                let v = pr.binary(name)?;
                once(&mut p.correlation_data, v, name, ctx)?;
            }
            0x0B => {
                let v = pr.vli(name)?;
                if v == 0 {
                    return bad(
                        "property Subscription Identifier has value 0; the range is 1..=268435455 (protocol error, section 3.8.2.1.2 / 3.3.2.3.8)"
                            .to_string(),
                    );
                }
                if ctx == Ctx::Subscribe && !p.subscription_ids.is_empty() {
                    return bad(
                        "property Subscription Identifier appears more than once in SUBSCRIBE (protocol error, section 3.8.2.1.2)"
                            .to_string(),
                    );
                }
                p.subscription_ids.push(v);
            }
            0x11 => {
                let v = pr.u32(name)?;
                once(&mut p.session_expiry, v, name, ctx)?;
            }
            0x12 => {
                let v = pr.string(name)?;
                once(&mut p.assigned_client_id, v, name, ctx)?;
            }
            0x13 => {
                let v = pr.u16(name)?;
                once(&mut p.server_keep_alive, v, name, ctx)?;
            }
            0x15 => {
                let v = pr.string(name)?;
                once(&mut p.auth_method, v, name, ctx)?;
            }
            0x16 => {
                let v = pr.binary(name)?;
                once(&mut p.auth_data, v, name, ctx)?;
            }
            0x17 => {
                let v = bool_byte(&mut pr, name)?;
                once(&mut p.request_problem_information, v, name, ctx)?;
            }
            0x18 => {
                let v = pr.u32(name)?;
                once(&mut p.will_delay_interval, v, name, ctx)?;
            }
            0x19 => {
                let v = bool_byte(&mut pr, name)?;
                once(&mut p.request_response_information, v, name, ctx)?;
            }
            0x1A => {
                let v = pr.string(name)?;
                once(&mut p.response_information, v, name, ctx)?;
            }
            0x1C => {
                let v = pr.string(name)?;
                once(&mut p.server_reference, v, name, ctx)?;
            }
            0x1F => {
                let v = pr.string(name)?;
                once(&mut p.reason_string, v, name, ctx)?;
            }
            0x21 => {
                let v = pr.u16(name)?;
                if v == 0 {
                    return bad("property Receive Maximum has value 0 (protocol error, section 3.1.2.11.3 / 3.2.2.3.3)"
                        .to_string());
                }
                once(&mut p.receive_maximum, v, name, ctx)?;
            }
            0x22 => {
                let v = pr.u16(name)?;
                once(&mut p.topic_alias_maximum, v, name, ctx)?;
            }
            0x23 => {
                let v = pr.u16(name)?;
                if v == 0 {
                    return bad("property Topic Alias has value 0, which is not permitted [MQTT-3.3.2-8]".to_string());
                }
                once(&mut p.topic_alias, v, name, ctx)?;
            }
            0x24 => {
                let v = pr.u8(name)?;
                if v > 1 {
                    return bad(format!(
                        "property Maximum QoS has value {v}; only 0 or 1 are allowed (protocol error, section 3.2.2.3.4)"
                    ));
                }
                once(&mut p.maximum_qos, v, name, ctx)?;
            }
            0x25 => {
                let v = bool_byte(&mut pr, name)?;
                once(&mut p.retain_available, v, name, ctx)?;
            }
            0x26 => {
                let k = pr.string("User Property name")?;
                let v = pr.string("User Property value")?;
                p.user_props.push((k, v));
            }
            0x27 => {
                let v = pr.u32(name)?;
                if v == 0 {
                    return bad(
                        "property Maximum Packet Size has value 0 (protocol error, section 3.1.2.11.4 / 3.2.2.3.6)"
                            .to_string(),
                    );
                }
                once(&mut p.maximum_packet_size, v, name, ctx)?;
            }
            0x28 => {
                let v = bool_byte(&mut pr, name)?;
                once(&mut p.wildcard_subscription_available, v, name, ctx)?;
            }
            0x29 => {
                let v = bool_byte(&mut pr, name)?;
                once(&mut p.subscription_identifiers_available, v, name, ctx)?;
            }
            0x2A => {
                let v = bool_byte(&mut pr, name)?;
                once(&mut p.shared_subscription_available, v, name, ctx)?;
            }
            _ => {
                return bad(format!("unknown property identifier {id:#04x} in {what} (section 2.2.2.2)"));
            }
        }
    }
    Ok(p)
}

// ---------------------------------------------------------------------------------------------------
// helpers

fn nonzero_pid(r: &mut Reader, name: &str) -> R<u16> {
    let pid = r.u16(&format!("{name} packet identifier"))?;
    if pid == 0 {
        return bad(format!("{name} packet identifier is 0; it must be non-zero [MQTT-2.2.1-3] (section 2.2.1)"));
    }
    Ok(pid)
}

fn check_reason(ptype: u8, dir: Direction, reason: u8) -> R<()> {
    if legal_reason_codes(ptype, dir).contains(&reason) {
        return Ok(());
    }
    let name = type_name_of(ptype);
    if ptype == ptype::DISCONNECT || ptype == ptype::AUTH {
        let other = match dir {
            Direction::ClientToServer => Direction::ServerToClient,
            Direction::ServerToClient => Direction::ClientToServer,
        };
        if legal_reason_codes(ptype, other).contains(&reason) {
            return bad(format!(
                "{name} reason code {reason:#04x} may not be sent {} (\"Sent by\" column of the {name} reason code table)",
                dir_name(dir)
            ));
        }
    }
    bad(format!("{name} reason code {reason:#04x} is not in the {name} reason code table"))
}

// ---------------------------------------------------------------------------------------------------
// CONNECT (section 3.1)

fn dec_connect(version: Version, r: &mut Reader) -> R<Connect> {
    let v5 = version == Version::V5;
    let name = r.string("CONNECT protocol name")?;
    if name != "MQTT" {
        return bad(format!("CONNECT protocol name is {name:?}, must be \"MQTT\" [MQTT-3.1.2-1]"));
    }
    let level = r.u8("CONNECT protocol level")?;
    let want = if v5 { 5 } else { 4 };
    if level != want {
        return bad(format!(
            "CONNECT protocol level (version byte) is {level}, expected {want} (section 3.1.2.2)"
        ));
    }
    let flags = r.u8("CONNECT connect flags")?;
    if flags & 0x01 != 0 {
        return bad("CONNECT connect flags reserved bit 0 is set; it must be 0 [MQTT-3.1.2-3]".to_string());
    }
    let clean_start = flags & 0x02 != 0;
    let will_flag = flags & 0x04 != 0;
    let will_qos = (flags >> 3) & 0x03;
    let will_retain = flags & 0x20 != 0;
    let password_flag = flags & 0x40 != 0;
    let username_flag = flags & 0x80 != 0;
    if will_qos == 3 {
        return bad("CONNECT Will QoS is 3, which is not a valid QoS (section 3.1.2.6)".to_string());
    }
    if !will_flag && will_qos != 0 {
        return bad(format!(
            "CONNECT Will QoS is {will_qos} while the Will Flag is 0; it must be 0 (section 3.1.2.6)"
        ));
    }
    if !will_flag && will_retain {
        return bad("CONNECT Will Retain is 1 while the Will Flag is 0; it must be 0 (section 3.1.2.7)".to_string());
    }
    if !v5 && password_flag && !username_flag {
        return bad("MQTT 3.1.1 CONNECT has the Password Flag set without the User Name Flag [MQTT-3.1.2-22]".to_string());
    }
    let keep_alive = r.u16("CONNECT keep alive")?;

    let mut c = Connect { clean_start, keep_alive, ..Connect::default() };
    if v5 {
        let p = read_props(r, Ctx::Connect)?;
        if p.auth_data.is_some() && p.auth_method.is_none() {
            return bad(
                "CONNECT contains Authentication Data without an Authentication Method (protocol error, section 3.1.2.11.10)"
                    .to_string(),
            );
        }
        c.session_expiry = p.session_expiry;
        c.receive_maximum = p.receive_maximum;
        c.maximum_packet_size = p.maximum_packet_size;
        c.topic_alias_maximum = p.topic_alias_maximum;
        c.request_response_information = p.request_response_information;
        c.request_problem_information = p.request_problem_information;
        c.user_props = p.user_props;
        c.auth_method = p.auth_method;
        c.auth_data = p.auth_data;
    }

    c.client_id = r.string("CONNECT client identifier")?;
    if !v5 && c.client_id.is_empty() && !clean_start {
        return bad(
            "MQTT 3.1.1 CONNECT has a zero-length client identifier with CleanSession 0; a zero-byte ClientId requires CleanSession 1 [MQTT-3.1.3-7]"
                .to_string(),
        );
    }

    if will_flag {
        let mut w = Will { qos: will_qos, retain: will_retain, ..Will::default() };
        if v5 {
            let p = read_props(r, Ctx::Will)?;
            w.will_delay_interval = p.will_delay_interval;
            w.payload_format = p.payload_format;
            w.message_expiry = p.message_expiry;
            w.content_type = p.content_type;
            w.response_topic = p.response_topic;
            w.correlation_data = p.correlation_data;
            w.user_props = p.user_props;
        }
        w.topic = r.string("CONNECT will topic")?;
        if let Err(m) = validate_topic_name(&w.topic) {
            return bad(format!("CONNECT will topic: {m}"));
        }
        w.payload = r.binary("CONNECT will payload")?;
        c.will = Some(w);
    }
    if username_flag {
        c.username = Some(r.string("CONNECT user name")?);
    }
    if password_flag {
        c.password = Some(r.binary("CONNECT password")?);
    }
    Ok(c)
}

// ---------------------------------------------------------------------------------------------------
// CONNACK (section 3.2)

fn dec_connack(v5: bool, dir: Direction, r: &mut Reader) -> R<Connack> {
    let flags = r.u8("CONNACK acknowledge flags")?;
    if flags & 0xFE != 0 {
        return bad(format!(
            "CONNACK acknowledge flags byte is {flags:#04x}; bits 7-1 are reserved and must be 0 [MQTT-3.2.2-1]"
        ));
    }
    let session_present = flags & 0x01 != 0;
    let reason = r.u8("CONNACK reason code")?;
    if v5 {
        check_reason(ptype::CONNACK, dir, reason)?;
    } else if reason > V311_CONNACK_MAX_RETURN_CODE {
        return bad(format!(
            "MQTT 3.1.1 CONNACK return code {reason} is reserved; only 0..=5 are defined (3.1.1 section 3.2.2.3)"
        ));
    }
    if reason != 0 && session_present {
        return bad(format!(
            "CONNACK has Session Present 1 together with the non-zero {} {reason:#04x}; Session Present must be 0 (5.0 [MQTT-3.2.2-6], 3.1.1 [MQTT-3.2.2-4])",
            if v5 { "reason code" } else { "return code" }
        ));
    }
    let mut c = Connack { session_present, reason, ..Connack::default() };
    if v5 {
        let p = read_props(r, Ctx::Connack)?;
        c.session_expiry = p.session_expiry;
        c.receive_maximum = p.receive_maximum;
        c.maximum_qos = p.maximum_qos;
        c.retain_available = p.retain_available;
        c.maximum_packet_size = p.maximum_packet_size;
        c.assigned_client_id = p.assigned_client_id;
        c.topic_alias_maximum = p.topic_alias_maximum;
        c.reason_string = p.reason_string;
        c.user_props = p.user_props;
        c.wildcard_subscription_available = p.wildcard_subscription_available;
        c.subscription_identifiers_available = p.subscription_identifiers_available;
        c.shared_subscription_available = p.shared_subscription_available;
        c.server_keep_alive = p.server_keep_alive;
        c.response_information = p.response_information;
        c.server_reference = p.server_reference;
        c.auth_method = p.auth_method;
        c.auth_data = p.auth_data;
    }
    Ok(c)
}

// ---------------------------------------------------------------------------------------------------
// PUBLISH (section 3.3)

fn dec_publish(v5: bool, dir: Direction, flags: u8, r: &mut Reader) -> R<Publish> {
    let mut p = Publish {
        dup: flags & 0x08 != 0,
        qos: (flags >> 1) & 0x03,
        retain: flags & 0x01 != 0,
        ..Publish::default()
    };
    p.topic = r.string("PUBLISH topic name")?;
    if p.topic.contains('+') || p.topic.contains('#') {
        return bad(format!(
            "PUBLISH topic name {:?} contains a wildcard character (+ or #) [MQTT-3.3.2-2]",
            p.topic
        ));
    }
    if !v5 && p.topic.is_empty() {
        return bad("MQTT 3.1.1 PUBLISH topic name is empty; topic names must be at least one character long [MQTT-4.7.3-1]"
            .to_string());
    }
    if p.qos > 0 {
        p.pid = Some(nonzero_pid(r, "PUBLISH")?);
    }
    if v5 {
        let props = read_props(r, Ctx::Publish)?;
        if p.topic.is_empty() && props.topic_alias.is_none() {
            return bad(
                "PUBLISH has a zero-length topic name and no Topic Alias property (protocol error, section 3.3.2.3.4; [MQTT-4.7.3-1])"
                    .to_string(),
            );
        }
        if dir == Direction::ClientToServer && !props.subscription_ids.is_empty() {
            return bad("PUBLISH sent from client to server contains a Subscription Identifier property [MQTT-3.3.4-6]"
                .to_string());
        }
        if let Some(rt) = &props.response_topic {
            if rt.contains('+') || rt.contains('#') {
                return bad(format!(
                    "PUBLISH Response Topic {rt:?} contains a wildcard character (+ or #) [MQTT-3.3.2-14]"
                ));
            }
        }
        p.payload_format = props.payload_format;
        p.message_expiry = props.message_expiry;
        p.topic_alias = props.topic_alias;
        p.response_topic = props.response_topic;
        p.correlation_data = props.correlation_data;
        p.subscription_ids = props.subscription_ids;
        p.content_type = props.content_type;
        p.user_props = props.user_props;
    }
    p.payload = r.rest().to_vec();
    Ok(p)
}

// ---------------------------------------------------------------------------------------------------
// PUBACK / PUBREC / PUBREL / PUBCOMP (sections 3.4 - 3.7)

fn dec_ack(v5: bool, dir: Direction, ptype: u8, r: &mut Reader) -> R<Ack> {
    let name = type_name_of(ptype);
    let mut a = Ack { pid: nonzero_pid(r, name)?, ..Ack::default() };
    if !v5 {
        // remaining length == 2 was enforced by check_static_length
        return Ok(a);
    }
    if r.is_empty() {
        // remaining length 2: reason code 0x00 (Success), no properties
        return Ok(a);
    }
    a.reason = r.u8(&format!("{name} reason code"))?;
    check_reason(ptype, dir, a.reason)?;
    if r.is_empty() {
        // remaining length 3: "If the Remaining Length is less than 4 there is no Property Length"
        return Ok(a);
    }
    let ctx = match ptype {
        ptype::PUBACK => Ctx::Puback,
        ptype::PUBREC => Ctx::Pubrec,
        ptype::PUBREL => Ctx::Pubrel,
        _ => Ctx::Pubcomp,
    };
    let p = read_props(r, ctx)?;
    a.reason_string = p.reason_string;
    a.user_props = p.user_props;
    Ok(a)
}

// ---------------------------------------------------------------------------------------------------
// SUBSCRIBE / SUBACK (sections 3.8, 3.9)

fn dec_subscribe(version: Version, r: &mut Reader) -> R<Subscribe> {
    let v5 = version == Version::V5;
    let mut s = Subscribe { pid: nonzero_pid(r, "SUBSCRIBE")?, ..Subscribe::default() };
    if v5 {
        let p = read_props(r, Ctx::Subscribe)?;
        s.subscription_id = p.subscription_ids.first().copied();
        s.user_props = p.user_props;
    }
    while !r.is_empty() {
        let filter = r.string("SUBSCRIBE topic filter")?;
        if let Err(m) = validate_topic_filter(version, &filter) {
            return bad(format!("SUBSCRIBE: {m}"));
        }
        let opts = r.u8("SUBSCRIBE subscription options")?;
        let qos = opts & 0x03;
        if qos == 3 {
            return bad(format!(
                "SUBSCRIBE options byte {opts:#04x} for filter {filter:?} requests QoS 3 (section 3.8.3.1; 3.1.1 [MQTT-3-8.3-4])"
            ));
        }
        let mut e = SubEntry { filter, qos, ..SubEntry::default() };
        if v5 {
            if opts & 0xC0 != 0 {
                return bad(format!(
                    "SUBSCRIBE options byte {opts:#04x} has reserved bits 7-6 set [MQTT-3.8.3-5]"
                ));
            }
            e.no_local = opts & 0x04 != 0;
            e.retain_as_published = opts & 0x08 != 0;
            e.retain_handling = (opts >> 4) & 0x03;
            if e.retain_handling == 3 {
                return bad(format!(
                    "SUBSCRIBE options byte {opts:#04x} has Retain Handling 3 (protocol error, section 3.8.3.1)"
                ));
            }
            if e.no_local && e.filter.starts_with("$share/") {
                return bad(format!(
                    "SUBSCRIBE sets No Local on the shared subscription {:?} (protocol error [MQTT-3.8.3-4])",
                    e.filter
                ));
            }
        } else if opts & 0xFC != 0 {
            return bad(format!(
                "MQTT 3.1.1 SUBSCRIBE requested-QoS byte {opts:#04x} has reserved bits 7-2 set [MQTT-3-8.3-4]"
            ));
        }
        s.entries.push(e);
    }
    if s.entries.is_empty() {
        return bad(
            "SUBSCRIBE payload contains no topic filter; at least one topic filter / options pair is required (5.0 [MQTT-3.8.3-2], 3.1.1 [MQTT-3.8.3-3])"
                .to_string(),
        );
    }
    Ok(s)
}

fn dec_suback(v5: bool, dir: Direction, r: &mut Reader) -> R<Suback> {
    let mut s = Suback { pid: nonzero_pid(r, "SUBACK")?, ..Suback::default() };
    if v5 {
        let p = read_props(r, Ctx::Suback)?;
        s.reason_string = p.reason_string;
        s.user_props = p.user_props;
    }
    s.reasons = r.rest().to_vec();
    if s.reasons.is_empty() {
        return bad("SUBACK payload contains no reason code; one per topic filter of the SUBSCRIBE is required (section 3.9.3)"
            .to_string());
    }
    for &rc in &s.reasons {
        if v5 {
            check_reason(ptype::SUBACK, dir, rc)?;
        } else if !V311_SUBACK_RETURN_CODES.contains(&rc) {
            return bad(format!(
                "MQTT 3.1.1 SUBACK return code {rc:#04x} is reserved; only 0x00, 0x01, 0x02, 0x80 are allowed [MQTT-3.9.3-2]"
            ));
        }
    }
    Ok(s)
}

// ---------------------------------------------------------------------------------------------------
// UNSUBSCRIBE / UNSUBACK (sections 3.10, 3.11)

fn dec_unsubscribe(version: Version, r: &mut Reader) -> R<Unsubscribe> {
    let v5 = version == Version::V5;
    let mut u = Unsubscribe { pid: nonzero_pid(r, "UNSUBSCRIBE")?, ..Unsubscribe::default() };
    if v5 {
        let p = read_props(r, Ctx::Unsubscribe)?;
        u.user_props = p.user_props;
    }
    while !r.is_empty() {
        let filter = r.string("UNSUBSCRIBE topic filter")?;
        if let Err(m) = validate_topic_filter(version, &filter) {
            return bad(format!("UNSUBSCRIBE: {m}"));
        }
        u.filters.push(filter);
    }
    if u.filters.is_empty() {
        return bad(
            "UNSUBSCRIBE payload contains no topic filter; at least one is required (5.0 [MQTT-3.10.3-2], 3.1.1 [MQTT-3.10.3-2])"
                .to_string(),
        );
    }
    Ok(u)
}

fn dec_unsuback(v5: bool, dir: Direction, r: &mut Reader) -> R<Unsuback> {
    let mut u = Unsuback { pid: nonzero_pid(r, "UNSUBACK")?, ..Unsuback::default() };
    if !v5 {
        // remaining length == 2 was enforced by check_static_length
        return Ok(u);
    }
    let p = read_props(r, Ctx::Unsuback)?;
    u.reason_string = p.reason_string;
    u.user_props = p.user_props;
    u.reasons = r.rest().to_vec();
    if u.reasons.is_empty() {
        return bad(
            "UNSUBACK payload contains no reason code; one per topic filter of the UNSUBSCRIBE is required (section 3.11.3)"
                .to_string(),
        );
    }
    for &rc in &u.reasons {
        check_reason(ptype::UNSUBACK, dir, rc)?;
    }
    Ok(u)
}

// ---------------------------------------------------------------------------------------------------
// DISCONNECT (section 3.14), AUTH (section 3.15)

fn dec_disconnect(v5: bool, dir: Direction, r: &mut Reader) -> R<Disconnect> {
    let mut d = Disconnect::default();
    if !v5 || r.is_empty() {
        // 3.1.1: remaining length 0 enforced by check_static_length.
        // 5.0: remaining length 0 means reason code 0x00 (Normal disconnection), no properties.
        return Ok(d);
    }
    d.reason = r.u8("DISCONNECT reason code")?;
    check_reason(ptype::DISCONNECT, dir, d.reason)?;
    if r.is_empty() {
        // "If the Remaining Length is less than 2, a value of 0 is used" for the property length
        return Ok(d);
    }
    let p = read_props(r, Ctx::Disconnect)?;
    if dir == Direction::ServerToClient && p.session_expiry.is_some() {
        return bad("DISCONNECT sent by the server contains a Session Expiry Interval (protocol error [MQTT-3.14.2-2])"
            .to_string());
    }
    if dir == Direction::ClientToServer && p.server_reference.is_some() {
        return bad(
            "DISCONNECT sent by the client contains a Server Reference, which only a server can send (section 3.14.2.2.5)"
                .to_string(),
        );
    }
    d.session_expiry = p.session_expiry;
    d.reason_string = p.reason_string;
    d.server_reference = p.server_reference;
    d.user_props = p.user_props;
    Ok(d)
}

fn dec_auth(dir: Direction, r: &mut Reader) -> R<Auth> {
    let mut a = Auth::default();
    if !r.is_empty() {
        a.reason = r.u8("AUTH reason code")?;
    }
    // With remaining length 0 the reason code is 0x00 (Success); it is still subject to the table.
    check_reason(ptype::AUTH, dir, a.reason)?;
    if r.is_empty() {
        return Ok(a);
    }
    let p = read_props(r, Ctx::Auth)?;
    a.auth_method = p.auth_method;
    a.auth_data = p.auth_data;
    a.reason_string = p.reason_string;
    a.user_props = p.user_props;
    Ok(a)
}
