//! Data model of the MQTT control packets (MQTT 5.0 superset; MQTT 3.1.1 uses a subset of the fields).

use std::fmt;

#[derive(Clone, Copy, Debug, PartialEq, Eq, Hash, PartialOrd, Ord)]
pub enum Version {
    V5,
    V311,
}

pub type UserProps = Vec<(String, String)>;

/// Control packet type codes (MQTT 5.0 section 2.1.2, table 2-1).
pub mod ptype {
    pub const CONNECT: u8 = 1;
    pub const CONNACK: u8 = 2;
    pub const PUBLISH: u8 = 3;
    pub const PUBACK: u8 = 4;
    pub const PUBREC: u8 = 5;
    pub const PUBREL: u8 = 6;
    pub const PUBCOMP: u8 = 7;
    pub const SUBSCRIBE: u8 = 8;
    pub const SUBACK: u8 = 9;
    pub const UNSUBSCRIBE: u8 = 10;
    pub const UNSUBACK: u8 = 11;
    pub const PINGREQ: u8 = 12;
    pub const PINGRESP: u8 = 13;
    pub const DISCONNECT: u8 = 14;
    pub const AUTH: u8 = 15;
}

/// Name of a control packet type code (0 and anything above 15 give "RESERVED").
pub fn type_name_of(code: u8) -> &'static str {
    match code {
        1 => "CONNECT",
        2 => "CONNACK",
        3 => "PUBLISH",
        4 => "PUBACK",
        5 => "PUBREC",
        6 => "PUBREL",
        7 => "PUBCOMP",
        8 => "SUBSCRIBE",
        9 => "SUBACK",
        10 => "UNSUBSCRIBE",
        11 => "UNSUBACK",
        12 => "PINGREQ",
        13 => "PINGRESP",
        14 => "DISCONNECT",
        15 => "AUTH",
        _ => "RESERVED",
    }
}

#[derive(Clone, Debug, PartialEq, Eq, Default)]
pub struct Will {
    pub qos: u8,
    pub retain: bool,
    pub topic: String,
    pub payload: Vec<u8>,
    pub will_delay_interval: Option<u32>,
    pub payload_format: Option<u8>,
    pub message_expiry: Option<u32>,
    pub content_type: Option<String>,
    pub response_topic: Option<String>,
    pub correlation_data: Option<Vec<u8>>,
    pub user_props: UserProps,
}

#[derive(Clone, Debug, PartialEq, Eq, Default)]
pub struct Connect {
    pub clean_start: bool,
    pub keep_alive: u16,
    pub client_id: String,
    pub will: Option<Will>,
    pub username: Option<String>,
    pub password: Option<Vec<u8>>,
    pub session_expiry: Option<u32>,
    pub receive_maximum: Option<u16>,
    pub maximum_packet_size: Option<u32>,
    pub topic_alias_maximum: Option<u16>,
    pub request_response_information: Option<bool>,
    pub request_problem_information: Option<bool>,
    pub user_props: UserProps,
    pub auth_method: Option<String>,
    pub auth_data: Option<Vec<u8>>,
}

#[derive(Clone, Debug, PartialEq, Eq, Default)]
pub struct Connack {
    pub session_present: bool,
    /// V5 reason code byte; for V311 the 3.1.1 return code 0..=5.
    pub reason: u8,
    pub session_expiry: Option<u32>,
    pub receive_maximum: Option<u16>,
    pub maximum_qos: Option<u8>,
    pub retain_available: Option<bool>,
    pub maximum_packet_size: Option<u32>,
    pub assigned_client_id: Option<String>,
    pub topic_alias_maximum: Option<u16>,
    pub reason_string: Option<String>,
    pub user_props: UserProps,
    pub wildcard_subscription_available: Option<bool>,
    pub subscription_identifiers_available: Option<bool>,
    pub shared_subscription_available: Option<bool>,
    pub server_keep_alive: Option<u16>,
    pub response_information: Option<String>,
    pub server_reference: Option<String>,
    pub auth_method: Option<String>,
    pub auth_data: Option<Vec<u8>>,
}

#[derive(Clone, Debug, PartialEq, Eq, Default)]
pub struct Publish {
    pub dup: bool,
    pub qos: u8,
    pub retain: bool,
    pub topic: String,
    /// `Some` iff `qos > 0`.
    pub pid: Option<u16>,
    pub payload: Vec<u8>,
    pub payload_format: Option<u8>,
    pub message_expiry: Option<u32>,
    pub topic_alias: Option<u16>,
    pub response_topic: Option<String>,
    pub correlation_data: Option<Vec<u8>>,
    pub subscription_ids: Vec<u32>,
    pub content_type: Option<String>,
    pub user_props: UserProps,
}

/// PUBACK / PUBREC / PUBREL / PUBCOMP
#[derive(Clone, Debug, PartialEq, Eq, Default)]
pub struct Ack {
    pub pid: u16,
    pub reason: u8,
    pub reason_string: Option<String>,
    pub user_props: UserProps,
}

#[derive(Clone, Debug, PartialEq, Eq, Default)]
pub struct SubEntry {
    pub filter: String,
    pub qos: u8,
    pub no_local: bool,
    pub retain_as_published: bool,
    pub retain_handling: u8,
}

#[derive(Clone, Debug, PartialEq, Eq, Default)]
pub struct Subscribe {
    pub pid: u16,
    pub subscription_id: Option<u32>,
    pub user_props: UserProps,
    pub entries: Vec<SubEntry>,
}

#[derive(Clone, Debug, PartialEq, Eq, Default)]
pub struct Suback {
    pub pid: u16,
    pub reason_string: Option<String>,
    pub user_props: UserProps,
    pub reasons: Vec<u8>,
}

#[derive(Clone, Debug, PartialEq, Eq, Default)]
pub struct Unsubscribe {
    pub pid: u16,
    pub user_props: UserProps,
    pub filters: Vec<String>,
}

#[derive(Clone, Debug, PartialEq, Eq, Default)]
pub struct Unsuback {
    pub pid: u16,
    pub reason_string: Option<String>,
    pub user_props: UserProps,
    /// Empty for V311.
    pub reasons: Vec<u8>,
}

#[derive(Clone, Debug, PartialEq, Eq, Default)]
pub struct Disconnect {
    pub reason: u8,
    pub session_expiry: Option<u32>,
    pub reason_string: Option<String>,
    pub server_reference: Option<String>,
    pub user_props: UserProps,
}

#[derive(Clone, Debug, PartialEq, Eq, Default)]
pub struct Auth {
    pub reason: u8,
    pub auth_method: Option<String>,
    pub auth_data: Option<Vec<u8>>,
    pub reason_string: Option<String>,
    pub user_props: UserProps,
}

#[derive(Clone, Debug, PartialEq, Eq)]
pub enum Packet {
    Connect(Connect),
    Connack(Connack),
    Publish(Publish),
    Puback(Ack),
    Pubrec(Ack),
    Pubrel(Ack),
    Pubcomp(Ack),
    Subscribe(Subscribe),
    Suback(Suback),
    Unsubscribe(Unsubscribe),
    Unsuback(Unsuback),
    Pingreq,
    Pingresp,
    Disconnect(Disconnect),
    Auth(Auth),
}

impl Packet {
    pub fn type_name(&self) -> &'static str {
        type_name_of(self.type_code())
    }

    /// Control packet type code, 1..=15.
    pub fn type_code(&self) -> u8 {
        match self {
            Packet::Connect(_) => ptype::CONNECT,
            Packet::Connack(_) => ptype::CONNACK,
            Packet::Publish(_) => ptype::PUBLISH,
            Packet::Puback(_) => ptype::PUBACK,
            Packet::Pubrec(_) => ptype::PUBREC,
            Packet::Pubrel(_) => ptype::PUBREL,
            Packet::Pubcomp(_) => ptype::PUBCOMP,
            Packet::Subscribe(_) => ptype::SUBSCRIBE,
            Packet::Suback(_) => ptype::SUBACK,
            Packet::Unsubscribe(_) => ptype::UNSUBSCRIBE,
            Packet::Unsuback(_) => ptype::UNSUBACK,
            Packet::Pingreq => ptype::PINGREQ,
            Packet::Pingresp => ptype::PINGRESP,
            Packet::Disconnect(_) => ptype::DISCONNECT,
            Packet::Auth(_) => ptype::AUTH,
        }
    }

    /// The model that survives a trip through the wire format of `version`:
    /// * both versions: `Publish.pid` is `None` when `qos == 0` (there is no packet identifier field);
    /// * V311: every field that only exists in MQTT 5.0 (properties, reason codes of
    ///   PUBACK/PUBREC/PUBREL/PUBCOMP/UNSUBACK/DISCONNECT, subscription options other than QoS) is
    ///   reset to its default.
    ///
    /// `decode(v, dir, &encode(v, p, opts)) == Ok((p.normalized(v), len))` for every valid `p`.
    pub fn normalized(&self, version: Version) -> Packet {
        let v5 = version == Version::V5;
        match self {
            Packet::Publish(p) => {
                let pid = if p.qos == 0 { None } else { p.pid };
                if v5 {
                    Packet::Publish(Publish { pid, ..p.clone() })
                } else {
                    Packet::Publish(Publish {
                        dup: p.dup,
                        qos: p.qos,
                        retain: p.retain,
                        topic: p.topic.clone(),
                        pid,
                        payload: p.payload.clone(),
                        ..Publish::default()
                    })
                }
            }
            _ if v5 => self.clone(),
            Packet::Connect(c) => Packet::Connect(Connect {
                clean_start: c.clean_start,
                keep_alive: c.keep_alive,
                client_id: c.client_id.clone(),
                will: c.will.as_ref().map(|w| Will {
                    qos: w.qos,
                    retain: w.retain,
                    topic: w.topic.clone(),
                    payload: w.payload.clone(),
                    ..Will::default()
                }),
                username: c.username.clone(),
                password: c.password.clone(),
                ..Connect::default()
            }),
            Packet::Connack(c) => Packet::Connack(Connack {
                session_present: c.session_present,
                reason: c.reason,
                ..Connack::default()
            }),
            Packet::Puback(a) => Packet::Puback(Ack { pid: a.pid, ..Ack::default() }),
            Packet::Pubrec(a) => Packet::Pubrec(Ack { pid: a.pid, ..Ack::default() }),
            Packet::Pubrel(a) => Packet::Pubrel(Ack { pid: a.pid, ..Ack::default() }),
            Packet::Pubcomp(a) => Packet::Pubcomp(Ack { pid: a.pid, ..Ack::default() }),
            Packet::Subscribe(s) => Packet::Subscribe(Subscribe {
                pid: s.pid,
                entries: s
                    .entries
                    .iter()
                    .map(|e| SubEntry { filter: e.filter.clone(), qos: e.qos, ..SubEntry::default() })
                    .collect(),
                ..Subscribe::default()
            }),
            Packet::Suback(s) => Packet::Suback(Suback {
                pid: s.pid,
                reasons: s.reasons.clone(),
                ..Suback::default()
            }),
            Packet::Unsubscribe(u) => Packet::Unsubscribe(Unsubscribe {
                pid: u.pid,
                filters: u.filters.clone(),
                ..Unsubscribe::default()
            }),
            Packet::Unsuback(u) => Packet::Unsuback(Unsuback { pid: u.pid, ..Unsuback::default() }),
            Packet::Disconnect(_) => Packet::Disconnect(Disconnect::default()),
            Packet::Pingreq | Packet::Pingresp | Packet::Auth(_) => self.clone(),
        }
    }
}

#[derive(Clone, Debug, PartialEq, Eq)]
pub enum DecodeError {
    /// Need more bytes: not an error yet.
    Incomplete,
    /// Human-readable reason naming the specification rule that is violated.
    Malformed(String),
}

impl fmt::Display for DecodeError {
    fn fmt(&self, f: &mut fmt::Formatter<'_>) -> fmt::Result {
        match self {
            DecodeError::Incomplete => write!(f, "incomplete packet: more bytes needed"),
            DecodeError::Malformed(m) => write!(f, "malformed packet: {m}"),
        }
    }
}

impl std::error::Error for DecodeError {}

#[derive(Clone, Copy, Debug, PartialEq, Eq)]
pub enum Direction {
    ClientToServer,
    ServerToClient,
}

/// How the encoder lays out a packet where the spec gives freedom.
#[derive(Clone, Debug, Default)]
pub struct EncodeOpts {
    /// Seed for a deterministic permutation of the property order (0 = canonical ascending-by-identifier
    /// order with user properties last, in their given order; any other value = a deterministic
    /// pseudo-random permutation of the individual properties, but user properties keep their RELATIVE
    /// order and subscription identifiers keep their relative order, since order among repeated
    /// properties is significant).
    pub prop_order_seed: u64,
    /// V5 PUBACK/PUBREC/PUBREL/PUBCOMP: when reason==0 and there are no properties the reason code (and
    /// property length) MAY be omitted (remaining length 2). V5 DISCONNECT: when reason==0 and no
    /// properties, remaining length may be 0. V5 AUTH likewise. false = use the shortest legal form,
    /// true = always write the explicit reason code.
    pub explicit_reason: bool,
    /// V5 acks/DISCONNECT: when there are no properties and remaining length would be <4 (acks) / <2
    /// (disconnect) the property length may be omitted. true = always write the explicit
    /// property-length byte 0 (which forces the explicit reason code too).
    pub explicit_prop_len: bool,
}

const CONNACK_REASONS: &[u8] = &[
    0x00, 0x80, 0x81, 0x82, 0x83, 0x84, 0x85, 0x86, 0x87, 0x88, 0x89, 0x8A, 0x8C, 0x90, 0x95, 0x97, 0x99,
    0x9A, 0x9B, 0x9C, 0x9D, 0x9F,
];
const PUBACK_PUBREC_REASONS: &[u8] = &[0x00, 0x10, 0x80, 0x83, 0x87, 0x90, 0x91, 0x97, 0x99];
const PUBREL_PUBCOMP_REASONS: &[u8] = &[0x00, 0x92];
const SUBACK_REASONS: &[u8] = &[0x00, 0x01, 0x02, 0x80, 0x83, 0x87, 0x8F, 0x91, 0x97, 0x9E, 0xA1, 0xA2];
const UNSUBACK_REASONS: &[u8] = &[0x00, 0x11, 0x80, 0x83, 0x87, 0x8F, 0x91];
const DISCONNECT_REASONS_CLIENT: &[u8] = &[
    0x00, 0x04, 0x80, 0x81, 0x82, 0x83, 0x90, 0x93, 0x94, 0x95, 0x96, 0x97, 0x98, 0x99,
];
const DISCONNECT_REASONS_SERVER: &[u8] = &[
    0x00, 0x80, 0x81, 0x82, 0x83, 0x87, 0x89, 0x8B, 0x8D, 0x8E, 0x8F, 0x90, 0x93, 0x94, 0x95, 0x96, 0x97,
    0x98, 0x99, 0x9A, 0x9B, 0x9C, 0x9D, 0x9E, 0x9F, 0xA0, 0xA1, 0xA2,
];
const AUTH_REASONS_CLIENT: &[u8] = &[0x18, 0x19];
const AUTH_REASONS_SERVER: &[u8] = &[0x00, 0x18];

/// Return codes of the MQTT 3.1.1 SUBACK payload (3.1.1 section 3.9.3).
pub const V311_SUBACK_RETURN_CODES: &[u8] = &[0x00, 0x01, 0x02, 0x80];
/// Largest MQTT 3.1.1 CONNACK return code (3.1.1 section 3.2.2.3, table 3.1).
pub const V311_CONNACK_MAX_RETURN_CODE: u8 = 5;

/// Per packet type and direction, the list of reason codes the V5 spec allows (tables in sections
/// 3.2.2.2, 3.4.2.1, 3.5.2.1, 3.6.2.1, 3.7.2.1, 3.9.3, 3.11.3, 3.14.2.1, 3.15.2.1). For DISCONNECT and
/// AUTH the set depends on who sends it (those tables have a "Sent by" column); for every other type
/// `dir` is ignored. Packet types that carry no reason code give an empty slice.
pub fn legal_reason_codes(packet_type_code: u8, dir: Direction) -> &'static [u8] {
    use Direction::*;
    match (packet_type_code, dir) {
        (ptype::CONNACK, _) => CONNACK_REASONS,
        (ptype::PUBACK, _) | (ptype::PUBREC, _) => PUBACK_PUBREC_REASONS,
        (ptype::PUBREL, _) | (ptype::PUBCOMP, _) => PUBREL_PUBCOMP_REASONS,
        (ptype::SUBACK, _) => SUBACK_REASONS,
        (ptype::UNSUBACK, _) => UNSUBACK_REASONS,
        (ptype::DISCONNECT, ClientToServer) => DISCONNECT_REASONS_CLIENT,
        (ptype::DISCONNECT, ServerToClient) => DISCONNECT_REASONS_SERVER,
        (ptype::AUTH, ClientToServer) => AUTH_REASONS_CLIENT,
        (ptype::AUTH, ServerToClient) => AUTH_REASONS_SERVER,
        _ => &[],
    }
}
