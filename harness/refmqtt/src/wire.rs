//! Low level wire primitives: variable byte integer, fixed header peek, a bounds-checked reader for
//! packet bodies, field writers, and the topic name / topic filter syntax rules.

use crate::model::{DecodeError, Version};

/// Largest value a Variable Byte Integer can carry (MQTT 5.0 section 1.5.5, 3.1.1 section 2.2.3).
pub const VLI_MAX: u32 = 268_435_455;

fn malformed<T>(msg: String) -> Result<T, DecodeError> {
    Err(DecodeError::Malformed(msg))
}

/// Number of bytes of the minimal encoding of `v`. Panics if `v > 268435455`.
pub fn vli_len(v: u32) -> usize {
    assert!(v <= VLI_MAX, "variable byte integer {v} exceeds 268435455");
    if v < 128 {
        1
    } else if v < 16_384 {
        2
    } else if v < 2_097_152 {
        3
    } else {
        4
    }
}

/// Append the minimal Variable Byte Integer encoding of `v`. Panics if `v > 268435455`.
pub fn encode_vli(v: u32, out: &mut Vec<u8>) {
    assert!(v <= VLI_MAX, "variable byte integer {v} exceeds 268435455");
    let mut v = v;
    loop {
        let mut b = (v % 128) as u8;
        v /= 128;
        if v > 0 {
            b |= 0x80;
        }
        out.push(b);
        if v == 0 {
            break;
        }
    }
}

/// Decode a Variable Byte Integer from the front of `bytes`.
///
/// * `Ok(Some((value, len)))` on success;
/// * `Ok(None)` if `bytes` ends before the terminating byte (and nothing is wrong so far);
/// * `Err(Malformed)` if the 4th byte still has its continuation bit set (a 5th byte would be needed),
///   or if the encoding is not the minimal one (e.g. `80 00`) [MQTT-1.5.5-1].
pub fn decode_vli(bytes: &[u8]) -> Result<Option<(u32, usize)>, DecodeError> {
    let mut value: u32 = 0;
    for i in 0..4usize {
        let b = match bytes.get(i) {
            Some(b) => *b,
            None => return Ok(None),
        };
        value |= u32::from(b & 0x7F) << (7 * i as u32);
        if b & 0x80 == 0 {
            if i > 0 && b == 0 {
                return malformed(format!(
                    "variable byte integer is not minimally encoded ({} bytes used for value {value}) [MQTT-1.5.5-1]",
                    i + 1
                ));
            }
            return Ok(Some((value, i + 1)));
        }
    }
    malformed(
        "variable byte integer longer than 4 bytes (continuation bit set on the 4th byte) (section 1.5.5 / 2.1.4)"
            .to_string(),
    )
}

/// Peek only the fixed header: `Ok(Some((first_byte, remaining_length, header_len)))`, `Ok(None)` if
/// incomplete, `Err` if the remaining length VLI is malformed.
pub fn peek_fixed_header(bytes: &[u8]) -> Result<Option<(u8, u32, usize)>, DecodeError> {
    let first = match bytes.first() {
        Some(b) => *b,
        None => return Ok(None),
    };
    let rest = bytes.get(1..).unwrap_or(&[]);
    match decode_vli(rest) {
        Ok(Some((rl, n))) => Ok(Some((first, rl, 1 + n))),
        Ok(None) => Ok(None),
        Err(DecodeError::Malformed(m)) => malformed(format!("remaining length: {m}")),
        Err(e) => Err(e),
    }
}

/// Check the content rules of an MQTT "UTF-8 Encoded String" (section 1.5.4 in 5.0, 1.5.3 in 3.1.1):
/// well-formed UTF-8 (no surrogates) [MQTT-1.5.4-1] and no U+0000 [MQTT-1.5.4-2].
pub fn validate_utf8(raw: &[u8]) -> Result<&str, String> {
    match std::str::from_utf8(raw) {
        Ok(s) => {
            if s.contains('\0') {
                Err("UTF-8 string contains the null character U+0000 [MQTT-1.5.4-2]".to_string())
            } else {
                Ok(s)
            }
        }
        Err(e) => Err(format!(
            "ill-formed UTF-8 (invalid sequence or surrogate code point) at byte offset {} [MQTT-1.5.4-1]",
            e.valid_up_to()
        )),
    }
}

/// Bounds-checked cursor over one complete packet body. Because the whole body (remaining length) is
/// already available when a `Reader` is created, running out of bytes is always `Malformed`, never
/// `Incomplete`.
#[derive(Clone, Debug)]
pub struct Reader<'a> {
    buf: &'a [u8],
    pos: usize,
}

impl<'a> Reader<'a> {
    pub fn new(buf: &'a [u8]) -> Self {
        Reader { buf, pos: 0 }
    }

    pub fn remaining(&self) -> usize {
        self.buf.len().saturating_sub(self.pos)
    }

    pub fn is_empty(&self) -> bool {
        self.remaining() == 0
    }

    pub fn position(&self) -> usize {
        self.pos
    }

    /// Take exactly `n` bytes.
    pub fn take(&mut self, n: usize, what: &str) -> Result<&'a [u8], DecodeError> {
        let end = match self.pos.checked_add(n) {
            Some(e) => e,
            None => return malformed(format!("{what}: length overflow")),
        };
        match self.buf.get(self.pos..end) {
            Some(s) => {
                self.pos = end;
                Ok(s)
            }
            None => malformed(format!(
                "{what}: needs {n} byte(s) but only {} left before the end of the enclosing length (field runs past the end)",
                self.remaining()
            )),
        }
    }

    /// Everything that is left.
    pub fn rest(&mut self) -> &'a [u8] {
        let s = self.buf.get(self.pos..).unwrap_or(&[]);
        self.pos = self.buf.len();
        s
    }

    pub fn u8(&mut self, what: &str) -> Result<u8, DecodeError> {
        let s = self.take(1, what)?;
        match s.first() {
            Some(b) => Ok(*b),
            None => malformed(format!("{what}: missing byte")),
        }
    }

    pub fn u16(&mut self, what: &str) -> Result<u16, DecodeError> {
        let s = self.take(2, what)?;
        match s {
            [a, b] => Ok(u16::from_be_bytes([*a, *b])),
            _ => malformed(format!("{what}: missing bytes")),
        }
    }

    pub fn u32(&mut self, what: &str) -> Result<u32, DecodeError> {
        let s = self.take(4, what)?;
        match s {
            [a, b, c, d] => Ok(u32::from_be_bytes([*a, *b, *c, *d])),
            _ => malformed(format!("{what}: missing bytes")),
        }
    }

    /// Variable Byte Integer (minimal encoding required, at most 4 bytes).
    pub fn vli(&mut self, what: &str) -> Result<u32, DecodeError> {
        let rest = self.buf.get(self.pos..).unwrap_or(&[]);
        match decode_vli(rest) {
            Ok(Some((v, n))) => {
                self.pos += n;
                Ok(v)
            }
            Ok(None) => malformed(format!(
                "{what}: variable byte integer is cut off by the end of the enclosing length"
            )),
            Err(DecodeError::Malformed(m)) => malformed(format!("{what}: {m}")),
            Err(e) => Err(e),
        }
    }

    /// Binary Data: two byte length followed by that many bytes (section 1.5.6).
    pub fn binary(&mut self, what: &str) -> Result<Vec<u8>, DecodeError> {
        let len = self.u16(what)? as usize;
        Ok(self.take(len, what)?.to_vec())
    }

    /// UTF-8 Encoded String: two byte length, well-formed UTF-8, no U+0000 (section 1.5.4).
    pub fn string(&mut self, what: &str) -> Result<String, DecodeError> {
        let len = self.u16(what)? as usize;
        let raw = self.take(len, what)?;
        match validate_utf8(raw) {
            Ok(s) => Ok(s.to_owned()),
            Err(m) => malformed(format!("{what}: {m}")),
        }
    }

    /// Fail unless every byte has been consumed.
    pub fn expect_end(&self, what: &str) -> Result<(), DecodeError> {
        if self.is_empty() {
            Ok(())
        } else {
            malformed(format!(
                "{what}: {} trailing byte(s) left inside the remaining length after the last field",
                self.remaining()
            ))
        }
    }
}

pub fn write_u16(v: u16, out: &mut Vec<u8>) {
    out.extend_from_slice(&v.to_be_bytes());
}

pub fn write_u32(v: u32, out: &mut Vec<u8>) {
    out.extend_from_slice(&v.to_be_bytes());
}

/// Two byte length + bytes. Panics if longer than 65535 bytes.
pub fn write_binary(b: &[u8], out: &mut Vec<u8>) {
    assert!(b.len() <= 65_535, "binary data / string of {} bytes exceeds 65535", b.len());
    write_u16(b.len() as u16, out);
    out.extend_from_slice(b);
}

/// UTF-8 Encoded String. Panics if longer than 65535 bytes.
pub fn write_string(s: &str, out: &mut Vec<u8>) {
    write_binary(s.as_bytes(), out);
}

/// Topic Name syntax (section 4.7): at least one character [MQTT-4.7.3-1] and no wildcard characters
/// `+` / `#` (5.0 [MQTT-4.7.0-1], 3.1.1 [MQTT-4.7.1-1]; PUBLISH [MQTT-3.3.2-2]).
/// The MQTT 5.0 special case "empty topic name + Topic Alias" is handled by the PUBLISH decoder.
pub fn validate_topic_name(topic: &str) -> Result<(), String> {
    if topic.is_empty() {
        return Err("topic name is empty; topic names must be at least one character long [MQTT-4.7.3-1]".to_string());
    }
    if topic.contains('+') || topic.contains('#') {
        return Err(format!(
            "topic name {topic:?} contains a wildcard character (+ or #), which is only allowed in topic filters [MQTT-3.3.2-2]"
        ));
    }
    Ok(())
}

/// Topic Filter syntax (section 4.7.1): at least one character [MQTT-4.7.3-1]; `#` must be the last
/// character and occupy a whole level; `+` must occupy a whole level. For V5 a filter that starts with
/// `$share/` must be `$share/{ShareName}/{filter}` with a non-empty ShareName free of `/ + #` and a
/// non-empty filter (section 4.8.2).
pub fn validate_topic_filter(version: Version, filter: &str) -> Result<(), String> {
    if filter.is_empty() {
        return Err("topic filter is empty; topic filters must be at least one character long [MQTT-4.7.3-1]".to_string());
    }
    let levels: Vec<&str> = filter.split('/').collect();
    let last = levels.len().saturating_sub(1);
    for (i, level) in levels.iter().enumerate() {
        if level.contains('#') {
            if *level != "#" {
                return Err(format!(
                    "topic filter {filter:?}: multi-level wildcard # must occupy an entire level (section 4.7.1.2)"
                ));
            }
            if i != last {
                return Err(format!(
                    "topic filter {filter:?}: multi-level wildcard # must be the last character of the filter (section 4.7.1.2)"
                ));
            }
        }
        if level.contains('+') && *level != "+" {
            return Err(format!(
                "topic filter {filter:?}: single-level wildcard + must occupy an entire level (section 4.7.1.3)"
            ));
        }
    }
    if version == Version::V5 {
        if let Some(rest) = filter.strip_prefix("$share/") {
            let (share_name, inner) = match rest.split_once('/') {
                Some((n, f)) => (n, Some(f)),
                None => (rest, None),
            };
            if share_name.is_empty() {
                return Err(format!(
                    "shared subscription filter {filter:?}: ShareName must be at least one character long (section 4.8.2)"
                ));
            }
            if share_name.contains('+') || share_name.contains('#') {
                return Err(format!(
                    "shared subscription filter {filter:?}: ShareName must not contain + or # (section 4.8.2)"
                ));
            }
            match inner {
                Some(f) if !f.is_empty() => {}
                _ => {
                    return Err(format!(
                        "shared subscription filter {filter:?}: ShareName must be followed by / and a topic filter (section 4.8.2)"
                    ))
                }
            }
        }
    }
    Ok(())
}
