//! Encoder for MQTT 5.0 and MQTT 3.1.1 control packets, with control over the layout choices the
//! specification leaves open (property order, optional reason code / property length).

use crate::model::*;
use crate::wire::*;

/// splitmix64 step: deterministic, dependency-free PRNG used for the property-order permutation.
fn splitmix64(state: &mut u64) -> u64 {
    *state = state.wrapping_add(0x9E37_79B9_7F4A_7C15);
    let mut z = *state;
    z = (z ^ (z >> 30)).wrapping_mul(0xBF58_476D_1CE4_E5B9);
    z = (z ^ (z >> 27)).wrapping_mul(0x94D0_49BB_1331_11EB);
    z ^ (z >> 31)
}

/// Collects the individual properties of one property section.
struct PropList {
    /// (identifier, identifier + encoded value)
    items: Vec<(u8, Vec<u8>)>,
}

impl PropList {
    fn new() -> Self {
        PropList { items: Vec::new() }
    }

    fn is_empty(&self) -> bool {
        self.items.is_empty()
    }

    fn byte(&mut self, id: u8, v: Option<u8>) {
        if let Some(v) = v {
            self.items.push((id, vec![id, v]));
        }
    }

    fn boolean(&mut self, id: u8, v: Option<bool>) {
        self.byte(id, v.map(u8::from));
    }

    fn u16(&mut self, id: u8, v: Option<u16>) {
        if let Some(v) = v {
            let mut b = vec![id];
            write_u16(v, &mut b);
            self.items.push((id, b));
        }
    }

    fn u32(&mut self, id: u8, v: Option<u32>) {
        if let Some(v) = v {
            let mut b = vec![id];
            write_u32(v, &mut b);
            self.items.push((id, b));
        }
    }

    fn vli(&mut self, id: u8, v: u32) {
        let mut b = vec![id];
        encode_vli(v, &mut b);
        self.items.push((id, b));
    }

    fn string(&mut self, id: u8, v: &Option<String>) {
        if let Some(v) = v {
            let mut b = vec![id];
            write_string(v, &mut b);
            self.items.push((id, b));
        }
    }

    fn binary(&mut self, id: u8, v: &Option<Vec<u8>>) {
        if let Some(v) = v {
            let mut b = vec![id];
            write_binary(v, &mut b);
            self.items.push((id, b));
        }
    }

    fn user_props(&mut self, ups: &UserProps) {
        for (k, v) in ups {
            let mut b = vec![0x26];
            write_string(k, &mut b);
            write_string(v, &mut b);
            self.items.push((0x26, b));
        }
    }

    /// Property Length + Properties, ordered according to `seed`.
    fn finish(self, seed: u64, out: &mut Vec<u8>) {
        // canonical order: ascending identifier, user properties last; stable, so repeated
        // properties keep the order in which they were given.
        let mut items: Vec<(usize, u8, Vec<u8>)> = Vec::with_capacity(self.items.len());
        {
            let mut tmp = self.items;
            tmp.sort_by_key(|(id, _)| if *id == 0x26 { 0xFFu16 } else { u16::from(*id) });
            for (i, (id, b)) in tmp.into_iter().enumerate() {
                items.push((i, id, b));
            }
        }
        if seed != 0 && items.len() > 1 {
            let mut state = seed;
            // Fisher-Yates
            for i in (1..items.len()).rev() {
                let j = (splitmix64(&mut state) % (i as u64 + 1)) as usize;
                items.swap(i, j);
            }
            // restore the relative order among repeated properties (significant for the receiver)
            for rep in [0x26u8, 0x0B] {
                let positions: Vec<usize> =
                    items.iter().enumerate().filter(|(_, it)| it.1 == rep).map(|(p, _)| p).collect();
                if positions.len() < 2 {
                    continue;
                }
                let mut group: Vec<(usize, u8, Vec<u8>)> =
                    positions.iter().map(|&p| std::mem::take(&mut items[p])).collect();
                group.sort_by_key(|it| it.0);
                for (p, it) in positions.into_iter().zip(group) {
                    items[p] = it;
                }
            }
        }
        let total: usize = items.iter().map(|it| it.2.len()).sum();
        assert!(total <= VLI_MAX as usize, "property section of {total} bytes cannot be represented");
        encode_vli(total as u32, out);
        for it in &items {
            out.extend_from_slice(&it.2);
        }
    }
}

fn qos_ok(q: u8, what: &str) -> u8 {
    assert!(q <= 2, "{what}: QoS {q} cannot be represented");
    q
}

fn enc_connect(v5: bool, c: &Connect, opts: &EncodeOpts, out: &mut Vec<u8>) {
    write_string("MQTT", out);
    out.push(if v5 { 5 } else { 4 });
    let mut flags = 0u8;
    if c.clean_start {
        flags |= 0x02;
    }
    if let Some(w) = &c.will {
        flags |= 0x04 | (qos_ok(w.qos, "will") << 3);
        if w.retain {
            flags |= 0x20;
        }
    }
    if c.password.is_some() {
        flags |= 0x40;
    }
    if c.username.is_some() {
        flags |= 0x80;
    }
    out.push(flags);
    write_u16(c.keep_alive, out);
    if v5 {
        let mut p = PropList::new();
        p.u32(0x11, c.session_expiry);
        p.u16(0x21, c.receive_maximum);
        p.u32(0x27, c.maximum_packet_size);
        p.u16(0x22, c.topic_alias_maximum);
        p.boolean(0x19, c.request_response_information);
        p.boolean(0x17, c.request_problem_information);
        p.user_props(&c.user_props);
        p.string(0x15, &c.auth_method);
        p.binary(0x16, &c.auth_data);
        p.finish(opts.prop_order_seed, out);
    }
    write_string(&c.client_id, out);
    if let Some(w) = &c.will {
        if v5 {
            let mut p = PropList::new();
            p.u32(0x18, w.will_delay_interval);
            p.byte(0x01, w.payload_format);
            p.u32(0x02, w.message_expiry);
            p.string(0x03, &w.content_type);
            p.string(0x08, &w.response_topic);
            p.binary(0x09, &w.correlation_data);
            p.user_props(&w.user_props);
            // a different stream than the CONNECT properties, still deterministic
            let seed = if opts.prop_order_seed == 0 { 0 } else { (opts.prop_order_seed ^ 0x5745_4C4C).max(1) };
            p.finish(seed, out);
        }
        write_string(&w.topic, out);
        write_binary(&w.payload, out);
    }
    if let Some(u) = &c.username {
        write_string(u, out);
    }
    if let Some(pw) = &c.password {
        write_binary(pw, out);
    }
}

fn enc_connack(v5: bool, c: &Connack, opts: &EncodeOpts, out: &mut Vec<u8>) {
    out.push(u8::from(c.session_present));
    out.push(c.reason);
    if v5 {
        let mut p = PropList::new();
        p.u32(0x11, c.session_expiry);
        p.u16(0x21, c.receive_maximum);
        p.byte(0x24, c.maximum_qos);
        p.boolean(0x25, c.retain_available);
        p.u32(0x27, c.maximum_packet_size);
        p.string(0x12, &c.assigned_client_id);
        p.u16(0x22, c.topic_alias_maximum);
        p.string(0x1F, &c.reason_string);
        p.user_props(&c.user_props);
        p.boolean(0x28, c.wildcard_subscription_available);
        p.boolean(0x29, c.subscription_identifiers_available);
        p.boolean(0x2A, c.shared_subscription_available);
        p.u16(0x13, c.server_keep_alive);
        p.string(0x1A, &c.response_information);
        p.string(0x1C, &c.server_reference);
        p.string(0x15, &c.auth_method);
        p.binary(0x16, &c.auth_data);
        p.finish(opts.prop_order_seed, out);
    }
}

fn enc_publish(v5: bool, p: &Publish, opts: &EncodeOpts, out: &mut Vec<u8>) -> u8 {
    let qos = qos_ok(p.qos, "PUBLISH");
    let mut first = 0x30 | (qos << 1);
    if p.dup {
        first |= 0x08;
    }
    if p.retain {
        first |= 0x01;
    }
    write_string(&p.topic, out);
    if qos > 0 {
        match p.pid {
            Some(pid) => write_u16(pid, out),
            None => panic!("PUBLISH with QoS {qos} needs a packet identifier"),
        }
    }
    if v5 {
        let mut l = PropList::new();
        l.byte(0x01, p.payload_format);
        l.u32(0x02, p.message_expiry);
        l.u16(0x23, p.topic_alias);
        l.string(0x08, &p.response_topic);
        l.binary(0x09, &p.correlation_data);
        for &id in &p.subscription_ids {
            l.vli(0x0B, id);
        }
        l.string(0x03, &p.content_type);
        l.user_props(&p.user_props);
        l.finish(opts.prop_order_seed, out);
    }
    out.extend_from_slice(&p.payload);
    first
}

fn enc_ack(v5: bool, a: &Ack, opts: &EncodeOpts, out: &mut Vec<u8>) {
    write_u16(a.pid, out);
    if !v5 {
        return;
    }
    let mut p = PropList::new();
    p.string(0x1F, &a.reason_string);
    p.user_props(&a.user_props);
    if !p.is_empty() || opts.explicit_prop_len {
        out.push(a.reason);
        p.finish(opts.prop_order_seed, out);
    } else if a.reason != 0 || opts.explicit_reason {
        out.push(a.reason);
    }
}

fn enc_subscribe(v5: bool, s: &Subscribe, opts: &EncodeOpts, out: &mut Vec<u8>) {
    write_u16(s.pid, out);
    if v5 {
        let mut p = PropList::new();
        if let Some(id) = s.subscription_id {
            p.vli(0x0B, id);
        }
        p.user_props(&s.user_props);
        p.finish(opts.prop_order_seed, out);
    }
    for e in &s.entries {
        write_string(&e.filter, out);
        let mut o = qos_ok(e.qos, "SUBSCRIBE");
        if v5 {
            assert!(e.retain_handling <= 3, "retain handling {} cannot be represented", e.retain_handling);
            if e.no_local {
                o |= 0x04;
            }
            if e.retain_as_published {
                o |= 0x08;
            }
            o |= e.retain_handling << 4;
        }
        out.push(o);
    }
}

fn enc_suback(v5: bool, s: &Suback, opts: &EncodeOpts, out: &mut Vec<u8>) {
    write_u16(s.pid, out);
    if v5 {
        let mut p = PropList::new();
        p.string(0x1F, &s.reason_string);
        p.user_props(&s.user_props);
        p.finish(opts.prop_order_seed, out);
    }
    out.extend_from_slice(&s.reasons);
}

fn enc_unsubscribe(v5: bool, u: &Unsubscribe, opts: &EncodeOpts, out: &mut Vec<u8>) {
    write_u16(u.pid, out);
    if v5 {
        let mut p = PropList::new();
        p.user_props(&u.user_props);
        p.finish(opts.prop_order_seed, out);
    }
    for f in &u.filters {
        write_string(f, out);
    }
}

fn enc_unsuback(v5: bool, u: &Unsuback, opts: &EncodeOpts, out: &mut Vec<u8>) {
    write_u16(u.pid, out);
    if v5 {
        let mut p = PropList::new();
        p.string(0x1F, &u.reason_string);
        p.user_props(&u.user_props);
        p.finish(opts.prop_order_seed, out);
        out.extend_from_slice(&u.reasons);
    }
}

fn enc_disconnect(v5: bool, d: &Disconnect, opts: &EncodeOpts, out: &mut Vec<u8>) {
    if !v5 {
        return;
    }
    let mut p = PropList::new();
    p.u32(0x11, d.session_expiry);
    p.string(0x1F, &d.reason_string);
    p.string(0x1C, &d.server_reference);
    p.user_props(&d.user_props);
    if !p.is_empty() || opts.explicit_prop_len {
        out.push(d.reason);
        p.finish(opts.prop_order_seed, out);
    } else if d.reason != 0 || opts.explicit_reason {
        out.push(d.reason);
    }
}

fn enc_auth(a: &Auth, opts: &EncodeOpts, out: &mut Vec<u8>) {
    let mut p = PropList::new();
    p.string(0x15, &a.auth_method);
    p.binary(0x16, &a.auth_data);
    p.string(0x1F, &a.reason_string);
    p.user_props(&a.user_props);
    // AUTH has only two legal shapes: remaining length 0, or reason code + property length (+ properties).
    if !p.is_empty() || a.reason != 0 || opts.explicit_reason || opts.explicit_prop_len {
        out.push(a.reason);
        p.finish(opts.prop_order_seed, out);
    }
}

/// Encode any packet (either direction). Panics only on values that cannot be represented at all
/// (string > 65535 bytes, VLI > 268435455, QoS > 2, QoS > 0 PUBLISH without packet identifier, AUTH in
/// MQTT 3.1.1): callers construct valid models. For V311 all V5-only fields are ignored; `Connack.reason`
/// is written as the 3.1.1 return code and `Suback.reasons` as 3.1.1 return codes.
pub fn encode(version: Version, packet: &Packet, opts: &EncodeOpts) -> Vec<u8> {
    let v5 = version == Version::V5;
    let mut body: Vec<u8> = Vec::new();
    let first: u8 = match packet {
        Packet::Connect(c) => {
            enc_connect(v5, c, opts, &mut body);
            0x10
        }
        Packet::Connack(c) => {
            enc_connack(v5, c, opts, &mut body);
            0x20
        }
        Packet::Publish(p) => enc_publish(v5, p, opts, &mut body),
        Packet::Puback(a) => {
            enc_ack(v5, a, opts, &mut body);
            0x40
        }
        Packet::Pubrec(a) => {
            enc_ack(v5, a, opts, &mut body);
            0x50
        }
        Packet::Pubrel(a) => {
            enc_ack(v5, a, opts, &mut body);
            0x62
        }
        Packet::Pubcomp(a) => {
            enc_ack(v5, a, opts, &mut body);
            0x70
        }
        Packet::Subscribe(s) => {
            enc_subscribe(v5, s, opts, &mut body);
            0x82
        }
        Packet::Suback(s) => {
            enc_suback(v5, s, opts, &mut body);
            0x90
        }
        Packet::Unsubscribe(u) => {
            enc_unsubscribe(v5, u, opts, &mut body);
            0xA2
        }
        Packet::Unsuback(u) => {
            enc_unsuback(v5, u, opts, &mut body);
            0xB0
        }
        Packet::Pingreq => 0xC0,
        Packet::Pingresp => 0xD0,
        Packet::Disconnect(d) => {
            enc_disconnect(v5, d, opts, &mut body);
            0xE0
        }
        Packet::Auth(a) => {
            assert!(v5, "AUTH does not exist in MQTT 3.1.1 and cannot be represented");
            enc_auth(a, opts, &mut body);
            0xF0
        }
    };
    assert!(
        body.len() <= VLI_MAX as usize,
        "remaining length {} exceeds 268435455 and cannot be represented",
        body.len()
    );
    let mut out = Vec::with_capacity(1 + vli_len(body.len() as u32) + body.len());
    out.push(first);
    encode_vli(body.len() as u32, &mut out);
    out.extend_from_slice(&body);
    out
}
