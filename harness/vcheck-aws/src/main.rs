//! vcheck-aws: C20 - AWS IoT builder: safe client id, intact custom-auth parameters, 3.1.1 defaults if unset.
#![allow(dead_code, unused_variables, clippy::all)]

#[path = "../../vcheck/src/abs.rs"]
mod abs;
#[path = "../../vcheck/src/panichook.rs"]
mod panichook;
#[path = "../../vcheck/src/runner.rs"]
mod runner;
mod sim {
    use gneiss_mqtt::mqtt::QualityOfService;
    pub fn qos_of(q: u8) -> QualityOfService {
        match q {
            0 => QualityOfService::AtMostOnce,
            1 => QualityOfService::AtLeastOnce,
            _ => QualityOfService::ExactlyOnce,
        }
    }
}

use abs::*;
use gneiss_mqtt::client::config::*;
use gneiss_mqtt::verif as gv;
use gneiss_mqtt_aws::{AwsClientBuilder, AwsCustomAuthOptions};
use panichook::guarded;
use proptest::option;
use proptest::prelude::*;
use runner::{hash_str, run_property, CaseReport, Property, RunOptions, Tier, Violation};
use serde::{Deserialize, Serialize};
use serde_json::json;
use std::time::Duration;

#[derive(Clone, Debug, Serialize, Deserialize, PartialEq, Eq)]
pub struct AuthSpec {
    pub authorizer: Option<String>,
    /// Some((raw signature, supplied pre-encoded?, token key name, token key value))
    pub signed: Option<(String, bool, String, String)>,
    pub username: Option<String>,
    pub password: Option<Vec<u8>>,
    /// how a pre-encoded signature is spelled: bit (i % 32) set => the i-th escape uses lower-case hex digits;
    /// a non-zero upper half => some unreserved characters are escaped too (legal percent-encoding, RFC 3986 2.1 / 2.3)
    #[serde(default)]
    pub pre_style: u64,
}

#[derive(Clone, Debug, Serialize, Deserialize, PartialEq, Eq)]
pub struct ClientSpec {
    pub v5: bool,
    /// None: not set by the user; Some(false): set to None; Some(true): set to OneAtATime
    pub drain: Option<bool>,
    pub retries: Option<u32>,
    pub offline: u8,
    pub connect_timeout_ms: u32,
    pub ping_timeout_ms: u32,
    pub base_ms: u32,
    pub max_ms: u32,
    pub stability_ms: u32,
    pub jitter_none: bool,
    pub resolver: bool,
}

#[derive(Clone, Debug, Serialize, Deserialize, PartialEq, Eq)]
pub struct C20Case {
    /// None: mTLS builder (no custom auth)
    pub auth: Option<AuthSpec>,
    pub connect: Option<AbsConnect>,
    pub client: Option<ClientSpec>,
}

pub struct C20;

fn uri_safe() -> BoxedStrategy<String> {
    prop_oneof![4 => "[A-Za-z0-9_.~-]{1,16}", 1 => "[A-Za-z0-9_.~-]{0,6}(%[0-9A-F]{2}[A-Za-z0-9]{0,4}){1,3}"].boxed()
}

fn base64ish() -> BoxedStrategy<String> {
    prop_oneof![3 => "[A-Za-z0-9+/]{4,60}={0,2}", 1 => "[A-Za-z0-9]{4,40}", 1 => "[+/]{1,8}=="].boxed()
}

fn auth_strategy() -> BoxedStrategy<AuthSpec> {
    (option::weighted(0.8, uri_safe()), option::weighted(0.6, (base64ish(), any::<bool>(), uri_safe(), uri_safe())), option::weighted(0.6, prop_oneof![3 => "[a-zA-Z0-9_ -]{0,12}", 1 => "[a-z]{0,5}\\?[a-z=&]{0,6}", 1 => "[\u{e9}\u{4e16}a-z]{1,6}"]), option::weighted(0.5, proptest::collection::vec(any::<u8>(), 0..24)), prop_oneof![3 => Just(0u64), 2 => any::<u32>().prop_map(|x| x as u64), 1 => Just(0xffff_ffffu64), 2 => any::<u64>()])
        .prop_map(|(authorizer, signed, username, password, pre_style)| AuthSpec { authorizer, signed, username, password, pre_style })
        .boxed()
}

fn client_strategy() -> BoxedStrategy<ClientSpec> {
    (any::<bool>(), option::weighted(0.5, any::<bool>()), option::weighted(0.5, prop_oneof![Just(0u32), Just(2u32), Just(7u32)]), 0u8..4, (1u32..100_000, 1u32..100_000, 1u32..10_000, 1000u32..200_000, 0u32..100_000), any::<bool>(), any::<bool>())
        .prop_map(|(v5, drain, retries, offline, (connect_timeout_ms, ping_timeout_ms, base_ms, max_ms, stability_ms), jitter_none, resolver)| ClientSpec { v5, drain, retries, offline, connect_timeout_ms, ping_timeout_ms, base_ms, max_ms, stability_ms, jitter_none, resolver })
        .boxed()
}

fn build_client_options(c: &ClientSpec) -> MqttClientOptions {
    let mut b = MqttClientOptions::builder();
    b.with_protocol_mode(if c.v5 { ProtocolMode::Mqtt5 } else { ProtocolMode::Mqtt311 });
    if let Some(d) = c.drain {
        b.with_post_reconnect_queue_drain_policy(if d { PostReconnectQueueDrainPolicy::OneAtATime } else { PostReconnectQueueDrainPolicy::None });
    }
    if let Some(r) = c.retries {
        b.with_max_interrupted_retries(r);
    }
    b.with_offline_queue_policy(match c.offline {
        0 => OfflineQueuePolicy::PreserveAll,
        1 => OfflineQueuePolicy::PreserveAcknowledged,
        2 => OfflineQueuePolicy::PreserveQos1PlusPublishes,
        _ => OfflineQueuePolicy::PreserveNothing,
    });
    b.with_connect_timeout(Duration::from_millis(c.connect_timeout_ms as u64));
    b.with_ping_timeout(Duration::from_millis(c.ping_timeout_ms as u64));
    b.with_base_reconnect_period(Duration::from_millis(c.base_ms as u64));
    b.with_max_reconnect_period(Duration::from_millis(c.max_ms as u64));
    b.with_reconnect_stability_reset_period(Duration::from_millis(c.stability_ms as u64));
    b.with_reconnect_period_jitter(if c.jitter_none { ExponentialBackoffJitterType::None } else { ExponentialBackoffJitterType::Uniform });
    if c.resolver {
        b.with_outbound_alias_resolver_factory(gneiss_mqtt::alias::OutboundAliasResolverFactory::new_lru_factory(5));
    }
    b.build()
}

fn pct_decode(s: &str) -> Option<Vec<u8>> {
    let b = s.as_bytes();
    let mut out = Vec::new();
    let mut i = 0;
    while i < b.len() {
        if b[i] == b'%' {
            if i + 2 >= b.len() + 0 && i + 2 > b.len() - 0 {
                return None;
            }
            if i + 2 >= b.len() + 1 {
                return None;
            }
            let h = std::str::from_utf8(b.get(i + 1..i + 3)?).ok()?;
            out.push(u8::from_str_radix(h, 16).ok()?);
            i += 3;
        } else {
            out.push(b[i]);
            i += 1;
        }
    }
    Some(out)
}

fn pct_encode_all_reserved(s: &str) -> String {
    // RFC 3986: everything except unreserved characters
    let mut out = String::new();
    for b in s.bytes() {
        if b.is_ascii_alphanumeric() || b == b'-' || b == b'_' || b == b'.' || b == b'~' {
            out.push(b as char);
        } else {
            out.push_str(&format!("%{:02X}", b));
        }
    }
    out
}

/// a pre-encoded spelling of `s`: reserved characters always escaped, hex-digit case and optional escapes of
/// unreserved characters chosen by `style` (see AuthSpec::pre_style); style 0 = upper-case, reserved only
fn pct_encode_styled(s: &str, style: u64) -> String {
    let mut out = String::new();
    let mut escapes = 0u32;
    for (i, b) in s.bytes().enumerate() {
        let unreserved = b.is_ascii_alphanumeric() || b == b'-' || b == b'_' || b == b'.' || b == b'~';
        let extra = (style >> 32) != 0 && ((style >> 32).wrapping_mul(0x9E37_79B9).wrapping_add(i as u64 * 0x85EB_CA6B) >> 7) % 6 == 0;
        if unreserved && !extra {
            out.push(b as char);
        } else {
            let lower = (style >> (escapes % 32)) & 1 == 1;
            escapes += 1;
            if lower {
                out.push_str(&format!("%{:02x}", b));
            } else {
                out.push_str(&format!("%{:02X}", b));
            }
        }
    }
    out
}

fn make_builder(case: &C20Case) -> Result<(AwsClientBuilder, Option<(String, Option<Vec<u8>>)>), String> {
    let mut auth_result = None;
    let builder = match &case.auth {
        Some(a) => {
            let mut ab = match &a.signed {
                Some((raw, pre, key, value)) => {
                    let supplied = if *pre { pct_encode_styled(raw, a.pre_style) } else { raw.clone() };
                    AwsCustomAuthOptions::builder_signed(a.authorizer.as_deref(), &supplied, key, value)
                }
                None => AwsCustomAuthOptions::builder_unsigned(a.authorizer.as_deref()),
            };
            if let Some(u) = &a.username {
                ab.with_username(u);
            }
            if let Some(p) = &a.password {
                ab.with_password(p);
            }
            let options = ab.build();
            auth_result = Some((options.verif_username().to_string(), options.verif_password().map(|p| p.to_vec())));
            AwsClientBuilder::new_direct_with_custom_auth("example-ats.iot.us-east-1.amazonaws.com", options, None).map_err(|e| format!("{}", e))?
        }
        None => AwsClientBuilder::new_direct_with_mtls_from_memory("example-ats.iot.us-east-1.amazonaws.com", b"not a certificate", b"not a key", None).map_err(|e| format!("{}", e))?,
    };
    let builder = match &case.connect {
        Some(c) => builder.with_connect_options(c.build()),
        None => builder,
    };
    let builder = match &case.client {
        Some(c) => builder.with_client_options(build_client_options(c)),
        None => builder,
    };
    Ok((builder, auth_result))
}

impl Property for C20 {
    type Case = C20Case;

    fn id(&self) -> &'static str {
        "C20"
    }

    fn strategy(&self, _tier: Tier) -> BoxedStrategy<C20Case> {
        (option::weighted(0.7, auth_strategy()), option::weighted(0.8, connect_strategy()), option::weighted(0.8, client_strategy()))
            .prop_map(|(auth, connect, client)| {
                // keep connect options small: byte lengths beyond a few hundred add nothing here
                let connect = connect.map(|mut c| {
                    if let Some(id) = &mut c.client_id {
                        id.len = id.len.min(64);
                    }
                    if let Some(u) = &mut c.username {
                        u.len = u.len.min(64);
                    }
                    if let Some(p) = &mut c.password {
                        p.len = p.len.min(64);
                    }
                    if let Some(w) = &mut c.will {
                        if let Some(p) = &mut w.payload {
                            p.len = p.len.min(64);
                        }
                        for t in &mut w.topic {
                            t.len = t.len.min(16).max(1);
                        }
                        w.user_props.truncate(2);
                        for (a, b) in &mut w.user_props {
                            a.len = a.len.min(16);
                            b.len = b.len.min(16);
                        }
                        w.correlation = None;
                        w.content_type = None;
                        w.response_topic = None;
                    }
                    c.user_props.truncate(3);
                    for (a, b) in &mut c.user_props {
                        a.len = a.len.min(16);
                        b.len = b.len.min(16);
                    }
                    c
                });
                C20Case { auth, connect, client }
            })
            .boxed()
    }

    fn check(&self, case: &C20Case) -> CaseReport {
        let mut violations = Vec::new();
        let mut labels: Vec<String> = Vec::new();
        let built = guarded(|| {
            let (b, auth) = make_builder(case)?;
            let c1 = b.verif_final_connect_options();
            let c2 = b.verif_final_connect_options();
            let cl = b.verif_final_client_options();
            Ok::<_, String>((gv::connect_options_view(&c1), gv::connect_options_view(&c2), gv::client_options_view(&cl), auth))
        });
        let (c1, c2, cl, auth) = match built {
            Err((msg, loc)) => {
                violations.push(Violation::new("C20.panic", "the AWS builder panics", format!("{} at {}", msg, loc)));
                return CaseReport { violations, nontrivial: true, digest: 1, ..Default::default() };
            }
            Ok(Err(e)) => {
                violations.push(Violation::new("C20.build_error", "the AWS builder fails for a valid configuration", e));
                return CaseReport { violations, nontrivial: true, digest: 2, ..Default::default() };
            }
            Ok(Ok(x)) => x,
        };
        let user_view = case.connect.as_ref().map(|c| gv::connect_options_view(&c.build()));
        let user_id: Option<String> = user_view.as_ref().and_then(|v| v.client_id.clone());

        // --- client id
        match &c1.client_id {
            None => violations.push(Violation::new("C20.client_id_empty", "the final connect options have no client id", String::new())),
            Some(id) if id.is_empty() => violations.push(Violation::new("C20.client_id_empty", "the final connect options have an empty client id", format!("user supplied {:?}", user_id))),
            Some(id) => {
                match &user_id {
                    Some(u) if !u.is_empty() => {
                        if id != u {
                            violations.push(Violation::new("C20.client_id_replaced", "a user-supplied client id was replaced", format!("user {:?} final {:?}", u, id)));
                        }
                    }
                    _ => {
                        labels.push("client_id_generated".into());
                        if c2.client_id.as_ref() == Some(id) {
                            violations.push(Violation::new("C20.client_id_not_fresh", "two builds without a user client id produce the same generated id", format!("{:?}", id)));
                        }
                    }
                }
            }
        }
        // --- every other connect option unchanged
        let base = user_view.clone().unwrap_or_else(|| gv::connect_options_view(&ConnectOptions::builder().build()));
        let mut cmp_final = c1.clone();
        let mut cmp_user = base.clone();
        cmp_final.client_id = None;
        cmp_user.client_id = None;
        if case.auth.is_some() {
            // custom auth supplies user name and (if set) password
            cmp_final.username = None;
            cmp_user.username = None;
            if auth.as_ref().map(|a| a.1.is_some()).unwrap_or(false) {
                cmp_final.password = None;
                cmp_user.password = None;
            }
        }
        if format!("{:?}", cmp_final) != format!("{:?}", cmp_user) {
            violations.push(Violation::new("C20.connect_option_changed", "a user-supplied connect option other than the client id was changed", format!("user {:?} final {:?}", cmp_user, cmp_final)));
        }
        // --- custom auth
        if let (Some(a), Some((final_username, final_password))) = (&case.auth, &auth) {
            labels.push(if a.signed.is_some() { "custom_auth_signed".into() } else { "custom_auth_unsigned".into() });
            if c1.username.as_deref() != Some(final_username.as_str()) {
                violations.push(Violation::new("C20.auth_username_not_applied", "the CONNECT user name is not the custom-auth user name", format!("{:?} vs {:?}", c1.username, final_username)));
            }
            if a.password.is_some() && c1.password != *final_password {
                violations.push(Violation::new("C20.auth_password_not_applied", "the CONNECT password is not the custom-auth password", String::new()));
            }
            if final_password != &a.password {
                violations.push(Violation::new("C20.auth_password_changed", "the custom-auth password differs from the configured one", String::new()));
            }
            let user_part = a.username.clone().unwrap_or_default();
            let prefix = format!("{}?", user_part);
            if !final_username.starts_with(&prefix) {
                violations.push(Violation::new("C20.auth_username_prefix", "the CONNECT user name does not start with the user's user name followed by '?'", format!("user {:?} final {:?}", user_part, final_username)));
            } else {
                let query = &final_username[prefix.len()..];
                let mut params: Vec<(String, String)> = Vec::new();
                let mut malformed = false;
                if !query.is_empty() {
                    for part in query.split('&') {
                        match part.split_once('=') {
                            Some((k, v)) if !k.is_empty() => params.push((k.to_string(), v.to_string())),
                            _ => malformed = true,
                        }
                    }
                }
                if malformed {
                    violations.push(Violation::new("C20.query_malformed", "the custom-auth query string is not a well-formed key=value list", format!("{:?}", query)));
                }
                let get = |k: &str| params.iter().find(|(a, _)| a == k).map(|(_, v)| v.clone());
                match (&a.authorizer, get("x-amz-customauthorizer-name")) {
                    (Some(n), Some(v)) => {
                        if pct_decode(&v) != pct_decode(n) {
                            violations.push(Violation::new("C20.authorizer_name", "the authorizer name in the query string does not decode back to the configured name", format!("configured {:?} query {:?}", n, v)));
                        }
                    }
                    (Some(n), None) => violations.push(Violation::new("C20.authorizer_name", "the authorizer name is missing from the query string", format!("{:?} in {:?}", n, query))),
                    (None, Some(v)) => violations.push(Violation::new("C20.authorizer_name", "an authorizer name appears although none was configured", v)),
                    (None, None) => {}
                }
                if let Some((raw, pre, key, value)) = &a.signed {
                    labels.push(if *pre { "signature_pre_encoded".into() } else { "signature_raw".into() });
                    if *pre && a.pre_style != 0 {
                        let supplied = pct_encode_styled(raw, a.pre_style);
                        if supplied != pct_encode_all_reserved(raw) {
                            labels.push("signature_pre_encoded_nonuniform_spelling".into());
                        }
                    }
                    if raw.contains('+') || raw.contains('/') || raw.contains('=') {
                        labels.push("signature_has_reserved_chars".into());
                    }
                    match get("x-amz-customauthorizer-signature") {
                        None => violations.push(Violation::new("C20.signature", "the signature is missing from the query string", query.to_string())),
                        Some(v) => {
                            let decoded = pct_decode(&v);
                            if decoded.as_deref() != Some(raw.as_bytes()) {
                                violations.push(Violation::new("C20.signature", format!("the signature is not percent-encoded exactly once (supplied {})", if *pre { "pre-encoded" } else { "raw" }), format!("raw {:?} query value {:?}", raw, v)));
                            } else if v.contains('+') || v.contains('/') || v.contains('=') {
                                violations.push(Violation::new("C20.signature", "the signature in the query string still contains reserved characters", format!("raw {:?} query value {:?}", raw, v)));
                            }
                        }
                    }
                    match get(key) {
                        None => violations.push(Violation::new("C20.token", "the token key is missing from the query string", format!("{:?} in {:?}", key, query))),
                        Some(v) => {
                            if pct_decode(&v) != pct_decode(value) {
                                violations.push(Violation::new("C20.token", "the token value in the query string does not decode back to the configured value", format!("configured {:?} query {:?}", value, v)));
                            }
                        }
                    }
                }
            }
        }
        // --- client options
        let user_client = case.client.as_ref().map(|c| gv::client_options_view(&build_client_options(c))).unwrap_or_else(|| gv::client_options_view(&MqttClientOptions::builder().build()));
        let is311 = matches!(user_client.protocol_mode, ProtocolMode::Mqtt311);
        let neither = user_client.post_reconnect_queue_drain_policy.is_none() && user_client.max_interrupted_retries.is_none();
        let expect_defaults = is311 && neither;
        let (exp_drain, exp_retries) = if expect_defaults { (Some(PostReconnectQueueDrainPolicy::OneAtATime), Some(2)) } else { (user_client.post_reconnect_queue_drain_policy, user_client.max_interrupted_retries) };
        if cl.post_reconnect_queue_drain_policy != exp_drain || cl.max_interrupted_retries != exp_retries {
            violations.push(Violation::new("C20.aws_defaults", format!("3.1.1 defaults applied wrongly (311={} drain set={} retries set={})", is311, user_client.post_reconnect_queue_drain_policy.is_some(), user_client.max_interrupted_retries.is_some()), format!("expected {:?}/{:?} got {:?}/{:?}", exp_drain, exp_retries, cl.post_reconnect_queue_drain_policy, cl.max_interrupted_retries)));
        }
        let mut a = cl.clone();
        let mut b = user_client.clone();
        a.post_reconnect_queue_drain_policy = None;
        a.max_interrupted_retries = None;
        b.post_reconnect_queue_drain_policy = None;
        b.max_interrupted_retries = None;
        if format!("{:?}", a) != format!("{:?}", b) {
            violations.push(Violation::new("C20.client_option_changed", "a user-supplied client option was changed", format!("user {:?} final {:?}", b, a)));
        }
        if expect_defaults {
            labels.push("aws_311_defaults_applied".into());
        }
        if is311 && !neither {
            labels.push("311_user_override".into());
        }
        if matches!(&user_id, Some(u) if u.is_empty()) {
            labels.push("explicit_empty_client_id".into());
        }
        let nontrivial = case.auth.as_ref().map(|a| a.signed.is_some()).unwrap_or(false) || is311 || user_id.is_none() || matches!(&user_id, Some(u) if u.is_empty());
        let digest = hash_str(&format!("{:?}", case));
        let sample = json!({"auth": case.auth, "user_client_id": user_id, "final_client_id": c1.client_id, "final_username": c1.username, "client": case.client});
        CaseReport { violations, labels, nontrivial, digest, sample: Some(sample), ..Default::default() }
    }

    fn cases_per_shard(&self, tier: Tier) -> u32 {
        match tier {
            Tier::Quick => 6000,
            Tier::Thorough => 150_000,
        }
    }

    fn rule_text(&self) -> String {
        "AWS builder inputs: authorizer names and token key names/values over the URI-safe alphabet plus valid %XX escapes, signatures = base64-like strings (with +, /, =) supplied raw or percent-encoded (escapes in upper-, lower- or mixed-case hex, optionally escaping unreserved characters as well), user names incl. '?', '&', '=' and multi-byte characters, arbitrary binary passwords, user connect options over every field (client id absent / empty / given) and client options over protocol mode x drain policy set/unset x retries set/unset x every other field; oracle: client id non-empty, the user's when non-empty, fresh per build otherwise, every other connect / client option unchanged, user name = user's + '?' + query that parses (split '&', first '=', one percent-decode) back to the configured authorizer name, token key -> value and to the RAW signature in both input forms, OneAtATime + 2 retries iff (3.1.1 and neither set); non-trivial = signed custom auth, or 3.1.1 mode, or no / empty user client id; distinct = hash of the case".to_string()
    }

    fn assumptions(&self) -> Vec<String> {
        vec!["token names/values and authorizer names are generated from the domain the API documents (already URI-encoded by the caller)".into(), "read-only `verif_*` accessors expose what build_tokio/build_threaded would pass on; no network or TLS context is created".into()]
    }
}

fn main() {
    panichook::install();
    let args: Vec<String> = std::env::args().collect();
    if args.len() < 2 || args[1] != "C20" {
        eprintln!("usage: vcheck-aws C20 [--tier quick|thorough] [--seed N] [--replay path] [--root /verif]");
        std::process::exit(2);
    }
    let mut tier = match std::env::var("VERIF_TIER").ok().as_deref() {
        Some("thorough") => Tier::Thorough,
        _ => Tier::Quick,
    };
    let mut seed: u64 = std::env::var("VERIF_SEED").ok().and_then(|s| s.parse::<i128>().ok()).map(|v| v as u64).unwrap_or(20260923);
    let mut replay = None;
    let mut shards = std::thread::available_parallelism().map(|n| n.get()).unwrap_or(8).min(16);
    let mut cases_override = None;
    let mut strict = false;
    let mut root = "/verif".to_string();
    let mut i = 2;
    while i < args.len() {
        match args[i].as_str() {
            "--tier" => {
                i += 1;
                tier = if args.get(i).map(|s| s.as_str()) == Some("thorough") { Tier::Thorough } else { Tier::Quick };
            }
            "--seed" => {
                i += 1;
                seed = args.get(i).and_then(|s| s.parse::<i128>().ok()).map(|v| v as u64).unwrap_or(seed);
            }
            "--replay" => {
                i += 1;
                replay = args.get(i).cloned();
            }
            "--shards" => {
                i += 1;
                shards = args.get(i).and_then(|s| s.parse().ok()).unwrap_or(shards);
            }
            "--cases" => {
                i += 1;
                cases_override = args.get(i).and_then(|s| s.parse().ok());
            }
            "--strict" => strict = true,
            "--root" => {
                i += 1;
                root = args.get(i).cloned().unwrap_or(root);
            }
            _ => {}
        }
        i += 1;
    }
    let opts = RunOptions { tier, seed, shards, verif_root: root, replay, cases_override, strict, fuzz_bin: None, fuzz_secs: 0, fuzz_driver: None };
    std::process::exit(run_property(&C20, &opts));
}
