fn main(){}
