//! One libFuzzer target for all sans-IO properties: VERIF_FUZZ_PROP selects the property, the input bytes
//! are the random stream of that property's proptest strategy, the oracle is the property's `check`.
#![no_main]

use libfuzzer_sys::fuzz_target;
use std::cell::RefCell;
use vcheck::fuzzrun::{session, FuzzOne};

thread_local! {
    static SESSION: RefCell<Option<Box<dyn FuzzOne>>> = RefCell::new(None);
}

fn with_session<R>(f: impl FnOnce(&mut Box<dyn FuzzOne>) -> R) -> R {
    SESSION.with(|s| {
        let mut s = s.borrow_mut();
        if s.is_none() {
            vcheck::panichook::install();
            let id = std::env::var("VERIF_FUZZ_PROP").unwrap_or_else(|_| "C01".to_string());
            let root = std::env::var("VERIF_ROOT").unwrap_or_else(|_| "/verif".to_string());
            let strict = std::env::var("VERIF_STRICT").map(|v| v == "1").unwrap_or(false);
            match session(&id, &root, strict) {
                Some(x) => *s = Some(x),
                None => {
                    eprintln!("HARNESS-ERROR: property {} has no fuzz session", id);
                    std::process::exit(2);
                }
            }
        }
        f(s.as_mut().unwrap())
    })
}

extern "C" fn at_exit() {
    let _ = std::panic::catch_unwind(|| with_session(|s| s.flush()));
}

extern "C" {
    fn atexit(cb: extern "C" fn()) -> i32;
}

static REGISTER: std::sync::Once = std::sync::Once::new();

fuzz_target!(|data: &[u8]| {
    REGISTER.call_once(|| unsafe {
        atexit(at_exit);
    });
    let found = with_session(|s| s.one(data));
    if found.is_some() {
        // abort so that libFuzzer stores the input as a crash artifact and stops this worker
        std::process::abort();
    }
});
