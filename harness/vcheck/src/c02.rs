//! C02 - outbound packets are spec-conformant, carry exactly what the user supplied, and do not depend
//! on how the output buffer space offered to the encoder is fragmented.

use crate::abs::*;
use crate::panichook::guarded;
use crate::runner::{hash_str, CaseReport, Property, Tier, Violation};
use gneiss_mqtt::client::config::ProtocolMode;
use gneiss_mqtt::verif as gv;
use proptest::collection::vec;
use proptest::prelude::*;
use refmqtt as rf;
use serde::{Deserialize, Serialize};
use serde_json::json;

#[derive(Clone, Debug, Serialize, Deserialize, PartialEq, Eq)]
pub enum Caps {
    Huge,
    Const(usize),
    Seq(Vec<usize>),
}

impl Caps {
    fn as_vec(&self) -> Vec<usize> {
        match self {
            Caps::Huge => vec![64 * 1024 * 1024],
            Caps::Const(c) => vec![*c],
            Caps::Seq(v) => v.clone(),
        }
    }
}

#[derive(Clone, Debug, Serialize, Deserialize, PartialEq, Eq)]
pub struct C02Case {
    pub v5: bool,
    pub packet: AbsPacket,
    pub pid: u16,
    pub dup: bool,
    /// 0 none, 1 alias + topic, 2 alias + topic skipped
    pub alias_mode: u8,
    pub alias: u16,
    pub caps: Vec<Caps>,
    /// PUBLISH only: pad the payload so that the remaining length becomes exactly this value
    pub target_remaining: Option<u32>,
}

pub struct C02;

fn caps_strategy() -> BoxedStrategy<Caps> {
    prop_oneof![
        3 => prop_oneof![Just(4usize), Just(5usize), Just(6usize), Just(7usize), Just(8usize), Just(13usize), Just(4096usize)].prop_map(Caps::Const),
        2 => vec(prop_oneof![4usize..12, 4usize..80, Just(4usize), Just(4096usize)], 1..12).prop_map(Caps::Seq),
    ]
    .boxed()
}

fn boundary() -> BoxedStrategy<u32> {
    prop_oneof![Just(127u32), Just(128u32), Just(16383u32), Just(16384u32), Just(2_097_151u32), Just(2_097_152u32)].boxed()
}

fn mode(v5: bool) -> ProtocolMode {
    if v5 {
        ProtocolMode::Mqtt5
    } else {
        ProtocolMode::Mqtt311
    }
}

impl C02Case {
    fn to_out(&self) -> (gv::OutPacket, AbsPacket) {
        // apply boundary padding first (two-pass): measure with the reference encoder, then pad the payload
        let mut packet = self.packet.clone();
        if let AbsPacket::Connect(c) = &mut packet {
            // a server cannot answer a client whose maximum packet size is smaller than a CONNACK: no earlier successful connection then
            if c.maximum_packet_size.map_or(false, |m| m < 64) {
                c.connected_previously = false;
            }
        }
        if let (Some(target), AbsPacket::Publish(p)) = (self.target_remaining, &mut packet) {
            let (skip, alias) = self.alias_params();
            let exp = p.expected(self.v5, self.pid.max(1), self.dup && p.qos > 0, skip, alias);
            let bytes = rf::encode(if self.v5 { rf::Version::V5 } else { rf::Version::V311 }, &rf::Packet::Publish(exp), &rf::EncodeOpts::default());
            if let Ok(Some((_, remaining, _))) = rf::peek_fixed_header(&bytes) {
                let cur_payload = p.payload.as_ref().map(|b| b.len).unwrap_or(0);
                let wanted = cur_payload as i64 + target as i64 - remaining as i64;
                if wanted >= 1 {
                    let seed = p.payload.as_ref().map(|b| b.seed).unwrap_or(7);
                    p.payload = Some(B { len: wanted as u32, seed });
                }
            }
        }
        let out = match &packet {
            AbsPacket::Publish(p) => gv::OutPacket::Publish(p.build()),
            AbsPacket::Subscribe(s) => gv::OutPacket::Subscribe(s.build()),
            AbsPacket::Unsubscribe(u) => gv::OutPacket::Unsubscribe(u.build()),
            AbsPacket::Disconnect(d) => gv::OutPacket::Disconnect(d.build()),
            AbsPacket::Connect(c) => gv::OutPacket::Connect { options: c.build(), connected_previously: c.connected_previously },
            AbsPacket::Puback => gv::OutPacket::Puback(self.pid.max(1)),
            AbsPacket::Pubrec => gv::OutPacket::Pubrec(self.pid.max(1)),
            AbsPacket::Pubrel => gv::OutPacket::Pubrel(self.pid.max(1)),
            AbsPacket::Pubcomp => gv::OutPacket::Pubcomp(self.pid.max(1)),
            AbsPacket::Pingreq => gv::OutPacket::Pingreq,
        };
        (out, packet)
    }

    fn alias_params(&self) -> (bool, Option<u16>) {
        if !matches!(self.packet, AbsPacket::Publish(_)) {
            return (false, None);
        }
        match self.alias_mode % 3 {
            0 => (false, None),
            1 => (false, Some(self.alias.max(1))),
            _ => (true, Some(self.alias.max(1))),
        }
    }

    fn expected(&self, packet: &AbsPacket) -> rf::Packet {
        let pid = self.pid.max(1);
        let (skip, alias) = self.alias_params();
        match packet {
            AbsPacket::Publish(p) => rf::Packet::Publish(p.expected(self.v5, pid, self.dup && p.qos > 0, skip && self.v5, if self.v5 { alias } else { None })),
            AbsPacket::Subscribe(s) => rf::Packet::Subscribe(s.expected(self.v5, pid)),
            AbsPacket::Unsubscribe(u) => rf::Packet::Unsubscribe(u.expected(self.v5, pid)),
            AbsPacket::Disconnect(d) => rf::Packet::Disconnect(d.expected(self.v5)),
            AbsPacket::Connect(c) => rf::Packet::Connect(c.expected(self.v5, if self.v5 { Some(ASSIGNED_ID) } else { None })),
            AbsPacket::Puback => rf::Packet::Puback(rf::Ack { pid, ..Default::default() }),
            AbsPacket::Pubrec => rf::Packet::Pubrec(rf::Ack { pid, ..Default::default() }),
            AbsPacket::Pubrel => rf::Packet::Pubrel(rf::Ack { pid, ..Default::default() }),
            AbsPacket::Pubcomp => rf::Packet::Pubcomp(rf::Ack { pid, ..Default::default() }),
            AbsPacket::Pingreq => rf::Packet::Pingreq,
        }
    }
}

pub const ASSIGNED_ID: &str = "srv-assigned-\u{e9}";

/// CONNECT bytes as the protocol engine emits them on a (re)connection: if `connected_previously`, a first connection
/// is completed (the server assigns a client id when none is configured), closed, and the CONNECT of the second
/// connection is captured.  `caps` are the free-space sizes offered to successive service calls.
fn connect_bytes_engine(c: &AbsConnect, v5: bool, caps: &[usize]) -> Result<(Vec<u8>, usize), String> {
    use gneiss_mqtt::client::config::{OfflineQueuePolicy, PostReconnectQueueDrainPolicy};
    use std::time::Duration;
    let mut eng = gv::Engine::new(gv::EngineConfig {
        connect_options: c.build(),
        offline_queue_policy: OfflineQueuePolicy::PreserveAll,
        ping_timeout: Duration::from_secs(10),
        outbound_alias_resolver_factory: None,
        protocol_mode: mode(v5),
        post_reconnect_queue_drain_policy: PostReconnectQueueDrainPolicy::None,
        max_interrupted_retries: None,
    });
    let t = Duration::from_millis(0);
    let deadline = Duration::from_secs(30);
    let run_connect = |eng: &mut gv::Engine, caps: &[usize]| -> Result<(Vec<u8>, usize), String> {
        let mut out = Vec::new();
        let mut calls = 0usize;
        loop {
            let cap = if caps.is_empty() { 64 * 1024 * 1024 } else { caps[calls.min(caps.len() - 1)] };
            let mut buf: Vec<u8> = Vec::with_capacity(cap);
            eng.service(t, &mut buf).map_err(|e| format!("service failed: {}", e))?;
            calls += 1;
            if buf.is_empty() {
                return Err("service produced no bytes before the CONNECT was complete".to_string());
            }
            out.extend_from_slice(&buf);
            eng.write_complete(t).map_err(|e| format!("write completion failed: {}", e))?;
            let snap = eng.snapshot();
            if snap.current_operation.is_none() && snap.high_priority_operation_queue.is_empty() {
                return Ok((out, calls));
            }
            if calls > 2_000_000 {
                return Err("CONNECT never completes".to_string());
            }
        }
    };
    if c.connected_previously {
        eng.open(t, deadline).map_err(|e| format!("open failed: {}", e))?;
        let (first, _) = run_connect(&mut eng, &[])?;
        let version = if v5 { rf::Version::V5 } else { rf::Version::V311 };
        // the server only assigns an id when the CONNECT carried none
        let assigned = match rf::decode(version, rf::Direction::ClientToServer, &first) {
            Ok((rf::Packet::Connect(cn), _)) if cn.client_id.is_empty() && v5 => Some(ASSIGNED_ID.to_string()),
            _ => None,
        };
        let ck = rf::Connack { assigned_client_id: assigned, ..Default::default() };
        let bytes = rf::encode(version, &rf::Packet::Connack(ck), &rf::EncodeOpts::default());
        eng.incoming(t, &bytes).map_err(|e| format!("CONNACK rejected: {}", e))?;
        eng.close(t).map_err(|e| format!("close failed: {}", e))?;
    }
    eng.open(t, deadline).map_err(|e| format!("open failed: {}", e))?;
    run_connect(&mut eng, caps)
}

fn encode_case(out: &gv::OutPacket, abs: &AbsPacket, pid: u16, dup: bool, v5: bool, skip: bool, alias: Option<u16>, caps: &[usize]) -> Result<Result<(Vec<u8>, usize), String>, (String, String)> {
    match abs {
        AbsPacket::Connect(c) => guarded(|| connect_bytes_engine(c, v5, caps)),
        _ => guarded(|| gv::encode_packet(out, pid, dup, mode(v5), skip, alias, caps).map_err(|e| format!("{}", e))),
    }
}

fn describe_diff(exp: &rf::Packet, got: &rf::Packet) -> String {
    let e = format!("{:?}", exp);
    let g = format!("{:?}", got);
    let common = e.bytes().zip(g.bytes()).take_while(|(a, b)| a == b).count();
    let from = common.saturating_sub(60);
    format!("first difference at char {}: expected ...{}... got ...{}...", common, &e[from..e.len().min(common + 80)], &g[from.min(g.len())..g.len().min(common + 80)])
}

fn first_diff_field(exp: &rf::Packet, got: &rf::Packet) -> String {
    // name of the first differing field, for a stable signature
    let e = format!("{:?}", exp);
    let g = format!("{:?}", got);
    let common = e.bytes().zip(g.bytes()).take_while(|(a, b)| a == b).count();
    let prefix = &e[..common.min(e.len())];
    // the last "name:" before the difference
    let mut name = "packet";
    let mut idx = 0;
    let bytes = prefix.as_bytes();
    for (i, w) in prefix.char_indices() {
        if w == ':' {
            // walk back over identifier chars
            let mut j = i;
            while j > 0 && (bytes[j - 1].is_ascii_alphanumeric() || bytes[j - 1] == b'_') {
                j -= 1;
            }
            if j < i {
                idx = j;
                name = &prefix[j..i];
            }
        }
    }
    let _ = idx;
    name.to_string()
}

impl Property for C02 {
    type Case = C02Case;

    fn id(&self) -> &'static str {
        "C02"
    }

    fn strategy(&self, _tier: Tier) -> BoxedStrategy<C02Case> {
        (any::<bool>(), packet_strategy(), prop_oneof![Just(1u16), Just(255u16), Just(256u16), Just(65535u16), 1u16..65535], any::<bool>(), 0u8..3, prop_oneof![Just(1u16), Just(2u16), Just(65535u16), 1u16..65535], vec(caps_strategy(), 1..4), proptest::option::weighted(0.25, boundary()))
            .prop_map(|(v5, packet, pid, dup, alias_mode, alias, caps, target_remaining)| {
                // the 2^21 boundary needs a 2 MiB payload: keep it, but only for PUBLISH
                let target_remaining = if matches!(packet, AbsPacket::Publish(_)) { target_remaining } else { None };
                C02Case { v5, packet, pid, dup, alias_mode, alias, caps, target_remaining }
            })
            .boxed()
    }

    fn check(&self, case: &C02Case) -> CaseReport {
        let mut violations = Vec::new();
        let mut labels: Vec<String> = Vec::new();
        let (out, packet) = case.to_out();
        let kind = packet.kind_name();
        labels.push(format!("kind:{}", kind));
        labels.push(if case.v5 { "v5".to_string() } else { "v311".to_string() });
        let (skip, alias) = case.alias_params();
        let dup = case.dup && matches!(&packet, AbsPacket::Publish(p) if p.qos > 0);
        let pid = case.pid.max(1);

        // user packets must pass the submission-time validation the client handles apply; otherwise the
        // packet is outside this property's domain (C16 judges rejections)
        let user_packet = matches!(packet, AbsPacket::Publish(_) | AbsPacket::Subscribe(_) | AbsPacket::Unsubscribe(_) | AbsPacket::Disconnect(_));
        if user_packet {
            match guarded(|| gv::validate_outbound(&out)) {
                Ok(Ok(())) => {}
                Ok(Err(_)) => {
                    labels.push("rejected_by_validation".to_string());
                    return CaseReport { labels, nontrivial: false, digest: 0, ..Default::default() };
                }
                Err((msg, loc)) => {
                    violations.push(Violation::new("C02.panic", format!("panic while validating {}", kind), format!("{} at {}", msg, loc)));
                    return CaseReport { violations, labels, nontrivial: true, digest: hash_str(kind), ..Default::default() };
                }
            }
        }

        // reference run: one huge buffer
        let huge = match encode_case(&out, &packet, pid, dup, case.v5, skip, alias, &[64 * 1024 * 1024]) {
            Ok(Ok((bytes, _))) => bytes,
            Ok(Err(e)) => {
                violations.push(Violation::new("C02.encode_error", format!("encoder refused a {} that passed validation", kind), format!("{}", e)));
                return CaseReport { violations, labels, nontrivial: true, digest: hash_str(kind), ..Default::default() };
            }
            Err((msg, loc)) => {
                violations.push(Violation::new("C02.panic", format!("panic while encoding {}", kind), format!("{} at {}", msg, loc)));
                return CaseReport { violations, labels, nontrivial: true, digest: hash_str(kind), ..Default::default() };
            }
        };

        // (a) strict reference decode, (b) content
        let version = if case.v5 { rf::Version::V5 } else { rf::Version::V311 };
        let expected = case.expected(&packet);
        match rf::decode(version, rf::Direction::ClientToServer, &huge) {
            Ok((got, used)) => {
                if used != huge.len() {
                    violations.push(Violation::new("C02.trailing_bytes", format!("{}: bytes left over after one complete packet", kind), format!("{} of {} bytes consumed", used, huge.len())));
                }
                if got != expected {
                    violations.push(Violation::new("C02.content", format!("{} {}: field `{}` is not what the application supplied", kind, if case.v5 { "v5" } else { "v311" }, first_diff_field(&expected, &got)), describe_diff(&expected, &got)));
                }
            }
            Err(rf::DecodeError::Incomplete) => violations.push(Violation::new("C02.truncated", format!("{}: the emitted packet is shorter than its remaining length announces", kind), format!("{} bytes", huge.len()))),
            Err(rf::DecodeError::Malformed(m)) => {
                let sig: String = m.chars().map(|c| if c.is_ascii_digit() { '#' } else { c }).take(100).collect();
                violations.push(Violation::new("C02.malformed", format!("{} {}: reference decoder rejects the emitted bytes: {}", kind, if case.v5 { "v5" } else { "v311" }, sig), format!("{} ; first bytes {:02x?}", m, &huge[..huge.len().min(48)])));
            }
        }

        // (c) fragmentation invariance
        let mut max_calls = 1usize;
        for caps in &case.caps {
            match encode_case(&out, &packet, pid, dup, case.v5, skip, alias, &caps.as_vec()) {
                Ok(Ok((bytes, calls))) => {
                    max_calls = max_calls.max(calls);
                    if bytes != huge {
                        let pos = bytes.iter().zip(huge.iter()).take_while(|(a, b)| a == b).count();
                        violations.push(Violation::new("C02.fragmentation", format!("{}: emitted bytes depend on the output buffer capacities", kind), format!("caps {:?}: first difference at offset {} (lengths {} vs {})", caps, pos, bytes.len(), huge.len())));
                    }
                }
                Ok(Err(e)) => violations.push(Violation::new("C02.fragmentation", format!("{}: encoding fails for some buffer capacities", kind), format!("caps {:?}: {}", caps, e))),
                Err((msg, loc)) => violations.push(Violation::new("C02.panic", format!("panic while encoding {} into small buffers", kind), format!("caps {:?}: {} at {}", caps, msg, loc))),
            }
        }

        // labels / non-triviality
        let optional_fields = match &packet {
            AbsPacket::Publish(p) => [p.payload.is_some(), p.payload_format.is_some(), p.message_expiry.is_some(), p.response_topic.is_some(), p.correlation.is_some(), p.content_type.is_some(), !p.user_props.is_empty(), alias.is_some()].iter().filter(|x| **x).count(),
            AbsPacket::Subscribe(s) => [s.sub_id.is_some(), !s.user_props.is_empty(), s.entries.len() > 1].iter().filter(|x| **x).count() + 1,
            AbsPacket::Unsubscribe(u) => [!u.user_props.is_empty(), u.filters.len() > 1].iter().filter(|x| **x).count() + 1,
            AbsPacket::Disconnect(d) => [d.session_expiry.is_some(), d.reason_string.is_some(), !d.user_props.is_empty(), d.reason != 0].iter().filter(|x| **x).count(),
            AbsPacket::Connect(c) => [c.client_id.is_some(), c.username.is_some(), c.password.is_some(), c.session_expiry.is_some(), c.will.is_some(), c.receive_maximum.is_some(), c.topic_alias_maximum.is_some(), c.maximum_packet_size.is_some(), !c.user_props.is_empty(), c.request_problem_information.is_some(), c.request_response_information.is_some()].iter().filter(|x| **x).count(),
            _ => 0,
        };
        let boundary_len = [127usize, 128, 16383, 16384, 2_097_151, 2_097_152].iter().any(|b| {
            let rl = rf::peek_fixed_header(&huge).ok().flatten().map(|x| x.1 as usize).unwrap_or(0);
            rl == *b
        });
        if boundary_len {
            labels.push("remaining_length_on_vli_boundary".to_string());
        }
        if max_calls > 1 {
            labels.push("multi_call_encode".to_string());
        }
        if max_calls > 8 {
            labels.push("encode_calls>8".to_string());
        }
        if optional_fields >= 3 {
            labels.push("optional_fields>=3".to_string());
        }
        if huge.len() > 65536 {
            labels.push("packet>64KiB".to_string());
        }
        let nontrivial = optional_fields >= 3 || boundary_len || max_calls > 1;
        let digest = hash_str(&format!("{}|{}|{}|{}|{}|{}", kind, case.v5, optional_fields, boundary_len, max_calls.min(64), huge.len().min(1 << 20) / 16));
        let sample = json!({"kind": kind, "v5": case.v5, "bytes": huge.len(), "optional_fields_set": optional_fields, "capacities": case.caps.iter().map(|c| format!("{:?}", c)).collect::<Vec<_>>(), "encode_calls_max": max_calls, "head_hex": huge.iter().take(24).map(|b| format!("{:02x}", b)).collect::<String>()});
        CaseReport { violations, labels, nontrivial, digest, sample: Some(sample), counters: vec![("bytes_encoded".to_string(), huge.len() as u64)], ..Default::default() }
    }

    fn cases_per_shard(&self, tier: Tier) -> u32 {
        match tier {
            Tier::Quick => 2500,
            Tier::Thorough => 60_000,
        }
    }

    fn rule_text(&self) -> String {
        "abstract packets (PUBLISH, SUBSCRIBE, UNSUBSCRIBE, DISCONNECT, connect options, acks, PINGREQ) generated first and turned into gneiss values through the public builders: every optional field independently present/absent, string/binary byte lengths from {0,1,127,128,16383,16384,65534,65535} and arbitrary multi-byte UTF-8, up to 40 user properties, up to 300 subscriptions/filters, subscription identifiers on every VLI boundary, PUBLISH payloads padded so the remaining length hits 127/128/16383/16384/2^21-1/2^21, both protocol versions, alias outcomes none / alias+topic / alias+skip-topic, output capacities constant {4..8,13,4096} or random sequences >= 4; oracle: strict refmqtt decode == abstract packet, and bytes identical for every capacity sequence; non-trivial = >= 3 optional fields set, or remaining length on a VLI boundary, or > 1 encode call; distinct = (kind, version, #optional fields, boundary flag, #encode calls, size bucket)".to_string()
    }

    fn assumptions(&self) -> Vec<String> {
        vec![
            "strings are generated without U+0000 (the crate documents that UTF-8 code points are not validated); user-supplied DISCONNECT reason codes are taken from the set the specification lets a client send".to_string(),
            "the reference decoder refmqtt is the judge of well-formedness".to_string(),
            "engine-generated packets in context (acks, pings, CONNECT with server-assigned ids) are additionally judged on the wire in every EngineSim based check".to_string(),
        ]
    }
}
