//! vcheck: property-based checks of gneiss-mqtt.  `vcheck <Cxx> [--tier quick|thorough] [--seed N] [--replay file]`
#![allow(dead_code, unused_variables, clippy::all)]

use vcheck::{c02, c03, c16, clientsim, faithful, panichook, props_engine, real, runner};

use runner::{run_property, RunOptions, Tier};

fn usage() -> ! {
    eprintln!("usage: vcheck <C01..C20> [--tier quick|thorough] [--seed N] [--replay path] [--shards N] [--cases N] [--strict] [--root /verif]");
    std::process::exit(2);
}

fn main() {
    panichook::install();
    let args: Vec<String> = std::env::args().collect();
    if args.len() < 2 {
        usage();
    }
    let id = args[1].clone();
    let mut tier = match std::env::var("VERIF_TIER").ok().as_deref() {
        Some("thorough") => Tier::Thorough,
        _ => Tier::Quick,
    };
    let mut seed: u64 = std::env::var("VERIF_SEED").ok().and_then(|s| s.parse::<i128>().ok()).map(|v| v as u64).unwrap_or(20260923);
    let mut replay = None;
    let mut shards = std::thread::available_parallelism().map(|n| n.get()).unwrap_or(8).min(16);
    let mut cases_override = None;
    let mut strict = false;
    let mut fuzz_input: Option<String> = None;
    let mut fuzz_bin: Option<String> = std::env::var("VERIF_FUZZ_BIN").ok();
    let mut fuzz_secs: u64 = std::env::var("VERIF_FUZZ_SECS").ok().and_then(|s| s.parse().ok()).unwrap_or(240);
    let mut root = "/verif".to_string();
    let mut i = 2;
    while i < args.len() {
        match args[i].as_str() {
            "--tier" => {
                i += 1;
                tier = match args.get(i).map(|s| s.as_str()) {
                    Some("thorough") => Tier::Thorough,
                    Some("quick") => Tier::Quick,
                    _ => usage(),
                };
            }
            "--seed" => {
                i += 1;
                seed = args.get(i).and_then(|s| s.parse::<i128>().ok()).map(|v| v as u64).unwrap_or_else(|| usage());
            }
            "--replay" => {
                i += 1;
                replay = Some(args.get(i).cloned().unwrap_or_else(|| usage()));
            }
            "--shards" => {
                i += 1;
                shards = args.get(i).and_then(|s| s.parse().ok()).unwrap_or_else(|| usage());
            }
            "--cases" => {
                i += 1;
                cases_override = Some(args.get(i).and_then(|s| s.parse().ok()).unwrap_or_else(|| usage()));
            }
            "--strict" => strict = true,
            "--fuzz-bin" => {
                i += 1;
                fuzz_bin = Some(args.get(i).cloned().unwrap_or_else(|| usage()));
            }
            "--fuzz-secs" => {
                i += 1;
                fuzz_secs = args.get(i).and_then(|s| s.parse().ok()).unwrap_or_else(|| usage());
            }
            "--fuzz-input" => {
                // evaluates one libFuzzer input file with the non-instrumented build (same decoding as the fuzz target)
                i += 1;
                fuzz_input = Some(args.get(i).cloned().unwrap_or_else(|| usage()));
            }
            "--root" => {
                i += 1;
                root = args.get(i).cloned().unwrap_or_else(|| usage());
            }
            _ => usage(),
        }
        i += 1;
    }
    if let Some(path) = fuzz_input {
        let data = std::fs::read(&path).unwrap_or_else(|e| {
            eprintln!("HARNESS-ERROR: cannot read {}: {}", path, e);
            std::process::exit(2)
        });
        let mut s = vcheck::fuzzrun::session(&id, &root, strict).unwrap_or_else(|| {
            eprintln!("HARNESS-ERROR: property {} has no fuzz session", id);
            std::process::exit(2)
        });
        let found = s.one(&data);
        std::process::exit(if found.is_some() { 1 } else { 0 });
    }
    let opts = RunOptions { tier, seed, shards, verif_root: root, replay, cases_override, strict, fuzz_bin, fuzz_secs, fuzz_driver: Some(vcheck::fuzzrun::run_campaign) };
    let code = match id.as_str() {
        "C01" => run_property(&props_engine::c01(), &opts),
        "C02" => run_property(&c02::C02, &opts),
        "C03" => run_property(&c03::C03, &opts),
        "C04" => run_property(&props_engine::c04(), &opts),
        "C05" => run_property(&props_engine::c05(), &opts),
        "C06" => run_property(&props_engine::c06(), &opts),
        "C07" => run_property(&props_engine::c07(), &opts),
        "C08" => run_property(&faithful::C08, &opts),
        "C09" => run_property(&props_engine::c09(), &opts),
        "C10" => run_property(&props_engine::c10(), &opts),
        "C11" => run_property(&props_engine::c11(), &opts),
        "C12" => run_property(&clientsim::C12, &opts),
        "C13" => run_property(&real::C13, &opts),
        "C14" => run_property(&faithful::C14, &opts),
        "C15" => run_property(&props_engine::c15(), &opts),
        "C16" => run_property(&c16::C16, &opts),
        "C17" => run_property(&props_engine::c17(), &opts),
        "C18" => run_property(&props_engine::c18(), &opts),
        "C19" => run_property(&clientsim::C19, &opts),
        _ => {
            eprintln!("unknown property {}", id);
            2
        }
    };
    std::process::exit(code);
}
