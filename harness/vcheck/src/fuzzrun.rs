//! Coverage-guided tier: the same generators and oracles as the proptest campaigns, driven by libFuzzer.
//!
//! The fuzzer's byte string is decoded into a structurally valid case by the property's `fuzz_case` (a byte-driven
//! twin of its proptest generator, see `bytegen.rs`; for C03 the bytes are the server's byte stream itself), and
//! libFuzzer's coverage feedback (the instrumented gneiss-mqtt code) steers the search over cases.  A violation is
//! written as the same JSON replay file the proptest campaigns write, so `./check Cxx --replay <file>`
//! reproduces it without libFuzzer.

use crate::runner::{classify, load_known_findings, write_replay, CaseReport, KnownFinding, Property, Stats, Tier};
use proptest::strategy::BoxedStrategy;
use serde_json::json;

pub trait FuzzOne {
    /// evaluates one fuzzer input; returns Some(replay path) when an unlisted violation was found
    fn one(&mut self, data: &[u8]) -> Option<String>;
    fn flush(&mut self);
}

pub struct FuzzSession<P: Property> {
    p: P,
    strategy: BoxedStrategy<P::Case>,
    known: Vec<KnownFinding>,
    stats: Stats,
    root: String,
    iterations: u64,
    undecodable: u64,
    harness_panics: u64,
    stats_path: String,
    last_flush: std::time::Instant,
}

impl<P: Property> FuzzSession<P> {
    pub fn new(p: P, root: &str, strict: bool) -> FuzzSession<P> {
        let id = p.id();
        let known = if strict { Vec::new() } else { load_known_findings(root).into_iter().filter(|k| k.property == id).collect() };
        let strategy = p.strategy(Tier::Thorough);
        let dir = std::env::var("VERIF_FUZZ_STATS").unwrap_or_else(|_| format!("{}/harness/fuzz/run/{}/stats", root, id));
        let _ = std::fs::create_dir_all(&dir);
        let stats_path = format!("{}/{}.{}.json", dir, id, std::process::id());
        FuzzSession { p, strategy, known, stats: Stats::default(), root: root.to_string(), iterations: 0, undecodable: 0, harness_panics: 0, stats_path, last_flush: std::time::Instant::now() }
    }

    fn case_of(&self, data: &[u8]) -> Option<P::Case> {
        self.p.fuzz_case(data)
    }
}

impl<P: Property> FuzzOne for FuzzSession<P> {
    fn one(&mut self, data: &[u8]) -> Option<String> {
        let case = match self.case_of(data) {
            Some(c) => c,
            None => {
                self.iterations += 1;
                self.undecodable += 1;
                return None;
            }
        };
        self.one_case(case)
    }

    fn flush(&mut self) {
        self.flush_stats()
    }
}

impl<P: Property> FuzzSession<P> {
    pub fn one_case(&mut self, case: P::Case) -> Option<String> {
        self.iterations += 1;
        let report: CaseReport = match std::panic::catch_unwind(std::panic::AssertUnwindSafe(|| self.p.check(&case))) {
            Ok(r) => r,
            Err(_) => {
                // a panic of the harness itself is a harness problem, not a verdict (exit 2 in ./check)
                self.harness_panics += 1;
                let path = write_replay(&self.root, self.p.id(), Tier::Thorough, 0, &case, &[], "harness panic under libFuzzer");
                eprintln!("HARNESS-ERROR: harness panic while evaluating a fuzzer case; case saved as {}", path);
                return None;
            }
        };
        let (unknown, hits) = classify(&report.violations, &self.known);
        for h in hits {
            *self.stats.known_hits.entry(h).or_insert(0) += 1;
        }
        self.stats.absorb(&report);
        if self.iterations % 500 == 0 || self.last_flush.elapsed().as_secs() >= 2 {
            self.flush_stats();
            self.last_flush = std::time::Instant::now();
        }
        if unknown.is_empty() {
            return None;
        }
        for v in &unknown {
            println!("violation (libFuzzer): rule={} signature={} detail={}", v.rule, v.signature, v.detail);
        }
        let path = write_replay(&self.root, self.p.id(), Tier::Thorough, 0, &case, &unknown, "found by libFuzzer (coverage-guided, proptest strategy over the fuzzer's bytes)");
        println!("VIOLATION property={} replay={}", self.p.id(), path);
        self.flush_stats();
        Some(path)
    }

    pub fn flush_stats(&mut self) {
        let doc = json!({
            "property_id": self.p.id(),
            "pid": std::process::id(),
            "iterations": self.iterations,
            "evaluations": self.stats.evaluations,
            "nontrivial_total": self.stats.nontrivial,
            "distinct_nontrivial": self.stats.distinct.len(),
            "undecodable_inputs": self.undecodable,
            "harness_panics": self.harness_panics,
            "inconclusive_cases": self.stats.inconclusive,
            "known_finding_hits": self.stats.known_hits,
            "labels": self.stats.labels,
            "sample": self.stats.nontrivial_samples.first().cloned(),
        });
        let _ = std::fs::write(&self.stats_path, serde_json::to_string(&doc).unwrap_or_default());
    }
}

/// Builds the session for a property id (everything except the real-client property C13 and the AWS property C20,
/// whose harnesses start threads/runtimes and are therefore not deterministic functions of the input).
pub fn session(id: &str, root: &str, strict: bool) -> Option<Box<dyn FuzzOne>> {
    use crate::{c02, c03, c16, clientsim, faithful, props_engine as pe};
    Some(match id {
        "C01" => Box::new(FuzzSession::new(pe::c01(), root, strict)),
        "C02" => Box::new(FuzzSession::new(c02::C02, root, strict)),
        "C03" => Box::new(FuzzSession::new(c03::C03, root, strict)),
        "C04" => Box::new(FuzzSession::new(pe::c04(), root, strict)),
        "C05" => Box::new(FuzzSession::new(pe::c05(), root, strict)),
        "C06" => Box::new(FuzzSession::new(pe::c06(), root, strict)),
        "C07" => Box::new(FuzzSession::new(pe::c07(), root, strict)),
        "C08" => Box::new(FuzzSession::new(faithful::C08, root, strict)),
        "C09" => Box::new(FuzzSession::new(pe::c09(), root, strict)),
        "C10" => Box::new(FuzzSession::new(pe::c10(), root, strict)),
        "C11" => Box::new(FuzzSession::new(pe::c11(), root, strict)),
        "C12" => Box::new(FuzzSession::new(clientsim::C12, root, strict)),
        "C14" => Box::new(FuzzSession::new(faithful::C14, root, strict)),
        "C15" => Box::new(FuzzSession::new(pe::c15(), root, strict)),
        "C16" => Box::new(FuzzSession::new(c16::C16, root, strict)),
        "C17" => Box::new(FuzzSession::new(pe::c17(), root, strict)),
        "C18" => Box::new(FuzzSession::new(pe::c18(), root, strict)),
        "C19" => Box::new(FuzzSession::new(clientsim::C19, root, strict)),
        _ => return None,
    })
}


// ------------------------------------------------------------------------------------------------
// campaign driver (called by the runner in the thorough tier)
// ------------------------------------------------------------------------------------------------

use crate::runner::FuzzOutcome;

fn splitmix(x: &mut u64) -> u64 {
    *x = x.wrapping_add(0x9E37_79B9_7F4A_7C15);
    let mut z = *x;
    z = (z ^ (z >> 30)).wrapping_mul(0xBF58_476D_1CE4_E5B9);
    z = (z ^ (z >> 27)).wrapping_mul(0x94D0_49BB_1331_11EB);
    z ^ (z >> 31)
}

/// Runs `workers` libFuzzer jobs of the instrumented binary for `secs` seconds on property `id`.
pub fn run_campaign(fuzz_bin: &str, root: &str, id: &str, seed: u64, secs: u64, workers: usize, extra_corpus: &[Vec<u8>], max_len: usize, strict: bool) -> Result<FuzzOutcome, String> {
    let run_dir = format!("{}/harness/fuzz/run/{}", root, id);
    let _ = std::fs::remove_dir_all(&run_dir);
    let corpus = format!("{}/corpus", run_dir);
    let stats = format!("{}/stats", run_dir);
    let artifacts = format!("{}/artifacts", run_dir);
    for d in [&corpus, &stats, &artifacts] {
        std::fs::create_dir_all(d).map_err(|e| format!("cannot create {}: {}", d, e))?;
    }
    // starting corpus: pseudo-random inputs of several lengths (a pure function of the seed) + the property's own seeds
    let mut x = seed ^ crate::runner::hash_str(id);
    let mut n = 0;
    for len in [8usize, 24, 70, 70, 150, 150, 300, 300, 600, 600, 1200, 2400] {
        for _ in 0..4 {
            let mut v = Vec::with_capacity(len);
            while v.len() < len.min(max_len) {
                v.extend_from_slice(&splitmix(&mut x).to_le_bytes());
            }
            v.truncate(len.min(max_len));
            let _ = std::fs::write(format!("{}/rnd-{:03}", corpus, n), &v);
            n += 1;
        }
    }
    for (i, v) in extra_corpus.iter().enumerate() {
        let _ = std::fs::write(format!("{}/seed-{:04}", corpus, i), v);
    }
    let started = std::time::Instant::now();
    let status = std::process::Command::new(fuzz_bin)
        .current_dir(&run_dir)
        .arg(&corpus)
        .arg(format!("-max_total_time={}", secs))
        .arg("-len_control=0")
        .arg(format!("-max_len={}", max_len))
        .arg("-timeout=120")
        .arg("-rss_limit_mb=6000")
        .arg(format!("-seed={}", (seed % 0xffff_fff0) + 1))
        .arg(format!("-workers={}", workers))
        .arg(format!("-jobs={}", workers))
        .arg("-print_final_stats=1")
        .arg(format!("-artifact_prefix={}/", artifacts))
        .env("VERIF_FUZZ_PROP", id)
        .env("VERIF_ROOT", root)
        .env("VERIF_FUZZ_STATS", &stats)
        .env("VERIF_STRICT", if strict { "1" } else { "0" })
        .stdout(std::process::Stdio::null())
        .stderr(std::process::Stdio::null())
        .status()
        .map_err(|e| format!("cannot start {}: {}", fuzz_bin, e))?;
    let wall = started.elapsed().as_secs_f64();
    // merge the per-process statistics
    let mut iterations = 0u64;
    let mut evaluations = 0u64;
    let mut nontrivial = 0u64;
    let mut distinct = 0u64;
    let mut undecodable = 0u64;
    let mut harness_panics = 0u64;
    let mut inconclusive = 0u64;
    let mut labels: std::collections::BTreeMap<String, u64> = Default::default();
    let mut known_hits: std::collections::BTreeMap<String, u64> = Default::default();
    let mut sample = serde_json::Value::Null;
    if let Ok(rd) = std::fs::read_dir(&stats) {
        for e in rd.flatten() {
            if let Ok(t) = std::fs::read_to_string(e.path()) {
                if let Ok(v) = serde_json::from_str::<serde_json::Value>(&t) {
                    iterations += v["iterations"].as_u64().unwrap_or(0);
                    evaluations += v["evaluations"].as_u64().unwrap_or(0);
                    nontrivial += v["nontrivial_total"].as_u64().unwrap_or(0);
                    distinct += v["distinct_nontrivial"].as_u64().unwrap_or(0);
                    undecodable += v["undecodable_inputs"].as_u64().unwrap_or(0);
                    harness_panics += v["harness_panics"].as_u64().unwrap_or(0);
                    inconclusive += v["inconclusive_cases"].as_u64().unwrap_or(0);
                    if let Some(m) = v["labels"].as_object() {
                        for (k, c) in m {
                            *labels.entry(k.clone()).or_insert(0) += c.as_u64().unwrap_or(0);
                        }
                    }
                    if let Some(m) = v["known_finding_hits"].as_object() {
                        for (k, c) in m {
                            *known_hits.entry(k.clone()).or_insert(0) += c.as_u64().unwrap_or(0);
                        }
                    }
                    if sample.is_null() && !v["sample"].is_null() {
                        sample = v["sample"].clone();
                    }
                }
            }
        }
    }
    // worker logs: violations, final coverage, non-verdict crashes
    let mut replays = Vec::new();
    let mut harness_notes = Vec::new();
    let mut cov_max = 0u64;
    let mut ft_max = 0u64;
    let mut corpus_units = 0u64;
    if let Ok(rd) = std::fs::read_dir(&run_dir) {
        for e in rd.flatten() {
            let name = e.file_name().to_string_lossy().to_string();
            if !(name.starts_with("fuzz-") && name.ends_with(".log")) {
                continue;
            }
            let text = std::fs::read_to_string(e.path()).unwrap_or_default();
            let mut had_violation = false;
            for line in text.lines() {
                if let Some(rest) = line.strip_prefix("VIOLATION property=") {
                    if let Some(pos) = rest.find(" replay=") {
                        replays.push(rest[pos + 8..].trim().to_string());
                        had_violation = true;
                    }
                }
                if line.starts_with('#') && line.contains(" cov: ") {
                    let mut it = line.split_whitespace();
                    while let Some(tok) = it.next() {
                        if tok == "cov:" {
                            cov_max = cov_max.max(it.next().and_then(|v| v.parse().ok()).unwrap_or(0));
                        } else if tok == "ft:" {
                            ft_max = ft_max.max(it.next().and_then(|v| v.parse().ok()).unwrap_or(0));
                        } else if tok == "corp:" {
                            corpus_units = corpus_units.max(it.next().and_then(|v| v.split('/').next().and_then(|x| x.parse().ok())).unwrap_or(0));
                        }
                    }
                }
                if line.contains("HARNESS-ERROR") {
                    harness_notes.push(format!("{}: {}", name, line.chars().take(200).collect::<String>()));
                }
            }
            if !had_violation && (text.contains("ERROR: libFuzzer: timeout") || text.contains("ERROR: libFuzzer: out-of-memory") || text.contains("ERROR: libFuzzer: deadly signal")) {
                let what = if text.contains("libFuzzer: timeout") { "timeout" } else if text.contains("out-of-memory") { "out of memory" } else { "crash without a verdict" };
                harness_notes.push(format!("{}: libFuzzer worker ended with {} (not a verdict)", name, what));
            }
        }
    }
    replays.sort();
    replays.dedup();
    let summary = json!({
        "engine": "libFuzzer (cargo-fuzz), in-process, byte-driven structured generator, same oracle as the proptest campaign",
        "workers": workers,
        "budget_s": secs,
        "wall_s": wall,
        "exit_status": status.code(),
        "executions": iterations,
        "evaluations": evaluations,
        "nontrivial_total": nontrivial,
        "distinct_nontrivial_summed_over_workers": distinct,
        "undecodable_inputs": undecodable,
        "harness_panics": harness_panics,
        "inconclusive_cases": inconclusive,
        "edge_coverage_max": cov_max,
        "features_max": ft_max,
        "corpus_units_max": corpus_units,
        "starting_corpus": {"pseudo_random": n, "property_seeds": extra_corpus.len()},
        "known_finding_hits": known_hits,
        "labels": labels,
        "sample": sample,
        "violating_replays": replays,
        "non_verdict_endings": harness_notes,
    });
    Ok(FuzzOutcome { replays, summary, harness_notes })
}
