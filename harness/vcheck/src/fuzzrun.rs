//! Coverage-guided tier: the same generators and oracles as the proptest campaigns, driven by libFuzzer.
//!
//! The fuzzer's byte string is decoded into a structurally valid case by the property's `fuzz_case` (a byte-driven
//! twin of its proptest generator, see `bytegen.rs`; for C03 the bytes are the server's byte stream itself), and
//! libFuzzer's coverage feedback (the instrumented gneiss-mqtt code) steers the search over cases.  A violation is
//! written as the same JSON replay file the proptest campaigns write, so `./check Cxx --replay <file>`
//! reproduces it without libFuzzer.

use crate::runner::{classify, load_known_findings, write_replay, CaseReport, KnownFinding, Property, Stats, Tier};
use proptest::strategy::BoxedStrategy;
use serde_json::json;

pub trait FuzzOne {
    /// evaluates one fuzzer input; returns Some(replay path) when an unlisted violation was found
    fn one(&mut self, data: &[u8]) -> Option<String>;
    fn flush(&mut self);
}

pub struct FuzzSession<P: Property> {
    p: P,
    strategy: BoxedStrategy<P::Case>,
    known: Vec<KnownFinding>,
    stats: Stats,
    root: String,
    iterations: u64,
    undecodable: u64,
    harness_panics: u64,
    stats_path: String,
}

impl<P: Property> FuzzSession<P> {
    pub fn new(p: P, root: &str, strict: bool) -> FuzzSession<P> {
        let id = p.id();
        let known = if strict { Vec::new() } else { load_known_findings(root).into_iter().filter(|k| k.property == id).collect() };
        let strategy = p.strategy(Tier::Thorough);
        let dir = format!("{}/evidence/fuzz", root);
        let _ = std::fs::create_dir_all(&dir);
        let stats_path = format!("{}/{}.{}.json", dir, id, std::process::id());
        FuzzSession { p, strategy, known, stats: Stats::default(), root: root.to_string(), iterations: 0, undecodable: 0, harness_panics: 0, stats_path }
    }

    fn case_of(&self, data: &[u8]) -> Option<P::Case> {
        self.p.fuzz_case(data)
    }
}

impl<P: Property> FuzzOne for FuzzSession<P> {
    fn one(&mut self, data: &[u8]) -> Option<String> {
        let case = match self.case_of(data) {
            Some(c) => c,
            None => {
                self.iterations += 1;
                self.undecodable += 1;
                return None;
            }
        };
        self.one_case(case)
    }

    fn flush(&mut self) {
        self.flush_stats()
    }
}

impl<P: Property> FuzzSession<P> {
    pub fn one_case(&mut self, case: P::Case) -> Option<String> {
        self.iterations += 1;
        let report: CaseReport = match std::panic::catch_unwind(std::panic::AssertUnwindSafe(|| self.p.check(&case))) {
            Ok(r) => r,
            Err(_) => {
                // a panic of the harness itself is a harness problem, not a verdict (exit 2 in ./check)
                self.harness_panics += 1;
                let path = write_replay(&self.root, self.p.id(), Tier::Thorough, 0, &case, &[], "harness panic under libFuzzer");
                eprintln!("HARNESS-ERROR: harness panic while evaluating a fuzzer case; case saved as {}", path);
                return None;
            }
        };
        let (unknown, hits) = classify(&report.violations, &self.known);
        for h in hits {
            *self.stats.known_hits.entry(h).or_insert(0) += 1;
        }
        self.stats.absorb(&report);
        if self.iterations % 2000 == 0 {
            self.flush_stats();
        }
        if unknown.is_empty() {
            return None;
        }
        for v in &unknown {
            println!("violation (libFuzzer): rule={} signature={} detail={}", v.rule, v.signature, v.detail);
        }
        let path = write_replay(&self.root, self.p.id(), Tier::Thorough, 0, &case, &unknown, "found by libFuzzer (coverage-guided, proptest strategy over the fuzzer's bytes)");
        println!("VIOLATION property={} replay={}", self.p.id(), path);
        self.flush_stats();
        Some(path)
    }

    pub fn flush_stats(&mut self) {
        let doc = json!({
            "property_id": self.p.id(),
            "pid": std::process::id(),
            "iterations": self.iterations,
            "evaluations": self.stats.evaluations,
            "nontrivial_total": self.stats.nontrivial,
            "distinct_nontrivial": self.stats.distinct.len(),
            "undecodable_inputs": self.undecodable,
            "harness_panics": self.harness_panics,
            "inconclusive_cases": self.stats.inconclusive,
            "known_finding_hits": self.stats.known_hits,
            "labels": self.stats.labels,
            "sample": self.stats.nontrivial_samples.first().cloned(),
        });
        let _ = std::fs::write(&self.stats_path, serde_json::to_string(&doc).unwrap_or_default());
    }
}

/// Builds the session for a property id (everything except the real-client property C13 and the AWS property C20,
/// whose harnesses start threads/runtimes and are therefore not deterministic functions of the input).
pub fn session(id: &str, root: &str, strict: bool) -> Option<Box<dyn FuzzOne>> {
    use crate::{c02, c03, c16, clientsim, faithful, props_engine as pe};
    Some(match id {
        "C01" => Box::new(FuzzSession::new(pe::c01(), root, strict)),
        "C02" => Box::new(FuzzSession::new(c02::C02, root, strict)),
        "C03" => Box::new(FuzzSession::new(c03::C03, root, strict)),
        "C04" => Box::new(FuzzSession::new(pe::c04(), root, strict)),
        "C05" => Box::new(FuzzSession::new(pe::c05(), root, strict)),
        "C06" => Box::new(FuzzSession::new(pe::c06(), root, strict)),
        "C07" => Box::new(FuzzSession::new(pe::c07(), root, strict)),
        "C08" => Box::new(FuzzSession::new(faithful::C08, root, strict)),
        "C09" => Box::new(FuzzSession::new(pe::c09(), root, strict)),
        "C10" => Box::new(FuzzSession::new(pe::c10(), root, strict)),
        "C11" => Box::new(FuzzSession::new(pe::c11(), root, strict)),
        "C12" => Box::new(FuzzSession::new(clientsim::C12, root, strict)),
        "C14" => Box::new(FuzzSession::new(faithful::C14, root, strict)),
        "C15" => Box::new(FuzzSession::new(pe::c15(), root, strict)),
        "C16" => Box::new(FuzzSession::new(c16::C16, root, strict)),
        "C17" => Box::new(FuzzSession::new(pe::c17(), root, strict)),
        "C18" => Box::new(FuzzSession::new(pe::c18(), root, strict)),
        "C19" => Box::new(FuzzSession::new(clientsim::C19, root, strict)),
        _ => return None,
    })
}
