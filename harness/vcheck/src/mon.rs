//! History monitors: each property is an invariant over the trace produced by one simulation run.
//! None of them consults the code under test; expectations come from the property statements, the
//! MQTT specifications and the crate's documented configuration semantics.

use crate::model::*;
use crate::runner::Violation;
use refmqtt as rf;
use std::collections::{BTreeMap, BTreeSet};

#[derive(Clone, Debug, Default)]
pub struct TagRec {
    pub kind: Option<Kind>,
    pub submit_ev: usize,
    pub submit_t: u64,
    pub submit_state: Option<EState>,
    pub timeout_ms: Option<u32>,
    pub topic: Option<String>,
    pub n: usize,
    /// (event index, time, outcome, call index)
    pub dones: Vec<(usize, u64, Done, usize)>,
    /// indices into trace.emitted of packets carrying this tag (PUBLISH / SUBSCRIBE / UNSUBSCRIBE)
    pub emits: Vec<usize>,
    /// indices into trace.emitted of PUBREL packets attributed to this tag
    pub pubrels: Vec<usize>,
}

impl TagRec {
    pub fn done_ev(&self) -> Option<usize> {
        self.dones.first().map(|d| d.0)
    }
    pub fn resolved_before(&self, ev: usize) -> bool {
        self.dones.first().map(|d| d.0 < ev).unwrap_or(false)
    }
}

#[derive(Clone, Debug, Default)]
pub struct ConnRec {
    pub open_ev: usize,
    pub open_t: u64,
    pub deadline: u64,
    pub close_ev: Option<usize>,
    pub close_t: Option<u64>,
    pub emitted_len: usize,
    pub delivered_len: usize,
    /// event index of the surfaced successful CONNACK
    pub connack_ok_ev: Option<usize>,
    pub connack_ok_t: Option<u64>,
    pub session_present: Option<bool>,
    pub connack: Option<rf::Connack>,
    pub pkts: Vec<usize>,
    /// first engine error on this connection (event index)
    pub first_err_ev: Option<usize>,
}

pub struct Index<'a> {
    pub tr: &'a Trace,
    pub cfg: &'a SimCfg,
    pub tags: BTreeMap<u32, TagRec>,
    pub conns: BTreeMap<usize, ConnRec>,
    /// event index of each Emit
    pub emit_ev: Vec<usize>,
    pub reset_ev: Option<usize>,
    pub drain_start_ev: Option<usize>,
    pub drain_quiescent: Option<bool>,
    pub drain_step_bound_hit: bool,
}

impl<'a> Index<'a> {
    pub fn build(tr: &'a Trace, cfg: &'a SimCfg) -> Index<'a> {
        let mut tags: BTreeMap<u32, TagRec> = BTreeMap::new();
        let mut conns: BTreeMap<usize, ConnRec> = BTreeMap::new();
        let mut emit_ev = vec![0usize; tr.emitted.len()];
        let mut reset_ev = None;
        let mut drain_start_ev = None;
        let mut drain_quiescent = None;
        let mut drain_step_bound_hit = false;
        // owner of a packet id among QoS2 publishes, for PUBREL attribution
        let mut last_pub_pid: BTreeMap<u16, u32> = BTreeMap::new();
        for (i, ev) in tr.evs.iter().enumerate() {
            match ev {
                Ev::Submit { tag, kind, t, state, timeout_ms, topic, .. } => {
                    let r = tags.entry(*tag).or_default();
                    r.kind = Some(*kind);
                    r.submit_ev = i;
                    r.submit_t = *t;
                    r.submit_state = Some(*state);
                    r.timeout_ms = *timeout_ms;
                    r.topic = topic.clone();
                }
                Ev::Done { tag, t, done, call } => {
                    tags.entry(*tag).or_default().dones.push((i, *t, done.clone(), *call));
                }
                Ev::Open { conn, t, deadline } => {
                    conns.insert(*conn, ConnRec { open_ev: i, open_t: *t, deadline: *deadline, ..Default::default() });
                }
                Ev::Close { conn, t, delivered, emitted } => {
                    if let Some(c) = conns.get_mut(conn) {
                        c.close_ev = Some(i);
                        c.close_t = Some(*t);
                        c.emitted_len = *emitted;
                        c.delivered_len = *delivered;
                    }
                }
                Ev::StillOpen { conn, delivered, emitted, .. } => {
                    if let Some(c) = conns.get_mut(conn) {
                        c.emitted_len = *emitted;
                        c.delivered_len = *delivered;
                    }
                }
                Ev::Reset { .. } => reset_ev = Some(i),
                Ev::DrainStart { .. } => drain_start_ev = Some(i),
                Ev::DrainEnd { quiescent, steps, .. } => {
                    drain_quiescent = Some(*quiescent);
                    drain_step_bound_hit = *steps >= 3_000;
                }
                Ev::Emit { ix } => {
                    emit_ev[*ix] = i;
                    let e = &tr.emitted[*ix];
                    if let Some(c) = conns.get_mut(&e.conn) {
                        c.pkts.push(*ix);
                    }
                    match &e.pkt {
                        rf::Packet::Publish(p) => {
                            if let Some(tag) = e.tag {
                                tags.entry(tag).or_default().emits.push(*ix);
                                if p.qos == 2 {
                                    if let Some(pid) = p.pid {
                                        last_pub_pid.insert(pid, tag);
                                    }
                                }
                            }
                        }
                        rf::Packet::Subscribe(s) => {
                            if let Some(tag) = e.tag {
                                let r = tags.entry(tag).or_default();
                                r.emits.push(*ix);
                                r.n = s.entries.len();
                            }
                        }
                        rf::Packet::Unsubscribe(u) => {
                            if let Some(tag) = e.tag {
                                let r = tags.entry(tag).or_default();
                                r.emits.push(*ix);
                                r.n = u.filters.len();
                            }
                        }
                        rf::Packet::Pubrel(a) => {
                            if let Some(tag) = last_pub_pid.get(&a.pid) {
                                tags.entry(*tag).or_default().pubrels.push(*ix);
                            }
                        }
                        _ => {}
                    }
                }
                Ev::Surfaced { conn, t, what: Surf::Connack { success: true, session_present }, .. } => {
                    if let Some(c) = conns.get_mut(conn) {
                        if c.connack_ok_ev.is_none() {
                            c.connack_ok_ev = Some(i);
                            c.connack_ok_t = Some(*t);
                            c.session_present = Some(*session_present);
                        }
                    }
                }
                Ev::SrvSend { conn, desc: SrvDesc::Connack { success: true, settings, .. }, .. } => {
                    if let Some(c) = conns.get_mut(conn) {
                        if c.connack.is_none() {
                            c.connack = settings.clone();
                        }
                    }
                }
                Ev::Call { result: Err(_), conn: Some(conn), kind, .. } => {
                    if !matches!(kind, CallKind::Close) {
                        if let Some(c) = conns.get_mut(conn) {
                            if c.first_err_ev.is_none() {
                                c.first_err_ev = Some(i);
                            }
                        }
                    }
                }
                _ => {}
            }
        }
        Index { tr, cfg, tags, conns, emit_ev, reset_ev, drain_start_ev, drain_quiescent, drain_step_bound_hit }
    }

    pub fn conn_of_ev(&self, ev: usize) -> Option<usize> {
        // the connection that was open at event index `ev`
        let mut best = None;
        for (id, c) in &self.conns {
            if c.open_ev <= ev && c.close_ev.map(|x| ev <= x).unwrap_or(true) {
                best = Some(*id);
            }
        }
        best
    }

    /// successful CONNACKs processed with event index in (from, to]
    pub fn session_lost_between(&self, from: usize, to: usize) -> bool {
        self.conns.values().any(|c| match (c.connack_ok_ev, c.session_present) {
            (Some(e), Some(false)) => e > from && e <= to,
            _ => false,
        })
    }

    pub fn panicked(&self) -> bool {
        self.tr.evs.iter().any(|e| matches!(e, Ev::Panic { .. }))
    }
}

pub fn keeps(policy: u8, kind: Kind) -> bool {
    match policy {
        0 => true,
        1 => !matches!(kind, Kind::Pub0),
        2 => matches!(kind, Kind::Pub1 | Kind::Pub2),
        _ => false,
    }
}

fn v(rule: &str, sig: impl Into<String>, detail: impl Into<String>) -> Violation {
    Violation::new(rule, sig, detail)
}

fn done_is_ok(d: &Done) -> bool {
    !matches!(d, Done::Err(..))
}

// ================================================================================================
// C01
// ================================================================================================

pub fn m01(ix: &Index) -> Vec<Violation> {
    let mut out = Vec::new();
    let tr = ix.tr;
    let dup_ack_used = tr.evs.iter().any(|e| matches!(e, Ev::SrvSend { desc: SrvDesc::Adversarial(Adv::DuplicateAck), .. }));
    // nonce -> (for_tag, type_code)
    let mut nonce_map: BTreeMap<String, (Option<u32>, u8)> = BTreeMap::new();
    for e in &tr.evs {
        if let Ev::SrvSend { desc: SrvDesc::Ack { type_code, nonce: Some(n), for_tag, .. }, .. } = e {
            nonce_map.insert(n.clone(), (*for_tag, *type_code));
        }
    }
    for e in &tr.evs {
        if let Ev::UnknownDone { token, .. } = e {
            out.push(v("C01.unknown_token", "completion for a token that was never handed out", format!("token {}", token)));
        }
    }
    for (tag, r) in &ix.tags {
        let kind = match r.kind {
            Some(k) => k,
            None => continue,
        };
        if r.dones.len() > 1 {
            out.push(v("C01.resolved_twice", format!("{:?} resolved more than once", kind), format!("tag {} outcomes {:?}", tag, r.dones.iter().map(|d| &d.2).collect::<Vec<_>>())));
        }
        if let Some((dev, _t, done, call)) = r.dones.first() {
            // the most recent emission of this operation before it was resolved
            let last_emit = r.emits.iter().rev().find(|&&e| ix.emit_ev[e] < *dev || tr.emitted[e].call <= *call).copied();
            let last_pid = last_emit.and_then(|e| match &tr.emitted[e].pkt {
                rf::Packet::Publish(p) => p.pid,
                rf::Packet::Subscribe(s) => Some(s.pid),
                rf::Packet::Unsubscribe(u) => Some(u.pid),
                _ => None,
            });
            let mut check_ack = |type_ok: bool, pid: u16, nonce: &Option<String>, expect_type: u8, what: &str| {
                if !type_ok {
                    out.push(v("C01.wrong_ack_type", format!("{:?} completed by {}", kind, what), format!("tag {} done {:?}", tag, done)));
                    return;
                }
                match last_pid {
                    None => out.push(v("C01.completed_without_transmission", format!("{:?} completed by {} before it was ever transmitted", kind, what), format!("tag {} done {:?}", tag, done))),
                    Some(p) if p != pid => out.push(v("C01.foreign_packet_id", format!("{:?} completed by {} carrying another packet id", kind, what), format!("tag {} sent with id {} completed by id {}", tag, p, pid))),
                    _ => {}
                }
                if let (Some(n), false) = (nonce, dup_ack_used) {
                    match nonce_map.get(n) {
                        Some((for_tag, tc)) => {
                            if *tc != expect_type {
                                out.push(v("C01.wrong_ack_type", format!("{:?} completed by a packet of type {}", kind, tc), format!("tag {} nonce {}", tag, n)));
                            }
                            if let Some(ft) = for_tag {
                                if ft != tag {
                                    out.push(v("C01.foreign_ack", format!("{:?} completed by the acknowledgement of another operation", kind), format!("tag {} completed by ack {} that answered tag {}", tag, n, ft)));
                                }
                            }
                        }
                        None => out.push(v("C01.invented_ack", format!("{:?} completed by an acknowledgement the broker never sent", kind), format!("tag {} nonce {}", tag, n))),
                    }
                }
            };
            match (kind, done) {
                (_, Done::Err(..)) => {}
                (Kind::Pub0, Done::Qos0) => {
                    // must have been written: bytes emitted, and the completion came from a write completion
                    if last_emit.is_none() {
                        out.push(v("C01.qos0_completed_unwritten", "QoS0 publish reported written although its bytes never left", format!("tag {}", tag)));
                    }
                    let from_wc = tr.evs.iter().any(|e| matches!(e, Ev::Call { ix: c, kind: CallKind::WriteComplete, .. } if c == call));
                    if !from_wc {
                        out.push(v("C01.qos0_completed_outside_write_completion", "QoS0 publish completed by something other than a write completion", format!("tag {} call {}", tag, call)));
                    }
                }
                (Kind::Pub1, Done::Puback { pid, nonce, .. }) => check_ack(true, *pid, nonce, 4, "PUBACK"),
                (Kind::Pub2, Done::Pubcomp { pid, nonce, .. }) => check_ack(true, *pid, nonce, 7, "PUBCOMP"),
                (Kind::Pub2, Done::Pubrec { pid, nonce, reason }) => check_ack(*reason >= 0x80, *pid, nonce, 5, "PUBREC (non-failing)"),
                (Kind::Sub, Done::Suback { pid, nonce, reasons }) => {
                    check_ack(true, *pid, nonce, 9, "SUBACK");
                    if reasons.len() != r.n && r.n > 0 {
                        out.push(v("C01.reason_count", "SUBACK accepted with a reason code count different from the request", format!("tag {} requested {} got {}", tag, r.n, reasons.len())));
                    }
                }
                (Kind::Unsub, Done::Unsuback { pid, nonce, reasons }) => {
                    check_ack(true, *pid, nonce, 11, "UNSUBACK");
                    if reasons.len() != r.n && r.n > 0 {
                        out.push(v("C01.reason_count", "UNSUBACK accepted with a reason code count different from the request", format!("tag {} requested {} got {}", tag, r.n, reasons.len())));
                    }
                }
                (k, d) => out.push(v("C01.wrong_ack_type", format!("{:?} completed by an outcome of the wrong type", k), format!("tag {} done {:?}", tag, d))),
            }
        }
        // reset: everything unresolved must have been failed with the client-closed error by the reset call
        if let Some(rev) = ix.reset_ev {
            match r.dones.first() {
                None => out.push(v("C01.unresolved_after_reset", format!("{:?} left unresolved by reset", kind), format!("tag {}", tag))),
                Some((dev, _, done, _)) => {
                    if *dev > rev {
                        if !matches!(done, Done::Err(EK::ClientClosed, _)) {
                            out.push(v("C01.reset_wrong_error", format!("{:?} resolved by reset with something other than the client-closed error", kind), format!("tag {} {:?}", tag, done)));
                        }
                    }
                }
            }
        } else if r.dones.is_empty() && ix.drain_quiescent == Some(false) && !ix.drain_step_bound_hit && !ix.panicked() {
            out.push(v("C01.unresolved", format!("{:?} never resolved although a responsive broker was available until nothing more could be done", kind), format!("tag {} submitted at {} in state {:?}", tag, r.submit_t, r.submit_state)));
        }
    }
    // a failing PUBREC is the final acknowledgement of its QoS2 publish: once the engine has accepted it, the
    // operation must be resolved with exactly that PUBREC (not kept alive, not completed by something later)
    for (i, e) in tr.evs.iter().enumerate() {
        if let Ev::SrvSend { desc: SrvDesc::Ack { type_code: 5, reason, nonce: Some(n), for_tag: Some(t), .. }, compliant: true, .. } = e {
            if *reason < 0x80 {
                continue;
            }
            let r = match ix.tags.get(t) {
                Some(r) => r,
                None => continue,
            };
            if r.kind != Some(Kind::Pub2) || r.resolved_before(i) {
                continue;
            }
            // the window in which the bytes of this PUBREC are fed to the engine
            let mut end = i + 1;
            let mut calls = 0;
            let mut ok = true;
            while end < tr.evs.len() {
                match &tr.evs[end] {
                    Ev::SrvSend { .. } | Ev::Close { .. } | Ev::Reset { .. } | Ev::Open { .. } | Ev::DrainStart { .. } => break,
                    Ev::Call { kind: CallKind::Incoming, result, .. } => {
                        calls += 1;
                        if result.is_err() {
                            ok = false;
                        }
                    }
                    Ev::Call { kind: CallKind::Service | CallKind::ServiceUnasked | CallKind::WriteComplete | CallKind::Submit, .. } if calls > 0 => break,
                    Ev::Panic { .. } => ok = false,
                    _ => {}
                }
                end += 1;
            }
            if !ok || calls == 0 {
                continue;
            }
            match r.dones.first() {
                Some((dev, _, Done::Pubrec { nonce: Some(dn), .. }, _)) if *dev < end && dn == n => {}
                other => out.push(v("C01.failing_pubrec_not_final", "a QoS2 publish is not resolved by the failing PUBREC the engine accepted for it", format!("tag {} PUBREC reason {:#x} nonce {} outcome {:?}", t, reason, n, other.map(|d| &d.2)))),
            }
        }
    }
    for e in &tr.evs {
        if let Ev::FinalSnapshot { after_reset: true, tracked, allocated_ids, queues, timeouts, .. } = e {
            if *tracked != 0 || *allocated_ids != 0 || *queues != 0 || *timeouts != 0 {
                out.push(v("C01.reset_leaves_state", "reset leaves operations, queues, ids or timers tracked", format!("tracked {} ids {} queues {} timeouts {}", tracked, allocated_ids, queues, timeouts)));
            }
        }
    }
    out
}

// ================================================================================================
// C04
// ================================================================================================

pub fn m04(ix: &Index) -> Vec<Violation> {
    let mut out = Vec::new();
    let tr = ix.tr;
    // delivered PUBRECs (successfully processed): (event index, conn, pid, reason)
    let mut pubrecs: Vec<(usize, usize, u16, u8)> = Vec::new();
    for (i, e) in tr.evs.iter().enumerate() {
        if let Ev::SrvSend { conn, desc: SrvDesc::Ack { type_code: 5, pid, reason, .. }, .. } = e {
            // processed iff the following incoming calls succeeded
            let ok = tr.evs[i + 1..].iter().take_while(|x| !matches!(x, Ev::SrvSend { .. })).all(|x| !matches!(x, Ev::Call { kind: CallKind::Incoming, result: Err(_), .. } | Ev::Panic { .. }));
            if ok {
                pubrecs.push((i, *conn, *pid, *reason));
            }
        }
    }
    for (tag, r) in &ix.tags {
        let kind = match r.kind {
            Some(k) if matches!(k, Kind::Pub1 | Kind::Pub2) => k,
            _ => continue,
        };
        let done_ev = r.done_ev();
        let mut prev: Option<usize> = None;
        let mut seen_conns: BTreeSet<usize> = BTreeSet::new();
        for &e in &r.emits {
            let em = &tr.emitted[e];
            let p = match &em.pkt {
                rf::Packet::Publish(p) => p,
                _ => continue,
            };
            let eev = ix.emit_ev[e];
            if let Some(d) = done_ev {
                if eev > d {
                    out.push(v("C04.sent_after_completion", format!("{:?} transmitted again after its outcome was reported", kind), format!("tag {} conn {}", tag, em.conn)));
                }
            }
            if !seen_conns.insert(em.conn) {
                out.push(v("C04.publish_twice_on_connection", format!("{:?} PUBLISH repeated within one connection", kind), format!("tag {} conn {}", tag, em.conn)));
            }
            match prev {
                None => {
                    if p.dup {
                        out.push(v("C04.first_transmission_dup", format!("first transmission of a {:?} has DUP=1", kind), format!("tag {} conn {}", tag, em.conn)));
                    }
                }
                Some(pe) => {
                    let pem = &tr.emitted[pe];
                    let pp = match &pem.pkt {
                        rf::Packet::Publish(p) => p,
                        _ => continue,
                    };
                    let lost = ix.session_lost_between(ix.emit_ev[pe], eev);
                    if lost {
                        if p.dup {
                            out.push(v("C04.dup_after_session_loss", format!("{:?} restarted after the server reported no session but with DUP=1", kind), format!("tag {} conn {}", tag, em.conn)));
                        }
                    } else if em.conn != pem.conn {
                        if !p.dup {
                            out.push(v("C04.retransmission_without_dup", format!("{:?} retransmitted on a resumed session with DUP=0", kind), format!("tag {} conn {} -> {}", tag, pem.conn, em.conn)));
                        }
                        if p.pid != pp.pid {
                            out.push(v("C04.retransmission_new_id", format!("{:?} retransmitted on a resumed session with a different packet id", kind), format!("tag {} {:?} -> {:?}", tag, pp.pid, p.pid)));
                        }
                        let mut a = p.clone();
                        let mut b = pp.clone();
                        a.dup = false;
                        b.dup = false;
                        a.pid = None;
                        b.pid = None;
                        // topic aliasing may legitimately change the wire topic; compare application content
                        a.topic_alias = None;
                        b.topic_alias = None;
                        if a.topic.is_empty() || b.topic.is_empty() {
                            a.topic.clear();
                            b.topic.clear();
                        }
                        if a != b {
                            out.push(v("C04.retransmission_content", format!("{:?} retransmitted with different application content", kind), format!("tag {}", tag)));
                        }
                    }
                }
            }
            // no PUBLISH once a PUBREC for it was received, within the same session lineage
            if kind == Kind::Pub2 {
                if let Some(pid) = p.pid {
                    // the PUBREC must answer an earlier emission of this tag with that id
                    for (rev, _rc, rpid, reason) in &pubrecs {
                        if *rpid == pid && *rev < eev && *reason < 0x80 {
                            let answered = r.emits.iter().any(|&x| ix.emit_ev[x] < *rev && matches!(&tr.emitted[x].pkt, rf::Packet::Publish(q) if q.pid == Some(pid)) && !r.emits.iter().any(|&y| ix.emit_ev[y] > ix.emit_ev[x] && ix.emit_ev[y] < *rev && false));
                            // the id might have belonged to another operation when the PUBREC came; require that this tag was the latest user of the id
                            let latest_user_is_tag = ix
                                .tags
                                .iter()
                                .flat_map(|(t2, r2)| r2.emits.iter().map(move |&x| (*t2, x)))
                                .filter(|(_, x)| ix.emit_ev[*x] < *rev && matches!(&tr.emitted[*x].pkt, rf::Packet::Publish(q) if q.pid == Some(pid)))
                                .max_by_key(|(_, x)| ix.emit_ev[*x])
                                .map(|(t2, _)| t2 == *tag)
                                .unwrap_or(false);
                            if answered && latest_user_is_tag && !ix.session_lost_between(*rev, eev) {
                                out.push(v("C04.publish_after_pubrec", "QoS2 PUBLISH sent again after its PUBREC had been received", format!("tag {} pid {} conn {}", tag, pid, em.conn)));
                            }
                        }
                    }
                }
            }
            prev = Some(e);
        }
        // PUBRELs attributed to this tag
        let mut rel_conns: BTreeSet<usize> = BTreeSet::new();
        for &e in &r.pubrels {
            let em = &tr.emitted[e];
            let eev = ix.emit_ev[e];
            let pid = match &em.pkt {
                rf::Packet::Pubrel(a) => a.pid,
                _ => continue,
            };
            // is this tag still the owner of the id (latest QoS2 publish with that id before the PUBREL)?
            if let Some(d) = done_ev {
                if eev > d {
                    // the id may have been recycled by a later operation: only flag if no later QoS2 publish used the id
                    let recycled = ix.tags.iter().any(|(t2, r2)| t2 != tag && r2.emits.iter().any(|&x| ix.emit_ev[x] > d && ix.emit_ev[x] < eev && matches!(&tr.emitted[x].pkt, rf::Packet::Publish(q) if q.pid == Some(pid))));
                    if !recycled {
                        out.push(v("C04.pubrel_after_completion", "PUBREL sent for a message whose outcome had been reported", format!("tag {} pid {}", tag, pid)));
                    }
                    continue;
                }
            }
            if !rel_conns.insert(em.conn) {
                out.push(v("C04.pubrel_twice_on_connection", "PUBREL repeated within one connection", format!("tag {} pid {} conn {}", tag, pid, em.conn)));
            }
            let had_rec = pubrecs.iter().any(|(rev, _, rpid, reason)| *rpid == pid && *rev < eev && *reason < 0x80);
            if !had_rec {
                out.push(v("C04.pubrel_without_pubrec", "PUBREL sent although no PUBREC had been received", format!("tag {} pid {}", tag, pid)));
            }
        }
    }
    // "re-sent after a resumed reconnect until PUBCOMP/PUBACK": decidable at the end of the drain phase, where a
    // responsive compliant broker was available until nothing more happened - a message that is still
    // unacknowledged then must at least have been retransmitted (PUBLISH or PUBREL) on the final, resumed connection
    if ix.reset_ev.is_none() && ix.drain_quiescent == Some(false) && !ix.drain_step_bound_hit && !ix.panicked() {
        if let Some((last_id, last)) = ix.conns.iter().next_back() {
            if last.session_present == Some(true) && last.first_err_ev.is_none() && last.close_ev.is_none() {
                for (tag, r) in &ix.tags {
                    if !matches!(r.kind, Some(Kind::Pub1 | Kind::Pub2)) || !r.dones.is_empty() {
                        continue;
                    }
                    let sent_before = r.emits.iter().chain(r.pubrels.iter()).any(|&x| tr.emitted[x].conn < *last_id);
                    let sent_here = r.emits.iter().chain(r.pubrels.iter()).any(|&x| tr.emitted[x].conn == *last_id);
                    let lost = r.emits.iter().chain(r.pubrels.iter()).map(|&x| ix.emit_ev[x]).max().map(|e| ix.session_lost_between(e, usize::MAX)).unwrap_or(false);
                    if sent_before && !sent_here && !lost {
                        out.push(v("C04.retransmission_missing", "an unacknowledged QoS1/2 message is neither retransmitted nor released on a resumed connection with a responsive broker", format!("tag {} conn {}", tag, last_id)));
                    }
                }
            }
        }
    }
    // PUBRELs that belong to nobody
    for (i, em) in tr.emitted.iter().enumerate() {
        if let rf::Packet::Pubrel(a) = &em.pkt {
            let owned = ix.tags.values().any(|r| r.pubrels.contains(&i));
            if !owned {
                out.push(v("C04.pubrel_without_owner", "PUBREL sent for an identifier no QoS2 publish had used", format!("pid {} conn {}", a.pid, em.conn)));
            }
        }
    }
    out
}

// ================================================================================================
// C05
// ================================================================================================

pub fn m05(ix: &Index) -> Vec<Violation> {
    let mut out = Vec::new();
    let tr = ix.tr;
    let mut unreleased: BTreeSet<u16> = BTreeSet::new();
    // per connection: expected surfaced tags, expected acks
    let mut exp_surf: BTreeMap<usize, Vec<u32>> = BTreeMap::new();
    let mut exp_acks: BTreeMap<usize, Vec<(u8, u16)>> = BTreeMap::new();
    let mut got_surf: BTreeMap<usize, Vec<u32>> = BTreeMap::new();
    let n = tr.evs.len();
    let mut i = 0;
    while i < n {
        match &tr.evs[i] {
            Ev::Surfaced { what: Surf::Connack { success: true, session_present: false }, .. } => {
                unreleased.clear();
            }
            Ev::Surfaced { conn, what: Surf::Publish { payload_tag: Some(t), .. }, .. } => {
                got_surf.entry(*conn).or_default().push(*t);
            }
            Ev::SrvSend { conn, desc, .. } => {
                // was the packet processed? (all incoming calls up to the next server send succeeded, and at least one happened)
                let mut j = i + 1;
                let mut calls = 0;
                let mut ok = true;
                while j < n && !matches!(tr.evs[j], Ev::SrvSend { .. }) {
                    match &tr.evs[j] {
                        Ev::Call { kind: CallKind::Incoming, result, .. } => {
                            calls += 1;
                            if result.is_err() {
                                ok = false;
                            }
                        }
                        Ev::Panic { .. } => ok = false,
                        Ev::Call { kind, .. } if !matches!(kind, CallKind::Incoming) => break,
                        _ => {}
                    }
                    j += 1;
                }
                if ok && calls > 0 {
                    match desc {
                        SrvDesc::Publish { qos, pid, payload_tag, .. } => match qos {
                            0 => exp_surf.entry(*conn).or_default().push(*payload_tag),
                            1 => {
                                exp_surf.entry(*conn).or_default().push(*payload_tag);
                                exp_acks.entry(*conn).or_default().push((4, *pid));
                            }
                            _ => {
                                if !unreleased.contains(pid) {
                                    exp_surf.entry(*conn).or_default().push(*payload_tag);
                                    unreleased.insert(*pid);
                                }
                                exp_acks.entry(*conn).or_default().push((5, *pid));
                            }
                        },
                        SrvDesc::Pubrel { pid } => {
                            unreleased.remove(pid);
                            exp_acks.entry(*conn).or_default().push((7, *pid));
                        }
                        _ => {}
                    }
                }
            }
            _ => {}
        }
        i += 1;
    }
    for (conn, c) in &ix.conns {
        let empty_t: Vec<u32> = Vec::new();
        let es = exp_surf.get(conn).unwrap_or(&empty_t);
        let gs = got_surf.get(conn).unwrap_or(&empty_t);
        if es != gs {
            // classify
            let sig = if gs.len() > es.len() || gs.iter().any(|t| gs.iter().filter(|x| *x == t).count() > es.iter().filter(|x| *x == t).count()) {
                "an inbound message was surfaced more often than the model allows (duplicate QoS2 delivery or surplus)"
            } else if gs.len() < es.len() && es.starts_with(gs) || gs.iter().all(|t| es.contains(t)) && gs.len() < es.len() {
                "an inbound message that should have been surfaced was suppressed"
            } else {
                "inbound messages surfaced out of wire order"
            };
            out.push(v("C05.surfaced_sequence", sig, format!("conn {} expected {:x?} got {:x?}", conn, es, gs)));
        }
        let empty_a: Vec<(u8, u16)> = Vec::new();
        let ea = exp_acks.get(conn).unwrap_or(&empty_a);
        let ga: Vec<(u8, u16)> = c
            .pkts
            .iter()
            .filter_map(|&p| match &tr.emitted[p].pkt {
                rf::Packet::Puback(a) => Some((4u8, a.pid)),
                rf::Packet::Pubrec(a) => Some((5u8, a.pid)),
                rf::Packet::Pubcomp(a) => Some((7u8, a.pid)),
                _ => None,
            })
            .collect();
        if ga.len() > ea.len() || ea[..ga.len()] != ga[..] {
            let sig = if ga.len() > ea.len() { "more acknowledgements sent than packets received" } else { "acknowledgements do not leave in the order of the packets they answer (or carry a wrong type/id)" };
            out.push(v("C05.ack_sequence", sig, format!("conn {} expected prefix of {:?} got {:?}", conn, ea, ga)));
        } else if ga.len() < ea.len() {
            // an answer may only be lost because the connection ended first
            let ended = c.close_ev.is_some() || c.first_err_ev.is_some();
            if !ended && ix.drain_quiescent == Some(true) && !ix.drain_step_bound_hit {
                out.push(v("C05.ack_missing", "an acknowledgement was never sent although the connection stayed up", format!("conn {} expected {:?} got {:?}", conn, ea, ga)));
            }
        }
    }
    out
}

// ================================================================================================
// C06
// ================================================================================================

pub fn m06(ix: &Index) -> Vec<Violation> {
    let mut out = Vec::new();
    let tr = ix.tr;
    for (i, em) in tr.emitted.iter().enumerate() {
        let (pid, tag) = match &em.pkt {
            rf::Packet::Publish(p) if p.qos > 0 => (p.pid.unwrap_or(0), em.tag),
            rf::Packet::Subscribe(s) => (s.pid, em.tag),
            rf::Packet::Unsubscribe(u) => (u.pid, em.tag),
            _ => continue,
        };
        if pid == 0 {
            out.push(v("C06.zero_id", "packet sent with packet identifier 0", format!("{} conn {}", em.pkt.type_name(), em.conn)));
            continue;
        }
        let eev = ix.emit_ev[i];
        let tag = match tag {
            Some(t) => t,
            None => continue,
        };
        for (t2, r2) in &ix.tags {
            if *t2 == tag || r2.resolved_before(eev) {
                continue;
            }
            let k2 = match r2.kind {
                Some(k) => k,
                None => continue,
            };
            // latest emission of t2 strictly before this one
            let last = r2.emits.iter().rev().find(|&&x| ix.emit_ev[x] < eev).copied();
            let last = match last {
                Some(l) => l,
                None => continue,
            };
            let lp = match &tr.emitted[last].pkt {
                rf::Packet::Publish(p) => p.pid.unwrap_or(0),
                rf::Packet::Subscribe(s) => s.pid,
                rf::Packet::Unsubscribe(u) => u.pid,
                _ => 0,
            };
            if lp != pid {
                continue;
            }
            let awaiting = if k2.is_publish() { !ix.session_lost_between(ix.emit_ev[last], eev) } else { tr.emitted[last].conn == em.conn };
            if awaiting {
                out.push(v("C06.id_in_use", "packet identifier handed to an operation while another unresolved operation still awaits its acknowledgement under that identifier", format!("id {} given to tag {} while tag {} ({:?}) awaits it", pid, tag, t2, k2)));
            }
        }
    }
    // "an identifier stays reserved exactly as long as its operation is incomplete": right after the service call that
    // puts an identifier on the wire the engine must hold it reserved (unless the same call also resolved the operation)
    for (i, em) in tr.emitted.iter().enumerate() {
        if em.id_reserved_after == Some(false) {
            let owner = match &em.pkt {
                rf::Packet::Pubrel(_) => ix.tags.iter().find(|(_, r)| r.pubrels.contains(&i)).map(|(t, _)| *t),
                _ => em.tag,
            };
            let resolved_by_same_call = owner.and_then(|t| ix.tags.get(&t)).map(|r| r.dones.iter().any(|d| d.3 == em.call)).unwrap_or(false);
            if !resolved_by_same_call && owner.is_some() {
                out.push(v("C06.id_not_reserved", format!("{} sent with a packet identifier the engine does not hold reserved", em.pkt.type_name()), format!("conn {} tag {:?}", em.conn, owner)));
            }
        }
    }
    for e in &tr.evs {
        if let Ev::FinalSnapshot { after_reset, allocated_ids, unresolved_tags, .. } = e {
            if *allocated_ids != 0 && (*unresolved_tags == 0 || *after_reset) {
                out.push(v("C06.id_leak", "packet identifiers stay reserved after every operation has completed", format!("{} ids reserved, after_reset={}", allocated_ids, after_reset)));
            }
        }
    }
    out
}

// ================================================================================================
// C07
// ================================================================================================

pub fn expected_connect(cfg: &SimCfg, connected_before: bool, prior_client_id: Option<&str>) -> rf::Connect {
    let clean_start = match cfg.rejoin {
        0 => !connected_before,
        1 => false,
        _ => true,
    };
    let client_id = match (&cfg.client_id, prior_client_id) {
        (Some(id), _) => id.clone(),
        (None, Some(p)) => p.to_string(),
        (None, None) => String::new(),
    };
    // MQTT 3.1.1: a zero-length client id requires CleanSession 1 [MQTT-3.1.3-7]
    let clean_start = clean_start || (!cfg.v5 && client_id.is_empty());
    let mut c = rf::Connect { clean_start, keep_alive: cfg.keep_alive.unwrap_or(0), client_id, ..Default::default() };
    if cfg.v5 {
        c.session_expiry = cfg.session_expiry;
        c.topic_alias_maximum = cfg.client_alias_max;
        c.maximum_packet_size = cfg.client_max_packet;
    }
    c
}

pub fn m07(ix: &Index) -> Vec<Violation> {
    let mut out = Vec::new();
    let tr = ix.tr;
    let mut connected_before = false;
    let mut prior_id: Option<String> = None;
    for (conn, c) in &ix.conns {
        // --- exactly one CONNECT, first
        let mut connects = 0;
        for (pos, &p) in c.pkts.iter().enumerate() {
            let em = &tr.emitted[p];
            if let rf::Packet::Connect(cn) = &em.pkt {
                connects += 1;
                if pos != 0 {
                    out.push(v("C07.connect_not_first", "CONNECT is not the first packet of the connection", format!("conn {}", conn)));
                }
                if connects == 1 {
                    let exp = expected_connect(ix.cfg, connected_before, prior_id.as_deref());
                    if *cn != exp {
                        let sig = if cn.clean_start != exp.clean_start {
                            "CONNECT clean-start differs from the rejoin policy and connection history"
                        } else if cn.client_id != exp.client_id {
                            "CONNECT client identifier differs from the configured / previously assigned one"
                        } else {
                            "CONNECT does not reflect the configured connect options"
                        };
                        out.push(v("C07.connect_content", sig, format!("conn {} expected {:?} got {:?}", conn, exp, cn)));
                    }
                }
            } else if pos == 0 {
                out.push(v("C07.first_packet_not_connect", "first packet of the connection is not CONNECT", format!("conn {} {}", conn, em.pkt.type_name())));
            }
            // nothing else before a successful CONNACK has been processed
            if !matches!(em.pkt, rf::Packet::Connect(_)) {
                let eev = ix.emit_ev[p];
                let after_connack = c.connack_ok_ev.map(|x| x < eev).unwrap_or(false);
                if !after_connack {
                    out.push(v("C07.packet_before_connack", format!("{} sent before a successful CONNACK was processed", em.pkt.type_name()), format!("conn {}", conn)));
                }
            }
        }
        if connects > 1 {
            out.push(v("C07.connect_repeated", "more than one CONNECT on a connection", format!("conn {}", conn)));
        }
        // --- nothing after DISCONNECT
        if let Some(dpos) = c.pkts.iter().position(|&p| matches!(tr.emitted[p].pkt, rf::Packet::Disconnect(_))) {
            let d_end = tr.emitted[c.pkts[dpos]].end;
            if dpos + 1 < c.pkts.len() || c.emitted_len > d_end {
                out.push(v("C07.bytes_after_disconnect", "bytes sent on a connection after DISCONNECT was written", format!("conn {} disconnect ends at {} stream length {}", conn, d_end, c.emitted_len)));
            }
        }
        // --- negotiated settings
        if let (Some(_), Some(ck)) = (c.connack_ok_ev, &c.connack) {
            let seen = tr.evs.iter().find_map(|e| match e {
                Ev::SettingsSeen { conn: c2, settings } if c2 == conn => Some(settings.clone()),
                _ => None,
            });
            if let Some(s) = seen {
                let exp_id = ck.assigned_client_id.clone().or(ix.cfg.client_id.clone()).or(prior_id.clone()).unwrap_or_default();
                let exp = (
                    ck.maximum_qos.unwrap_or(2),
                    ck.session_expiry.or(ix.cfg.session_expiry.filter(|_| ix.cfg.v5)).unwrap_or(0),
                    ck.receive_maximum.unwrap_or(65535),
                    ck.maximum_packet_size.unwrap_or(268_435_455),
                    ck.topic_alias_maximum.unwrap_or(0),
                    ck.server_keep_alive.unwrap_or(ix.cfg.keep_alive.unwrap_or(0)),
                    ck.retain_available.unwrap_or(true),
                    ck.wildcard_subscription_available.unwrap_or(true),
                    ck.subscription_identifiers_available.unwrap_or(true),
                    ck.shared_subscription_available.unwrap_or(true),
                    ck.session_present,
                    exp_id.clone(),
                );
                let got = (
                    crate::sim::qos_num(s.maximum_qos),
                    s.session_expiry_interval,
                    s.receive_maximum_from_server,
                    s.maximum_packet_size_to_server,
                    s.topic_alias_maximum_to_server,
                    s.server_keep_alive,
                    s.retain_available,
                    s.wildcard_subscriptions_available,
                    s.subscription_identifiers_available,
                    s.shared_subscriptions_available,
                    s.rejoined_session,
                    s.client_id.clone(),
                );
                if exp != got {
                    out.push(v("C07.negotiated_settings", "negotiated settings differ from merge(CONNACK, CONNECT, specification defaults)", format!("conn {} expected {:?} got {:?}", conn, exp, got)));
                }
                prior_id = Some(exp_id);
            }
            connected_before = true;
        }
    }
    // --- CONNACK handling: failing / repeated / unsolicited CONNACK and other packets before CONNACK are connection errors
    let n = tr.evs.len();
    for i in 0..n {
        if let Ev::SrvSend { conn, desc, .. } = &tr.evs[i] {
            // state before = `before` of the first incoming call
            let mut first_before = None;
            let mut any_err = false;
            let mut last_after = None;
            let mut j = i + 1;
            while j < n {
                match &tr.evs[j] {
                    Ev::Call { kind: CallKind::Incoming, before, after, result, post_error, .. } => {
                        if *post_error {
                            first_before = None;
                            break;
                        }
                        if first_before.is_none() {
                            first_before = Some(*before);
                        }
                        if result.is_err() {
                            any_err = true;
                        }
                        last_after = Some(*after);
                    }
                    Ev::Done { .. } | Ev::Surfaced { .. } | Ev::SettingsSeen { .. } => {}
                    _ => break,
                }
                j += 1;
            }
            let before = match first_before {
                Some(b) => b,
                None => continue,
            };
            let must_fail = match desc {
                SrvDesc::Connack { success: false, .. } => Some("failing CONNACK"),
                SrvDesc::Connack { success: true, .. } if before != EState::PendingConnack => Some("repeated or unsolicited CONNACK"),
                SrvDesc::Adversarial(Adv::SecondConnack) if before != EState::PendingConnack => Some("repeated or unsolicited CONNACK"),
                SrvDesc::Ack { .. } | SrvDesc::Publish { .. } | SrvDesc::Pubrel { .. } | SrvDesc::Pingresp | SrvDesc::Disconnect if before == EState::PendingConnack => Some("packet other than CONNACK before CONNACK"),
                SrvDesc::Adversarial(a) if before == EState::PendingConnack && !matches!(a, Adv::SecondConnack | Adv::Truncated | Adv::Garbage | Adv::DuplicateAck) => Some("packet other than CONNACK before CONNACK"),
                _ => None,
            };
            if let Some(what) = must_fail {
                if !any_err || last_after == Some(EState::Connected) {
                    out.push(v("C07.bad_handshake_accepted", format!("{} did not produce a connection error", what), format!("conn {} state before {:?} after {:?}", conn, before, last_after)));
                }
            }
        }
    }
    // --- establishment deadline
    for (i, e) in tr.evs.iter().enumerate() {
        match e {
            Ev::NextService { t, answer, state: EState::PendingConnack } => {
                if let Some(cid) = ix.conn_of_ev(i) {
                    let c = &ix.conns[&cid];
                    let errored = c.first_err_ev.map(|x| x < i).unwrap_or(false);
                    if !errored && *t <= c.deadline {
                        match answer {
                            Some(a) if *a <= c.deadline => {}
                            _ => out.push(v("C07.deadline_not_reported", "while waiting for CONNACK the reported next-service time is later than the establishment deadline", format!("conn {} deadline {} answer {:?}", cid, c.deadline, answer))),
                        }
                    }
                }
            }
            Ev::Call { kind: CallKind::Service, t, before: EState::PendingConnack, result, after, post_error: false, conn: Some(cid), .. } => {
                let c = &ix.conns[cid];
                if *t >= c.deadline && (result.is_ok() || *after == EState::Connected) {
                    out.push(v("C07.deadline_ignored", "no CONNACK by the establishment deadline, yet the service call at or after the deadline did not fail the connection", format!("conn {} deadline {} t {}", cid, c.deadline, t)));
                }
                if *t < c.deadline && matches!(result, Err(EK::ConnectionEstablishmentFailure)) {
                    out.push(v("C07.deadline_early", "connection establishment failed before the deadline", format!("conn {} deadline {} t {}", cid, c.deadline, t)));
                }
            }
            _ => {}
        }
    }
    out
}

// ================================================================================================
// C09
// ================================================================================================

pub fn m09(ix: &Index) -> Vec<Violation> {
    let mut out = Vec::new();
    let tr = ix.tr;
    let mut prev_close: Option<(usize, usize)> = None; // (conn id, close ev)
    for (conn, c) in &ix.conns {
        let rm = c.connack.as_ref().and_then(|k| k.receive_maximum).unwrap_or(65535) as usize;
        // tags with an emission on this connection, with the event index of their first emission here
        let mut on_conn: Vec<(u32, usize, bool)> = Vec::new(); // tag, first emit ev, is qos>0 publish
        let mut interrupted: BTreeSet<u32> = BTreeSet::new();
        if ix.cfg.one_at_a_time {
            if let Some((pc, pcev)) = prev_close {
                for (tag, r) in &ix.tags {
                    let k = match r.kind {
                        Some(k) => k,
                        None => continue,
                    };
                    if !k.needs_ack() || r.resolved_before(pcev) {
                        continue;
                    }
                    let sent_there = r.emits.iter().chain(r.pubrels.iter()).any(|&x| tr.emitted[x].conn == pc);
                    if sent_there {
                        interrupted.insert(*tag);
                    }
                }
            }
        }
        for &p in &c.pkts {
            let em = &tr.emitted[p];
            let eev = ix.emit_ev[p];
            let (tag, ackable, is_pubq) = match &em.pkt {
                rf::Packet::Publish(pp) if pp.qos > 0 => (em.tag, true, true),
                rf::Packet::Subscribe(_) | rf::Packet::Unsubscribe(_) => (em.tag, true, false),
                rf::Packet::Pubrel(_) => {
                    let owner = ix.tags.iter().find(|(_, r)| r.pubrels.contains(&p)).map(|(t, _)| *t);
                    if let Some(t) = owner {
                        if !on_conn.iter().any(|(x, _, _)| *x == t) {
                            on_conn.push((t, eev, true));
                        }
                    }
                    continue;
                }
                _ => continue,
            };
            let tag = match tag {
                Some(t) => t,
                None => continue,
            };
            if !ackable {
                continue;
            }
            // outstanding before this emission
            // in flight: not resolved at the client - or reported *successful* to the application although the server
            // has not yet sent the acknowledgement that ends the exchange (PUBACK, PUBCOMP or a failing PUBREC): on a
            // correct client success implies that acknowledgement, so this adds nothing there, but a client that frees
            // the slot early (e.g. at a non-failing PUBREC) keeps occupying it from the server's point of view
            let server_finished_before = |t: &u32, ev: usize| -> bool {
                // packet ids this operation's PUBLISH used on this connection, with the event index of the emission
                let pids: Vec<(u16, usize)> = ix.tags[t].emits.iter().chain(ix.tags[t].pubrels.iter()).filter(|&&x| tr.emitted[x].conn == *conn).filter_map(|&x| match &tr.emitted[x].pkt {
                    rf::Packet::Publish(pp) => pp.pid.map(|p| (p, ix.emit_ev[x])),
                    rf::Packet::Pubrel(a) => Some((a.pid, ix.emit_ev[x])),
                    _ => None,
                }).collect();
                tr.evs[..ev].iter().enumerate().any(|(i, e)| match e {
                    Ev::SrvSend { conn: cc, desc: SrvDesc::Ack { type_code, reason, for_tag, pid, .. }, compliant: true, .. } if cc == conn => {
                        let mine = *for_tag == Some(*t);
                        (mine && (*type_code == 4 || (*type_code == 5 && *reason >= 0x80))) || (*type_code == 7 && (mine || pids.iter().any(|(p, pe)| p == pid && *pe < i)))
                    }
                    _ => false,
                })
            };
            let occupies = |t: &u32| -> bool {
                let r = &ix.tags[t];
                if !r.resolved_before(eev) {
                    return true;
                }
                match r.dones.first() {
                    Some((_, _, d, _)) if done_is_ok(d) => !server_finished_before(t, eev),
                    _ => false,
                }
            };
            let outstanding_pub = on_conn.iter().filter(|(t, _, q)| *q && *t != tag && occupies(t)).count();
            let outstanding_all = on_conn.iter().filter(|(t, _, _)| *t != tag && !ix.tags[t].resolved_before(eev)).count();
            if is_pubq && outstanding_pub + 1 > rm {
                out.push(v("C09.receive_maximum", "more QoS1/2 publishes in flight than the server's Receive Maximum", format!("conn {} receive maximum {} in flight {}", conn, rm, outstanding_pub + 1)));
            }
            if ix.cfg.one_at_a_time {
                let throttle_active = interrupted.iter().any(|t| !ix.tags[t].resolved_before(eev));
                if throttle_active && outstanding_all > 0 {
                    out.push(v("C09.one_at_a_time", "one-at-a-time drain policy: a second acknowledged operation was sent while interrupted operations were still unresolved", format!("conn {} tag {} outstanding {} interrupted {:?}", conn, tag, outstanding_all, interrupted)));
                }
            }
            if !on_conn.iter().any(|(x, _, _)| *x == tag) {
                on_conn.push((tag, eev, is_pubq));
            }
        }
        if let Some(cev) = c.close_ev {
            prev_close = Some((*conn, cev));
        }
    }
    out
}

// ================================================================================================
// C10
// ================================================================================================

pub fn m10(ix: &Index) -> Vec<Violation> {
    let mut out = Vec::new();
    let tr = ix.tr;
    for (conn, c) in &ix.conns {
        let mut seq: Vec<(u32, bool)> = Vec::new();
        for &p in &c.pkts {
            let em = &tr.emitted[p];
            let (tag, dup) = match &em.pkt {
                rf::Packet::Publish(pp) => (em.tag, pp.dup),
                rf::Packet::Subscribe(_) | rf::Packet::Unsubscribe(_) => (em.tag, false),
                _ => continue,
            };
            if let Some(t) = tag {
                if !seq.iter().any(|(x, _)| *x == t) {
                    seq.push((t, dup));
                }
            }
        }
        let r: Vec<u32> = seq.iter().filter(|(_, d)| *d).map(|(t, _)| *t).collect();
        let rest: Vec<u32> = seq.iter().filter(|(_, d)| !*d).map(|(t, _)| *t).collect();
        let first_rest_pos = seq.iter().position(|(_, d)| !*d);
        let last_r_pos = seq.iter().rposition(|(_, d)| *d);
        if let (Some(fr), Some(lr)) = (first_rest_pos, last_r_pos) {
            if fr < lr {
                out.push(v("C10.retransmissions_not_first", "a fresh operation was sent before a retransmission on the same connection", format!("conn {} order {:?}", conn, seq)));
            }
        }
        if r.windows(2).any(|w| w[0] > w[1]) {
            out.push(v("C10.retransmission_order", "retransmissions are not in original submission order", format!("conn {} retransmissions {:?}", conn, r)));
        }
        if rest.windows(2).any(|w| w[0] > w[1]) {
            out.push(v("C10.submission_order", "operations first transmitted out of submission order", format!("conn {} order {:?}", conn, rest)));
        }
    }
    out
}

// ================================================================================================
// C11
// ================================================================================================

fn panic_signature(kind: CallKind, msg: &str) -> String {
    let cleaned: String = msg.chars().map(|c| if c.is_ascii_digit() { '#' } else { c }).take(90).collect();
    format!("panic in {:?}: {}", kind, cleaned)
}

pub fn m11(ix: &Index, include_converse: bool) -> Vec<Violation> {
    let mut out = Vec::new();
    let tr = ix.tr;
    for e in &tr.evs {
        if let Ev::Panic { kind, msg, loc, post_error, after_unasked, t, .. } = e {
            if *post_error || *after_unasked {
                continue; // outside the domain: not an order a driver can produce
            }
            out.push(v("C11.panic", panic_signature(*kind, msg), format!("t={} {} at {}", t, msg, loc)));
        }
    }
    // (b) after an error the engine stays quiet until close
    for e in &tr.evs {
        if let Ev::Call { kind, result, bytes_out, post_error: true, ix: cix, conn, .. } = e {
            match kind {
                CallKind::Service | CallKind::ServiceUnasked => {
                    if *bytes_out > 0 {
                        out.push(v("C11.emits_after_error", "bytes emitted on a connection after the engine had reported a connection error", format!("conn {:?} {} bytes", conn, bytes_out)));
                    }
                    if result.is_ok() {
                        out.push(v("C11.service_after_error_ok", "service succeeds on a connection that has already failed", format!("conn {:?}", conn)));
                    }
                }
                CallKind::Incoming => {
                    if result.is_ok() {
                        out.push(v("C11.accepts_traffic_after_error", "inbound traffic accepted after the engine had reported a connection error", format!("conn {:?}", conn)));
                    }
                }
                _ => {}
            }
            let surfaced = tr.evs.iter().any(|x| matches!(x, Ev::Surfaced { call, .. } if call == cix));
            if surfaced {
                out.push(v("C11.surfaces_after_error", "a packet was surfaced after the engine had reported a connection error", format!("conn {:?}", conn)));
            }
        }
    }
    // connection-closed handling must not fail: both drivers leave their event loop for good when it does
    // ("... or abort its event loop"); closes that follow a reset (client closed) are outside this rule
    if ix.reset_ev.is_none() {
        for e in &tr.evs {
            if let Ev::Call { kind: CallKind::Close, result: Err(k), msg, before, conn, .. } = e {
                if *before != EState::Disconnected {
                    out.push(v("C11.close_failed", format!("connection-closed handling returns an error ({:?}); the drivers' event loop would exit", k), format!("conn {:?} state before {:?}: {}", conn, before, msg)));
                }
            }
        }
    }
    // protocol violations must be reported as a connection error
    let n = tr.evs.len();
    for i in 0..n {
        if let Ev::SrvSend { conn, desc: SrvDesc::Adversarial(a), .. } = &tr.evs[i] {
            if !must_be_rejected(*a, ix, i) {
                continue;
            }
            let mut any_err = false;
            let mut calls = 0;
            let mut j = i + 1;
            while j < n {
                match &tr.evs[j] {
                    Ev::Call { kind: CallKind::Incoming, result, post_error, .. } => {
                        if *post_error {
                            calls = 0;
                            break;
                        }
                        calls += 1;
                        if result.is_err() {
                            any_err = true;
                        }
                    }
                    Ev::Done { .. } | Ev::Surfaced { .. } | Ev::SettingsSeen { .. } => {}
                    _ => break,
                }
                j += 1;
            }
            if calls > 0 && !any_err {
                out.push(v("C11.violation_accepted", format!("server protocol violation {:?} was not reported as a connection error", a), format!("conn {}", conn)));
            }
        }
    }
    // (d') the decoder's verdict depends on the bytes of the current connection only: a connection on which every server
    // byte came from the reference encoder must never see a decoding error, whatever happened on earlier connections
    // (whole-history converse below is restricted to histories without any adversarial action)
    if include_converse && tr.adversarial_used {
        for (i, e) in tr.evs.iter().enumerate() {
            if let Ev::Call { kind: CallKind::Incoming, result: Err(EK::Decoding), msg, post_error: false, t, conn: Some(c), .. } = e {
                let tainted = tr.evs[..i].iter().any(|x| matches!(x, Ev::SrvSend { conn: cc, compliant: false, .. } if cc == c));
                if !tainted {
                    out.push(v("C11.compliant_server_blamed", format!("Decoding error on a connection whose server bytes were all well-formed: {}", msg.chars().map(|ch| if ch.is_ascii_digit() { '#' } else { ch }).take(80).collect::<String>()), format!("t={} conn {} {}", t, c, msg)));
                }
            }
        }
    }
    // (d) converse
    if include_converse && !tr.adversarial_used && !tr.unasked_service_used {
        for e in &tr.evs {
            if let Ev::Call { kind, result: Err(k), msg, post_error: false, t, .. } = e {
                // error kinds that put the blame on the peer
                let suspicious = matches!(k, EK::Protocol | EK::Decoding | EK::PacketValidation | EK::InvalidInboundTopicAlias | EK::Unimplemented) && matches!(kind, CallKind::Incoming);
                if suspicious && !matches!(kind, CallKind::Close | CallKind::Open) {
                    if *k == EK::Protocol && *kind == CallKind::Incoming && late_ack_before(ix, e) {
                        out.push(v("C11.compliant_server_blamed", "an acknowledgement that arrives after the operation's ack timeout has fired is reported as a protocol error", format!("t={} {}", t, msg)));
                        continue;
                    }
                    out.push(v("C11.compliant_server_blamed", format!("{:?} error although the server followed the protocol: {}", k, msg.chars().map(|c| if c.is_ascii_digit() { '#' } else { c }).take(80).collect::<String>()), format!("t={} {:?} {}", t, kind, msg)));
                }
            }
        }
    }
    out
}

/// Was the packet delivered by this failing incoming call a compliant acknowledgement for an operation that the
/// client had already failed with its ack timeout?
fn late_ack_before(ix: &Index, call_ev: &Ev) -> bool {
    let tr = ix.tr;
    let pos = match tr.evs.iter().position(|e| std::ptr::eq(e, call_ev)) {
        Some(p) => p,
        None => return false,
    };
    // the server send that this incoming call belongs to
    let send = tr.evs[..pos].iter().rev().find_map(|e| match e {
        Ev::SrvSend { desc: SrvDesc::Ack { pid, for_tag, .. }, compliant: true, .. } => Some(Some((*pid, *for_tag))),
        Ev::SrvSend { .. } => Some(None),
        _ => None,
    });
    let (pid, for_tag) = match send {
        Some(Some(x)) => x,
        _ => return false,
    };
    let timed_out = |r: &TagRec| matches!(r.dones.first(), Some((dev, _, Done::Err(EK::AckTimeout, _), _)) if *dev < pos);
    if let Some(t) = for_tag {
        if let Some(r) = ix.tags.get(&t) {
            if timed_out(r) {
                return true;
            }
        }
    }
    // PUBCOMP / PUBREC answered by packet id only
    ix.tags.values().any(|r| {
        timed_out(r)
            && r.emits.iter().any(|&x| match &tr.emitted[x].pkt {
                rf::Packet::Publish(p) => p.pid == Some(pid),
                rf::Packet::Subscribe(s) => s.pid == pid,
                rf::Packet::Unsubscribe(u) => u.pid == pid,
                _ => false,
            })
    })
}

/// Is this adversarial action certainly a protocol violation in the state it was sent in?
fn must_be_rejected(a: Adv, ix: &Index, ev: usize) -> bool {
    let _ = (ix, ev);
    match a {
        Adv::WrongTypeAck | Adv::UnknownIdAck | Adv::ReasonCountMismatch | Adv::Auth | Adv::SecondConnack | Adv::UnsolicitedPingresp | Adv::PublishPidZero | Adv::BadAlias | Adv::PubcompBeforePubrel | Adv::ServerDisconnectBeforeConnack | Adv::OversizedPacket | Adv::ClientOnlyPacket => true,
        // a duplicate of the last ack / random bytes / a truncated packet may happen to be acceptable
        Adv::DuplicateAck | Adv::Garbage | Adv::Truncated | Adv::PubcompGuess => false,
    }
}

// ================================================================================================
// C15
// ================================================================================================

pub fn m15(ix: &Index) -> Vec<Violation> {
    let mut out = Vec::new();
    let tr = ix.tr;
    let pol = ix.cfg.offline;
    // classify calls
    let mut call_kind: BTreeMap<usize, (CallKind, EState)> = BTreeMap::new();
    for e in &tr.evs {
        if let Ev::Call { ix: c, kind, before, .. } = e {
            call_kind.insert(*c, (*kind, *before));
        }
    }
    // CONNACK-processing calls with session absent
    let mut absent_connack_calls: BTreeSet<usize> = BTreeSet::new();
    for e in &tr.evs {
        if let Ev::Surfaced { what: Surf::Connack { success: true, session_present: false }, call, .. } = e {
            absent_connack_calls.insert(*call);
        }
    }
    for (tag, r) in &ix.tags {
        let kind = match r.kind {
            Some(k) => k,
            None => continue,
        };
        let keep = keeps(pol, kind);
        let done = r.dones.first();
        // 1. offline-policy failures only for rejected kinds, and only at the defined moments
        if let Some((_, _, Done::Err(EK::OfflineQueuePolicyFailed, _), call)) = done {
            if keep {
                out.push(v("C15.preserved_kind_failed", format!("{:?} failed by offline policy {} although the policy preserves it", kind, pol), format!("tag {}", tag)));
            }
            match call_kind.get(call) {
                Some((CallKind::Submit, st)) => {
                    if *st == EState::Connected {
                        out.push(v("C15.policy_applied_while_connected", format!("{:?} failed by the offline policy at submission while connected", kind), format!("tag {}", tag)));
                    }
                }
                Some((CallKind::Close, _)) => {}
                Some((CallKind::Incoming, _)) if absent_connack_calls.contains(call) => {}
                Some((CallKind::Reset, _)) => {}
                other => out.push(v("C15.policy_applied_at_wrong_time", format!("{:?} failed by the offline policy outside submission / disconnection / session loss", kind), format!("tag {} during {:?}", tag, other))),
            }
        }
        if let Some((_, _, Done::Err(EK::ConnectionClosed, _), _)) = done {
            out.push(v("C15.failed_with_connection_closed", format!("user {:?} failed with a connection-closed error", kind), format!("tag {}", tag)));
        }
        // 2. rejected kind submitted while not connected: failed right there
        if !keep && r.submit_state != Some(EState::Connected) {
            let failed_at_submit = matches!(done, Some((_, _, Done::Err(EK::OfflineQueuePolicyFailed, _), call)) if matches!(call_kind.get(call), Some((CallKind::Submit, _))));
            if !failed_at_submit && !ix.panicked() {
                out.push(v("C15.rejected_kind_accepted_offline", format!("{:?} accepted while not connected although policy {} rejects it", kind, pol), format!("tag {} state {:?} outcome {:?}", tag, r.submit_state, done.map(|d| &d.2))));
            }
        }
        // 3. rejected kind alive across a disconnection
        if !keep {
            for (conn, c) in &ix.conns {
                let cev = match c.close_ev {
                    Some(x) => x,
                    None => continue,
                };
                if r.submit_ev > cev || r.resolved_before(cev) {
                    continue;
                }
                // in flight = a QoS1/2 publish completely written on some connection since the last session loss
                let in_flight = kind.is_publish() && kind.needs_ack() && r.emits.iter().any(|&x| ix.emit_ev[x] < cev && !ix.session_lost_between(ix.emit_ev[x], cev));
                let close_call = tr.evs[cev + 1..].iter().find_map(|e| match e {
                    Ev::Call { ix: c, kind: CallKind::Close, .. } => Some(*c),
                    _ => None,
                });
                let failed_here = matches!(done, Some((_, _, Done::Err(..), call)) if Some(*call) == close_call);
                // every disconnection the operation lives through is examined (an in-flight publish may be retained over
                // one disconnection and then mistreated at the next, e.g. while its retransmission is half written)
                if in_flight {
                    if matches!(done, Some((_, _, Done::Err(EK::OfflineQueuePolicyFailed, _), call)) if Some(*call) == close_call) {
                        out.push(v("C15.in_flight_publish_failed_at_disconnect", "an in-flight QoS1/2 publish was failed by the offline policy at disconnection instead of being retained for session resumption", format!("tag {} conn {}", tag, conn)));
                        break;
                    }
                } else if !failed_here && !ix.panicked() {
                    out.push(v("C15.rejected_kind_survived_disconnect", format!("{:?} survived a disconnection although policy {} rejects it", kind, pol), format!("tag {} conn {} outcome {:?}", tag, conn, done.map(|d| &d.2))));
                    break;
                }
            }
        }
        // 4. preserved kinds complete successfully in the drain phase
        if keep && ix.drain_quiescent == Some(true) {
            if let (Some(ds), Some((dev, _, d, _))) = (ix.drain_start_ev, done) {
                if *dev > ds {
                    if let Done::Err(k, m) = d {
                        if !matches!(k, EK::PacketValidation | EK::AckTimeout | EK::MaxInterruptedRetriesExceeded) {
                            out.push(v("C15.preserved_kind_not_sent", format!("{:?} preserved by the policy did not complete successfully after reconnection", kind), format!("tag {} {:?} {}", tag, k, m)));
                        }
                    }
                }
            }
        }
        // 5. nothing is sent after an operation has failed
        if let Some((dev, _, Done::Err(..), _)) = done {
            if r.emits.iter().any(|&x| ix.emit_ev[x] > *dev) {
                out.push(v("C15.sent_after_failure", format!("{:?} transmitted after it had been failed", kind), format!("tag {}", tag)));
            }
        }
    }
    out
}

// ================================================================================================
// C17
// ================================================================================================

pub fn m17(ix: &Index) -> Vec<Violation> {
    let mut out = Vec::new();
    let tr = ix.tr;
    for (conn, c) in &ix.conns {
        let max = c.connack.as_ref().and_then(|k| k.topic_alias_maximum).unwrap_or(0);
        let mut table: BTreeMap<u16, String> = BTreeMap::new();
        for &p in &c.pkts {
            let em = &tr.emitted[p];
            let pp = match &em.pkt {
                rf::Packet::Publish(pp) => pp,
                _ => continue,
            };
            let supplied = em.tag.and_then(|t| ix.tags.get(&t)).and_then(|r| r.topic.clone());
            let reconstructed: Option<String> = match pp.topic_alias {
                Some(a) => {
                    if !ix.cfg.v5 {
                        out.push(v("C17.alias_in_311", "topic alias used in MQTT 3.1.1", format!("conn {}", conn)));
                    }
                    if a == 0 || a > max {
                        out.push(v("C17.alias_out_of_range", "topic alias of 0 or above the server's Topic Alias Maximum sent", format!("conn {} alias {} maximum {}", conn, a, max)));
                    }
                    if pp.topic.is_empty() {
                        match table.get(&a) {
                            Some(t) => Some(t.clone()),
                            None => {
                                out.push(v("C17.unbound_alias", "PUBLISH with empty topic and an alias that no earlier PUBLISH on this connection had bound", format!("conn {} alias {} tag {:?}", conn, a, em.tag)));
                                None
                            }
                        }
                    } else {
                        table.insert(a, pp.topic.clone());
                        Some(pp.topic.clone())
                    }
                }
                None => {
                    if pp.topic.is_empty() {
                        out.push(v("C17.empty_topic_without_alias", "PUBLISH with empty topic and no alias", format!("conn {}", conn)));
                        None
                    } else {
                        Some(pp.topic.clone())
                    }
                }
            };
            if let (Some(rt), Some(st)) = (&reconstructed, &supplied) {
                if rt != st {
                    out.push(v("C17.wrong_topic", "the server reconstructs a topic different from the one the application supplied", format!("conn {} tag {:?} supplied {} reconstructed {}", conn, em.tag, st, rt)));
                }
            }
        }
    }
    // inbound
    let n = tr.evs.len();
    for i in 0..n {
        if let Ev::SrvSend { conn, desc, compliant, .. } = &tr.evs[i] {
            match desc {
                SrvDesc::Publish { topic, payload_tag, alias, alias_bad, .. } => {
                    // find what was surfaced for this payload tag during the following calls
                    let mut j = i + 1;
                    let mut surfaced_topic: Option<String> = None;
                    let mut any_err = false;
                    let mut calls = 0;
                    while j < n {
                        match &tr.evs[j] {
                            Ev::Call { kind: CallKind::Incoming, result, post_error, .. } => {
                                if *post_error {
                                    calls = 0;
                                    break;
                                }
                                calls += 1;
                                if result.is_err() {
                                    any_err = true;
                                }
                            }
                            Ev::Surfaced { what: Surf::Publish { topic: t, payload_tag: Some(pt), .. }, .. } if pt == payload_tag => surfaced_topic = Some(t.clone()),
                            Ev::Done { .. } | Ev::Surfaced { .. } | Ev::SettingsSeen { .. } => {}
                            _ => break,
                        }
                        j += 1;
                    }
                    if calls == 0 {
                        continue;
                    }
                    let _ = compliant;
                    if !*alias_bad {
                        if let Some(t) = &surfaced_topic {
                            if t != topic {
                                out.push(v("C17.inbound_wrong_topic", "an inbound PUBLISH was surfaced with a topic different from the one bound to its alias", format!("conn {} alias {:?} expected {} got {}", conn, alias, topic, t)));
                            }
                        }
                    } else if alias.is_some() {
                        // unknown / out-of-range alias
                        if surfaced_topic.is_some() || !any_err {
                            out.push(v("C17.inbound_bad_alias_accepted", "an unknown, zero or out-of-range inbound alias did not fail the connection", format!("conn {} alias {:?} surfaced {:?}", conn, alias, surfaced_topic)));
                        }
                    }
                }
                SrvDesc::Adversarial(Adv::BadAlias) => {
                    let mut j = i + 1;
                    let mut any_err = false;
                    let mut surfaced = false;
                    let mut calls = 0;
                    while j < n {
                        match &tr.evs[j] {
                            Ev::Call { kind: CallKind::Incoming, result, post_error, .. } => {
                                if *post_error {
                                    calls = 0;
                                    break;
                                }
                                calls += 1;
                                if result.is_err() {
                                    any_err = true;
                                }
                            }
                            Ev::Surfaced { what: Surf::Publish { .. }, .. } => surfaced = true,
                            Ev::Done { .. } | Ev::Surfaced { .. } | Ev::SettingsSeen { .. } => {}
                            _ => break,
                        }
                        j += 1;
                    }
                    if calls > 0 && (surfaced || !any_err) {
                        out.push(v("C17.inbound_bad_alias_accepted", "an unknown, zero or out-of-range inbound alias did not fail the connection", format!("conn {} surfaced {}", conn, surfaced)));
                    }
                }
                _ => {}
            }
        }
    }
    out
}

// ================================================================================================
// C18
// ================================================================================================

pub fn m18(ix: &Index, check_next_service: bool) -> Vec<Violation> {
    let mut out = Vec::new();
    let tr = ix.tr;
    // deadline of a tag at event index `ev`: emission of its first packet on the connection open at `ev` + timeout
    // call index of the engine call that is in progress at event `ev` (emissions of a service call are logged after its completions)
    let call_at = |ev: usize| -> usize {
        tr.evs[..=ev.min(tr.evs.len() - 1)]
            .iter()
            .rev()
            .find_map(|e| match e {
                Ev::Call { ix: c, .. } => Some(*c),
                Ev::Panic { ix: c, .. } => Some(*c),
                _ => None,
            })
            .unwrap_or(0)
    };
    let deadline_at = |tag: u32, r: &TagRec, ev: usize| -> Option<u64> {
        let t = r.timeout_ms? as u64;
        if t == u32::MAX as u64 {
            return None; // stands for Duration::MAX: can never fire
        }
        let conn = ix.conn_of_ev(ev)?;
        let c = &ix.conns[&conn];
        if c.close_ev.map(|x| x < ev).unwrap_or(false) {
            return None;
        }
        let _ = tag;
        // the first complete packet of this operation on this connection (PUBLISH / SUBSCRIBE / UNSUBSCRIBE);
        // a resumed QoS2 operation may only have a PUBREL on this connection
        let cur_call = call_at(ev);
        let first = r.emits.iter().chain(r.pubrels.iter()).filter(|&&x| tr.emitted[x].conn == conn && (ix.emit_ev[x] < ev || tr.emitted[x].call <= cur_call)).map(|&x| tr.emitted[x].t).min()?;
        Some(first + t)
    };
    for (tag, r) in &ix.tags {
        let kind = match r.kind {
            Some(k) => k,
            None => continue,
        };
        if let Some((dev, t, Done::Err(EK::AckTimeout, _), call)) = r.dones.first() {
            if kind == Kind::Pub0 {
                out.push(v("C18.timeout_on_unacknowledged_operation", "a QoS0 publish (which has no acknowledgement) failed with the ack-timeout error", format!("tag {} timeout {:?}", tag, r.timeout_ms)));
                continue;
            }
            if r.timeout_ms.is_none() || r.timeout_ms == Some(u32::MAX) {
                out.push(v("C18.timeout_without_timeout", format!("{:?} without an ack timeout failed with the ack-timeout error", kind), format!("tag {}", tag)));
            } else {
                match deadline_at(*tag, r, *dev) {
                    None => out.push(v("C18.timeout_before_written", format!("{:?} timed out although its packet had not been completely written on the current connection", kind), format!("tag {} t {}", tag, t))),
                    Some(d) => {
                        if *t < d {
                            out.push(v("C18.timeout_early", format!("{:?} timed out before its ack timeout had elapsed", kind), format!("tag {} deadline {} fired {}", tag, d, t)));
                        }
                    }
                }
            }
            let in_service = tr.evs.iter().any(|e| matches!(e, Ev::Call { ix: c, kind: CallKind::Service | CallKind::ServiceUnasked, .. } if c == call));
            if !in_service {
                out.push(v("C18.timeout_outside_service", format!("{:?} ack timeout fired outside a service call", kind), format!("tag {}", tag)));
            }
        }
    }
    // no late timeouts: every successful service call fails everything that is due
    for (i, e) in tr.evs.iter().enumerate() {
        match e {
            Ev::Call { kind: CallKind::Service | CallKind::ServiceUnasked, result: Ok(()), t, before, post_error: false, ix: cix, cur_tag, .. } if matches!(before, EState::Connected | EState::PendingDisconnect) => {
                for (tag, r) in &ix.tags {
                    if r.timeout_ms.is_none() || r.resolved_before(i) || r.kind == Some(Kind::Pub0) {
                        continue;
                    }
                    // a QoS2 operation whose PUBREL is partially written after this call cannot be abandoned mid-packet:
                    // its failure is due at the first service call after which it is no longer the packet in progress
                    if *cur_tag == Some(*tag) {
                        continue;
                    }
                    // ... and while such an operation (with a timeout of its own) is the packet in progress, timeout
                    // processing as a whole waits for the end of that packet (DESIGN.md section 7)
                    if let Some(ct) = cur_tag {
                        if ix.tags.get(ct).map(|x| x.timeout_ms.is_some()).unwrap_or(false) {
                            continue;
                        }
                    }
                    if let Some(d) = deadline_at(*tag, r, i) {
                        if d <= *t {
                            let fired = matches!(r.dones.first(), Some((_, _, Done::Err(EK::AckTimeout, _), c)) if c == cix);
                            let otherwise_resolved_in_call = matches!(r.dones.first(), Some((_, _, _, c)) if c == cix);
                            if !fired && !otherwise_resolved_in_call {
                                out.push(v("C18.timeout_late", format!("{:?} not failed by the first service call at or after its ack deadline", r.kind.unwrap()), format!("tag {} deadline {} service at {}", tag, d, t)));
                            }
                        }
                    }
                }
            }
            Ev::NextService { t, answer, state } if check_next_service && matches!(state, EState::Connected | EState::PendingDisconnect) => {
                let conn = match ix.conn_of_ev(i) {
                    Some(c) => c,
                    None => continue,
                };
                if ix.conns[&conn].first_err_ev.map(|x| x < i).unwrap_or(false) {
                    continue;
                }
                let mut min_deadline: Option<u64> = None;
                let in_progress: Option<u32> = tr.evs[..i].iter().rev().find_map(|e| match e {
                    Ev::Call { cur_tag, .. } => Some(*cur_tag),
                    _ => None,
                }).flatten();
                for (tag, r) in &ix.tags {
                    if r.timeout_ms.is_none() || r.resolved_before(i) || r.kind == Some(Kind::Pub0) {
                        continue;
                    }
                    // a partially written PUBREL defers the timeout until the packet is complete
                    if in_progress == Some(*tag) {
                        continue;
                    }
                    if let Some(ct) = in_progress {
                        if ix.tags.get(&ct).map(|x| x.timeout_ms.is_some()).unwrap_or(false) {
                            continue;
                        }
                    }
                    if let Some(d) = deadline_at(*tag, r, i) {
                        min_deadline = Some(min_deadline.map(|m: u64| m.min(d)).unwrap_or(d));
                    }
                }
                if let Some(d) = min_deadline {
                    let ok = matches!(answer, Some(a) if *a <= d.max(*t));
                    if !ok {
                        out.push(v("C18.deadline_not_reported", "the reported next-service time is later than a pending ack deadline", format!("t {} deadline {} answer {:?}", t, d, answer)));
                    }
                }
            }
            _ => {}
        }
    }
    // retries
    for (tag, r) in &ix.tags {
        let kind = match r.kind {
            Some(k) if k.needs_ack() => k,
            _ => continue,
        };
        let mut interruptions = 0u32;
        for (conn, c) in &ix.conns {
            let cev = match c.close_ev {
                Some(x) => x,
                None => continue,
            };
            if r.submit_ev > cev || r.resolved_before(cev) {
                continue;
            }
            let sent_here = r.emits.iter().chain(r.pubrels.iter()).any(|&x| tr.emitted[x].conn == *conn && ix.emit_ev[x] < cev);
            if !sent_here {
                continue;
            }
            interruptions += 1;
            let close_call = tr.evs[cev + 1..].iter().find_map(|e| match e {
                Ev::Call { ix: c, kind: CallKind::Close, .. } => Some(*c),
                _ => None,
            });
            let failed_here_retries = matches!(r.dones.first(), Some((_, _, Done::Err(EK::MaxInterruptedRetriesExceeded, _), call)) if Some(*call) == close_call);
            match ix.cfg.retries {
                Some(nmax) if interruptions == nmax + 1 => {
                    if !failed_here_retries && !ix.panicked() {
                        out.push(v("C18.retries_not_enforced", format!("{:?} interrupted for the (N+1)-th time but not failed with the retries-exceeded error", kind), format!("tag {} N {} interruptions {} outcome {:?}", tag, nmax, interruptions, r.dones.first().map(|d| &d.2))));
                    }
                }
                _ => {
                    if failed_here_retries {
                        out.push(v("C18.retries_early", format!("{:?} failed with the retries-exceeded error before the limit was exceeded", kind), format!("tag {} N {:?} interruptions {}", tag, ix.cfg.retries, interruptions)));
                    }
                }
            }
        }
        if let Some((_, _, Done::Err(EK::MaxInterruptedRetriesExceeded, _), call)) = r.dones.first() {
            let at_close = tr.evs.iter().any(|e| matches!(e, Ev::Call { ix: c, kind: CallKind::Close, .. } if c == call));
            if ix.cfg.retries.is_none() || !at_close {
                out.push(v("C18.retries_unexpected", format!("{:?} failed with the retries-exceeded error without a limit or outside a disconnection", kind), format!("tag {}", tag)));
            }
        }
    }
    out
}

// ================================================================================================
// C02 spill-over: any byte string the reference decoder rejects
// ================================================================================================

pub fn m02_wire(ix: &Index) -> Vec<Violation> {
    let mut out = Vec::new();
    for e in &ix.tr.evs {
        if let Ev::BadWire { conn, detail, bytes, .. } = e {
            out.push(v("C02.malformed_on_wire", format!("client emitted bytes the reference decoder rejects: {}", detail.chars().map(|c| if c.is_ascii_digit() { '#' } else { c }).take(80).collect::<String>()), format!("conn {} {:02x?}", conn, bytes)));
        }
    }
    out
}

pub fn done_ok(d: &Done) -> bool {
    done_is_ok(d)
}
