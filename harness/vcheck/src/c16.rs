//! C16 - nothing breaking the server's announced limits or the static packet rules is sent; such
//! operations fail locally with a validation error; everything that satisfies the rules is accepted.

use crate::abs::*;
use crate::model::*;
use crate::mon::Index;
use crate::panichook::guarded;
use crate::runner::{hash_str, CaseReport, Property, Tier, Violation};
use crate::sim::Sim;
use gneiss_mqtt::verif as gv;
use proptest::collection::vec;
use proptest::option;
use proptest::prelude::*;
use refmqtt as rf;
use serde::{Deserialize, Serialize};
use serde_json::json;

#[derive(Clone, Debug, Serialize, Deserialize, PartialEq, Eq)]
pub struct C16Case {
    pub v5: bool,
    pub packet: AbsPacket,
    pub connack: ConnackTemplate,
    pub connect_session_expiry: Option<u32>,
    /// 0: no size limit, 1: limit == exact size, 2: limit == size - 1, 3: limit == size + 1, 4: tiny
    pub size_mode: u8,
    /// > 0 (MQTT 5 PUBLISH only): the client uses an LRU outbound alias resolver and the server allows 2 aliases, so the
    /// first publish to a topic carries topic + alias property (3 bytes more than the plain form); the server's Maximum
    /// Packet Size is the plain size + {0, 1, 2} (modes 1-3: the aliased form does not fit and must not be sent) or + 12
    /// (mode 4: it fits and must be sent)
    #[serde(default)]
    pub alias_mode: u8,
}

pub struct C16;

const MAX_STR: u32 = 65535;

fn s_ok(s: &S) -> bool {
    s.len <= MAX_STR
}

fn props_ok(p: &Props) -> bool {
    p.iter().all(|(a, b)| s_ok(a) && s_ok(b))
}

fn topic_len(levels: &[S]) -> u64 {
    levels.iter().map(|s| s.len as u64).sum::<u64>() + levels.len().saturating_sub(1) as u64
}

#[derive(Clone, Copy, Debug, PartialEq, Eq)]
enum Tri {
    Yes,
    No,
    DontCare,
}

/// static rules of the specification, judged on the abstract packet
fn static_ok(p: &AbsPacket, v5: bool) -> (Tri, Vec<&'static str>) {
    let mut broken: Vec<&'static str> = Vec::new();
    let mut dont_care = false;
    match p {
        AbsPacket::Publish(x) => {
            let t = x.topic_str();
            if t.is_empty() {
                broken.push("empty topic");
            }
            if t.contains('+') || t.contains('#') {
                broken.push("wildcard in topic name");
            }
            if t.len() > MAX_STR as usize {
                broken.push("topic longer than 65535 bytes");
            }
            // MQTT 5 only fields: their limits cannot matter in 3.1.1, where they are not transmitted
            let mut v5_only_broken = false;
            if let Some(rt) = &x.response_topic {
                let l = topic_len(rt);
                if l == 0 || l > MAX_STR as u64 {
                    v5_only_broken = true;
                    if v5 {
                        broken.push("response topic empty or too long");
                    }
                }
            }
            if x.correlation.as_ref().map_or(false, |b| b.len > MAX_STR) {
                v5_only_broken = true;
                if v5 {
                    broken.push("correlation data longer than 65535 bytes");
                }
            }
            if x.content_type.as_ref().map_or(false, |s| !s_ok(s)) {
                v5_only_broken = true;
                if v5 {
                    broken.push("content type longer than 65535 bytes");
                }
            }
            if !props_ok(&x.user_props) {
                v5_only_broken = true;
                if v5 {
                    broken.push("user property name or value longer than 65535 bytes");
                }
            }
            if !v5 && v5_only_broken {
                dont_care = true;
            }
        }
        AbsPacket::Subscribe(x) => {
            if x.entries.is_empty() {
                broken.push("no subscriptions");
            }
            for e in &x.entries {
                let f = e.filter.expand();
                if !e.filter.syntactically_valid() {
                    broken.push("malformed topic filter");
                }
                if f.len() > MAX_STR as usize {
                    broken.push("topic filter longer than 65535 bytes");
                }
                if e.filter.share.is_some() && !v5 {
                    dont_care = true; // "$share/..." is an ordinary filter in 3.1.1
                }
                if v5 && e.filter.share.is_some() && e.no_local {
                    broken.push("no-local on a shared subscription");
                }
            }
            if let Some(id) = x.sub_id {
                if id == 0 || id > 268_435_455 {
                    if v5 {
                        broken.push("subscription identifier out of range");
                    } else {
                        dont_care = true;
                    }
                }
            }
            if !props_ok(&x.user_props) {
                if v5 {
                    broken.push("user property name or value longer than 65535 bytes");
                } else {
                    dont_care = true;
                }
            }
        }
        AbsPacket::Unsubscribe(x) => {
            if x.filters.is_empty() {
                broken.push("no topic filters");
            }
            for f in &x.filters {
                if !f.syntactically_valid() {
                    broken.push("malformed topic filter");
                }
                if f.expand().len() > MAX_STR as usize {
                    broken.push("topic filter longer than 65535 bytes");
                }
                if f.share.is_some() && !v5 {
                    dont_care = true;
                }
            }
            if !props_ok(&x.user_props) {
                if v5 {
                    broken.push("user property name or value longer than 65535 bytes");
                } else {
                    dont_care = true;
                }
            }
        }
        AbsPacket::Disconnect(x) => {
            if x.reason_string.as_ref().map_or(false, |s| !s_ok(s)) || !props_ok(&x.user_props) {
                if v5 {
                    broken.push("reason string or user property longer than 65535 bytes");
                } else {
                    dont_care = true;
                }
            }
        }
        _ => {}
    }
    if !broken.is_empty() {
        (Tri::No, broken)
    } else if dont_care {
        (Tri::DontCare, broken)
    } else {
        (Tri::Yes, broken)
    }
}

/// connection-dependent limits; `size` is the encoded size of the packet
fn dynamic_ok(p: &AbsPacket, v5: bool, ck: &ConnackTemplate, size: Option<u64>, connect_session_expiry: Option<u32>) -> (Tri, Vec<&'static str>) {
    let mut broken: Vec<&'static str> = Vec::new();
    let mut dont_care = false;
    if !v5 {
        // MQTT 3.1.1 has no CONNACK properties: nothing connection dependent. MQTT 5-only fields are not transmitted;
        // whether their MQTT 5 rules are still applied is a don't-care
        if let AbsPacket::Disconnect(x) = p {
            if x.session_expiry.unwrap_or(0) > 0 && connect_session_expiry.unwrap_or(0) == 0 {
                return (Tri::DontCare, broken);
            }
        }
        return (Tri::Yes, broken);
    }
    if let (Some(max), Some(sz)) = (ck.max_packet, size) {
        if sz > max as u64 {
            broken.push("packet larger than the server's maximum packet size");
        }
    }
    match p {
        AbsPacket::Publish(x) => {
            if let Some(mq) = ck.max_qos {
                if x.qos > mq {
                    broken.push("QoS above the server's maximum QoS");
                }
            }
            if x.retain && ck.retain_available == Some(false) {
                broken.push("retain not available");
            }
        }
        AbsPacket::Subscribe(x) => {
            for e in &x.entries {
                if e.filter.has_wildcard() && ck.wildcard_available == Some(false) {
                    broken.push("wildcard subscriptions not available");
                }
                if e.filter.share.is_some() && ck.shared_available == Some(false) {
                    broken.push("shared subscriptions not available");
                }
            }
            if x.sub_id.is_some() && ck.subid_available == Some(false) {
                broken.push("subscription identifiers not available");
            }
        }
        AbsPacket::Unsubscribe(x) => {
            // the specification does not tie UNSUBSCRIBE to the availability flags
            for f in &x.filters {
                if (f.has_wildcard() && ck.wildcard_available == Some(false)) || (f.share.is_some() && ck.shared_available == Some(false)) {
                    dont_care = true;
                }
            }
        }
        AbsPacket::Disconnect(x) => {
            if let Some(se) = x.session_expiry {
                if se > 0 && connect_session_expiry.unwrap_or(0) == 0 {
                    broken.push("non-zero session expiry in DISCONNECT after zero in CONNECT");
                }
            }
        }
        _ => {}
    }
    if !broken.is_empty() {
        (Tri::No, broken)
    } else if dont_care {
        (Tri::DontCare, broken)
    } else {
        (Tri::Yes, broken)
    }
}

// ------------------------------------------------------------------------------------------------
// generator: mostly valid packets with a single injected defect
// ------------------------------------------------------------------------------------------------

fn over_s() -> BoxedStrategy<S> {
    (prop_oneof![Just(65535u32), Just(65536u32), Just(70000u32)], 0u8..5, any::<u16>()).prop_map(|(len, style, seed)| S { len, style, seed }).boxed()
}

fn small_s() -> BoxedStrategy<S> {
    (1u32..8, 0u8..5, any::<u16>()).prop_map(|(len, style, seed)| S { len, style, seed }).boxed()
}

fn small_props() -> BoxedStrategy<Props> {
    prop_oneof![4 => Just(Vec::new()), 2 => vec((small_s(), small_s()), 1..3)].boxed()
}

fn c16_publish() -> BoxedStrategy<AbsPublish> {
    let base = (vec(small_s(), 1..4), 0u8..3, prop::bool::weighted(0.4), option::weighted(0.6, (0u32..40, any::<u16>()).prop_map(|(len, seed)| B { len, seed })), small_props()).prop_map(|(topic, qos, retain, payload, user_props)| AbsPublish {
        topic,
        qos,
        retain,
        payload,
        payload_format: None,
        message_expiry: None,
        response_topic: None,
        correlation: None,
        content_type: None,
        user_props,
        topic_defect: 0,
    });
    (base, 0u8..12, over_s(), any::<u16>()).prop_map(|(mut p, defect, big, seed)| {
        match defect {
            0 => p.topic_defect = 1,
            1 => p.topic_defect = 2,
            2 => p.topic_defect = 3,
            3 => p.topic = vec![big],
            4 => p.response_topic = Some(vec![big]),
            5 => p.correlation = Some(B { len: big.len, seed }),
            6 => p.content_type = Some(big),
            7 => p.user_props.push((S { len: 3, style: 0, seed }, big)),
            8 => p.user_props.push((big, S { len: 3, style: 0, seed })),
            9 => p.response_topic = Some(vec![S { len: 0, style: 0, seed }]),
            _ => {}
        }
        p
    })
    .boxed()
}

fn c16_filter() -> BoxedStrategy<Filter> {
    (vec(prop_oneof![5 => small_s().prop_map(Level::Name), 2 => Just(Level::Plus), 1 => Just(Level::Empty)], 1..4), prop::bool::weighted(0.3), option::weighted(0.25, small_s()), 0u8..14, over_s()).prop_map(|(levels, trailing_hash, share, defect, big)| {
        let mut f = Filter { levels, trailing_hash, share, hash_in_middle: false, empty: false };
        match defect {
            0 => f.levels.push(Level::BadPlus),
            1 => f.levels.push(Level::BadHash),
            2 => f.hash_in_middle = true,
            3 => f.empty = true,
            4 => f.levels = vec![Level::Name(big)],
            _ => {}
        }
        f
    })
    .boxed()
}

fn c16_subscribe() -> BoxedStrategy<AbsSubscribe> {
    let entry = (c16_filter(), 0u8..3, prop::bool::weighted(0.3), any::<bool>(), 0u8..3).prop_map(|(filter, qos, no_local, rap, rh)| AbsSubEntry { filter, qos, no_local, rap, rh });
    (vec(entry, 0..4), option::weighted(0.5, prop_oneof![2 => Just(0u32), 2 => Just(1u32), 2 => Just(268_435_455u32), 2 => Just(268_435_456u32), 1 => Just(u32::MAX), 2 => 1u32..1000]), small_props(), 0u8..8, over_s()).prop_map(|(entries, sub_id, mut user_props, defect, big)| {
        if defect == 0 {
            user_props.push((S { len: 2, style: 0, seed: 1 }, big));
        }
        AbsSubscribe { entries, sub_id, user_props }
    })
    .boxed()
}

fn c16_unsubscribe() -> BoxedStrategy<AbsUnsubscribe> {
    (vec(c16_filter(), 0..4), small_props(), 0u8..8, over_s()).prop_map(|(filters, mut user_props, defect, big)| {
        if defect == 0 {
            user_props.push((big, S { len: 2, style: 0, seed: 1 }));
        }
        AbsUnsubscribe { filters, user_props }
    })
    .boxed()
}

fn c16_disconnect() -> BoxedStrategy<AbsDisconnect> {
    let codes: Vec<u8> = rf::legal_reason_codes(14, rf::Direction::ClientToServer).to_vec();
    let n = codes.len();
    ((0..n).prop_map(move |i| codes[i]), option::weighted(0.5, prop_oneof![Just(0u32), Just(1u32), Just(3600u32)]), option::weighted(0.4, prop_oneof![3 => small_s(), 1 => over_s()]), small_props()).prop_map(|(reason, session_expiry, reason_string, user_props)| AbsDisconnect { reason, session_expiry, reason_string, user_props }).boxed()
}

fn c16_connack() -> BoxedStrategy<ConnackTemplate> {
    let tri = || prop_oneof![2 => Just(None), 1 => Just(Some(true)), 2 => Just(Some(false))];
    (prop_oneof![2 => Just(None), 1 => Just(Some(0u8)), 1 => Just(Some(1u8))], tri(), tri(), tri(), tri()).prop_map(|(max_qos, retain_available, wildcard_available, subid_available, shared_available)| ConnackTemplate { max_qos, retain_available, wildcard_available, subid_available, shared_available, ..ConnackTemplate::default() }).boxed()
}

impl C16Case {
    fn out(&self) -> Option<gv::OutPacket> {
        Some(match &self.packet {
            AbsPacket::Publish(p) => gv::OutPacket::Publish(p.build()),
            AbsPacket::Subscribe(s) => gv::OutPacket::Subscribe(s.build()),
            AbsPacket::Unsubscribe(u) => gv::OutPacket::Unsubscribe(u.build()),
            AbsPacket::Disconnect(d) => gv::OutPacket::Disconnect(d.build()),
            _ => return None,
        })
    }

    /// encoded size according to the reference encoder (only for statically valid packets)
    fn ref_size(&self) -> Option<u64> {
        let version = if self.v5 { rf::Version::V5 } else { rf::Version::V311 };
        let pkt = match &self.packet {
            AbsPacket::Publish(p) => rf::Packet::Publish(p.expected(self.v5, 1, false, false, None)),
            AbsPacket::Subscribe(s) => rf::Packet::Subscribe(s.expected(self.v5, 1)),
            AbsPacket::Unsubscribe(u) => rf::Packet::Unsubscribe(u.expected(self.v5, 1)),
            AbsPacket::Disconnect(d) => rf::Packet::Disconnect(d.expected(self.v5)),
            _ => return None,
        };
        guarded(|| rf::encode(version, &pkt, &rf::EncodeOpts::default()).len() as u64).ok()
    }
}

impl Property for C16 {
    type Case = C16Case;

    fn id(&self) -> &'static str {
        "C16"
    }

    fn strategy(&self, _tier: Tier) -> BoxedStrategy<C16Case> {
        let packet = prop_oneof![
            5 => c16_publish().prop_map(AbsPacket::Publish),
            4 => c16_subscribe().prop_map(AbsPacket::Subscribe),
            3 => c16_unsubscribe().prop_map(AbsPacket::Unsubscribe),
            2 => c16_disconnect().prop_map(AbsPacket::Disconnect),
        ];
        (prop::bool::weighted(0.75), packet, c16_connack(), option::weighted(0.5, prop_oneof![Just(0u32), Just(100u32)]), prop_oneof![5 => Just(0u8), 2 => Just(1u8), 2 => Just(2u8), 1 => Just(3u8), 1 => Just(4u8)], prop_oneof![12 => Just(0u8), 1 => Just(1u8), 1 => Just(2u8), 1 => Just(3u8), 1 => Just(4u8)])
            .prop_map(|(v5, packet, connack, connect_session_expiry, size_mode, alias_mode)| C16Case { v5, packet, connack, connect_session_expiry, size_mode, alias_mode })
            .boxed()
    }

    fn check(&self, case: &C16Case) -> CaseReport {
        let mut violations = Vec::new();
        let mut labels: Vec<String> = vec![format!("kind:{}", case.packet.kind_name()), if case.v5 { "v5".into() } else { "v311".into() }];
        let out = match case.out() {
            Some(o) => o,
            None => return CaseReport::default(),
        };
        let (st, st_why) = static_ok(&case.packet, case.v5);
        // size limit relative to the exact encoded size
        let size = if st == Tri::Yes { case.ref_size() } else { None };
        // aliased form against the size limit (see C16Case::alias_mode)
        if case.alias_mode > 0 && case.v5 && st == Tri::Yes && matches!(case.packet, AbsPacket::Publish(_)) {
            if let Some(sz) = size {
                let delta: u32 = match case.alias_mode {
                    1 => 0,
                    2 => 1,
                    3 => 2,
                    _ => 12,
                };
                let max = sz as u32 + delta;
                if max >= 20 && max < 268_435_455 {
                    let ck2 = ConnackTemplate { max_packet: Some(max), alias_max: Some(2), assign_client_id: false, ..ConnackTemplate::default() };
                    let cfg = SimCfg { v5: true, connack: ck2, resolver: Resolver::Lru(2), buf_cap: 4096, drain: false, ..SimCfg::default() };
                    let mut sim = Sim::new(&cfg);
                    sim.auto(6, true);
                    if sim.state() != EState::Connected {
                        return CaseReport { labels, inconclusive: true, ..Default::default() };
                    }
                    let before = sim.tr.emitted.len();
                    let tag = sim.submit_raw(out.clone());
                    // one service call moves at most one 4096-byte buffer: give large packets the steps they need
                    sim.auto((40 + (sz as usize) / 1000) as u32, false);
                    let sent: Option<usize> = sim.tr.emitted[before..].iter().find(|e| e.pkt.type_code() == 3).map(|e| e.end - e.start);
                    let failed_validation = sim.tr.evs.iter().any(|e| matches!(e, Ev::Done { tag: t, done: Done::Err(EK::PacketValidation, _), .. } if Some(*t) == tag));
                    labels.push(format!("aliased_publish_vs_size_limit:+{}", delta));
                    if let Some(len) = sent {
                        if len as u32 > max {
                            violations.push(Violation::new("C16.invalid_sent", "PUBLISH v5: sent although it breaks a rule: larger than the server's Maximum Packet Size in the aliased form that is actually written", format!("{} bytes on the wire, maximum {} (plain form {} bytes)", len, max, sz)));
                        }
                    } else if delta == 12 {
                        violations.push(Violation::new("C16.valid_rejected", "PUBLISH v5: a publish that fits the server's Maximum Packet Size in its aliased form is not sent", format!("plain form {} bytes, maximum {}, validation failure: {}", sz, max, failed_validation)));
                    }
                    let digest = hash_str(&format!("alias|{:?}", case));
                    return CaseReport { violations, labels, nontrivial: true, digest, sample: Some(json!({"kind": "aliased publish against Maximum Packet Size", "plain_size": sz, "maximum_packet_size": max, "sent_bytes": sent})), ..Default::default() };
                }
            }
        }
        let mut ck = case.connack.clone();
        if case.v5 {
            if let Some(sz) = size {
                ck.max_packet = match case.size_mode {
                    1 => Some(sz as u32),
                    2 => Some((sz as u32).saturating_sub(1).max(1)),
                    3 => Some(sz as u32 + 1),
                    4 => Some(5),
                    _ => None,
                };
            }
        } else {
            ck = ConnackTemplate { assign_client_id: false, ..ConnackTemplate::default() };
        }
        let eff_connect_expiry = if case.v5 { case.connect_session_expiry } else { None };
        let (dy, dy_why) = if st == Tri::Yes { dynamic_ok(&case.packet, case.v5, &ck, size, eff_connect_expiry) } else { (Tri::DontCare, vec![]) };

        // 1. submission-time validation, as the client handles apply it
        let submit_result = match guarded(|| gv::validate_outbound(&out)) {
            Ok(r) => r.map_err(|e| crate::sim::ek(&e)),
            Err((msg, loc)) => {
                violations.push(Violation::new("C16.panic", "validation panics", format!("{} at {}", msg, loc)));
                return CaseReport { violations, labels, nontrivial: true, digest: 1, ..Default::default() };
            }
        };

        // 2. if accepted: hand it to a connected engine and let a responsive broker answer
        let mut on_wire = false;
        let mut outcome: Option<Done> = None;
        let mut bad_wire: Option<String> = None;
        let mut panicked: Option<String> = None;
        let mut disconnect_failed_locally = false;
        if submit_result.is_ok() {
            let cfg = SimCfg { v5: case.v5, connack: ck.clone(), session_expiry: if case.v5 { case.connect_session_expiry } else { None }, buf_cap: 4096, drain: false, ..SimCfg::default() };
            let mut sim = Sim::new(&cfg);
            sim.auto(6, true);
            let connected = sim.state() == EState::Connected;
            if !connected {
                return CaseReport { labels, inconclusive: true, ..Default::default() };
            }
            let before_pkts = sim.tr.emitted.len();
            let tag = sim.submit_raw(out.clone());
            // one service call moves at most one 4096-byte buffer: a 200 kB packet needs about a hundred steps (running out
            // of steps would look like "never sent")
            sim.auto((40 + size.map(|s| s as usize / 1000).unwrap_or(0) + 300) as u32, false);
            let tr = &sim.tr;
            let wanted = match &case.packet {
                AbsPacket::Publish(_) => 3u8,
                AbsPacket::Subscribe(_) => 8,
                AbsPacket::Unsubscribe(_) => 10,
                _ => 14,
            };
            on_wire = tr.emitted[before_pkts..].iter().any(|e| e.pkt.type_code() == wanted);
            for e in &tr.evs {
                match e {
                    Ev::Done { tag: t, done, .. } if Some(*t) == tag => outcome = Some(done.clone()),
                    Ev::BadWire { detail, .. } => bad_wire = Some(detail.clone()),
                    Ev::Panic { msg, loc, .. } => panicked = Some(format!("{} at {}", msg, loc)),
                    Ev::Call { kind: CallKind::Service, result: Err(EK::PacketValidation), .. } => disconnect_failed_locally = true,
                    _ => {}
                }
            }
            let _ = Index::build(tr, &cfg);
        }
        if let Some(p) = panicked {
            violations.push(Violation::new("C16.panic", "engine panics on a user-constructible packet", p));
        }
        if let Some(b) = &bad_wire {
            violations.push(Violation::new("C16.malformed_on_wire", format!("{}: bytes sent that the reference decoder rejects: {}", case.packet.kind_name(), b.chars().map(|c| if c.is_ascii_digit() { '#' } else { c }).take(80).collect::<String>()), b.clone()));
        }

        let is_disconnect = matches!(case.packet, AbsPacket::Disconnect(_));
        // a DISCONNECT has no result channel of its own: "failed locally" means that it never reaches the wire
        let failed_with_validation = matches!(submit_result, Err(EK::PacketValidation)) || matches!(outcome, Some(Done::Err(EK::PacketValidation, _))) || (is_disconnect && (disconnect_failed_locally || !on_wire));
        let rejected_otherwise = submit_result.is_err() || matches!(outcome, Some(Done::Err(..)));
        let verdict = match (st, dy) {
            (Tri::No, _) => Tri::No,
            (Tri::DontCare, _) => Tri::DontCare,
            (Tri::Yes, Tri::No) => Tri::No,
            (Tri::Yes, Tri::DontCare) => Tri::DontCare,
            (Tri::Yes, Tri::Yes) => Tri::Yes,
        };
        let why: Vec<&str> = st_why.iter().chain(dy_why.iter()).copied().collect();
        match verdict {
            Tri::No => {
                let rule_name = why.first().copied().unwrap_or("rule");
                if on_wire {
                    violations.push(Violation::new("C16.invalid_sent", format!("{} {}: sent although it breaks a rule: {}", case.packet.kind_name(), if case.v5 { "v5" } else { "v311" }, rule_name), format!("broken: {:?}", why)));
                } else if !failed_with_validation && bad_wire.is_none() {
                    let how = if rejected_otherwise { format!("rejected with a non-validation error: submit {:?} outcome {:?}", submit_result, outcome) } else { format!("neither sent nor failed: submit {:?} outcome {:?}", submit_result, outcome) };
                    violations.push(Violation::new("C16.invalid_not_failed_with_validation_error", format!("{} {}: not failed with a validation error although it breaks: {}", case.packet.kind_name(), if case.v5 { "v5" } else { "v311" }, rule_name), how));
                }
            }
            Tri::Yes => {
                if (failed_with_validation && !is_disconnect) || submit_result.is_err() {
                    violations.push(Violation::new("C16.valid_rejected", format!("{} {}: rejected by validation although it satisfies every rule", case.packet.kind_name(), if case.v5 { "v5" } else { "v311" }), format!("submit {:?} outcome {:?} connack {:?}", submit_result, outcome, ck)));
                } else if !on_wire {
                    violations.push(Violation::new("C16.valid_not_sent", format!("{} {}: satisfies every rule but was never sent", case.packet.kind_name(), if case.v5 { "v5" } else { "v311" }), format!("outcome {:?}", outcome)));
                }
            }
            Tri::DontCare => {}
        }

        labels.push(match verdict {
            Tri::Yes => "expect_accept".to_string(),
            Tri::No => "expect_reject".to_string(),
            Tri::DontCare => "dont_care".to_string(),
        });
        for w in &why {
            labels.push(format!("rule:{}", w));
        }
        if case.size_mode == 1 && case.v5 && size.is_some() {
            labels.push("size_limit_exact".to_string());
        }
        let nontrivial = why.len() == 1 || (verdict == Tri::Yes && (case.size_mode == 1 || ck.max_qos.is_some() || ck.retain_available.is_some() || ck.wildcard_available.is_some()));
        let digest = hash_str(&format!("{}|{}|{:?}|{:?}|{}|{:?}", case.packet.kind_name(), case.v5, why, verdict, case.size_mode, (ck.max_qos, ck.retain_available, ck.wildcard_available, ck.subid_available, ck.shared_available)));
        let sample = json!({"kind": case.packet.kind_name(), "v5": case.v5, "rules_broken": why, "expected": format!("{:?}", verdict), "submit_validation": format!("{:?}", submit_result), "on_wire": on_wire, "outcome": format!("{:?}", outcome), "connack": format!("{:?}", ck)});
        CaseReport { violations, labels, nontrivial, digest, sample: Some(sample), ..Default::default() }
    }

    fn cases_per_shard(&self, tier: Tier) -> u32 {
        match tier {
            Tier::Quick => 1500,
            Tier::Thorough => 40_000,
        }
    }

    fn rule_text(&self) -> String {
        "abstract PUBLISH / SUBSCRIBE / UNSUBSCRIBE / DISCONNECT packets that are valid except for (usually) one injected defect: wildcard or empty or 65536-byte topic, 65535/65536/70000-byte response topic, correlation data, content type, user property name or value, malformed / empty / over-long topic filters, empty subscription and filter lists, subscription identifier {0,1,268435455,268435456,u32::MAX}, no-local on a shared subscription, reason strings over the limit, DISCONNECT session expiry against the CONNECT's; crossed with CONNACK capabilities (maximum QoS 0/1, retain / wildcard / shared / subscription-identifier availability, maximum packet size = exact size, size-1, size+1, tiny); oracle: independent static_ok / dynamic_ok predicates written from the specification; each packet goes through the submission-time validation and then a connected engine with a responsive broker; non-trivial = exactly one rule violated, or all limits met with a capability / exact size limit in force; distinct = (kind, version, rules broken, verdict, capability set)".to_string()
    }

    fn assumptions(&self) -> Vec<String> {
        vec![
            "a statically invalid operation may be failed at send time instead of at submission (topic filters are by design only checked at send time)".to_string(),
            "limits of MQTT 5-only fields in MQTT 3.1.1 mode, `$share/...` filters in 3.1.1, and availability flags applied to UNSUBSCRIBE are classified don't-care".to_string(),
            "packet size is judged on the bytes the independent reference encoder produces for the abstract packet".to_string(),
        ]
    }
}
