//! EngineSim: drives `gneiss_mqtt::verif::Engine` with a virtual clock, a driver-faithful transport
//! and a reference broker built on `refmqtt`.  Produces a `Trace` that the monitors judge.

use crate::model::*;
use crate::panichook::guarded;
use gneiss_mqtt::alias::OutboundAliasResolverFactory;
use gneiss_mqtt::client::config::*;
use gneiss_mqtt::client::{PublishResponse, Qos2Response};
use gneiss_mqtt::error::GneissError;
use gneiss_mqtt::mqtt::*;
use gneiss_mqtt::verif as gv;
use refmqtt as rf;
use std::collections::{BTreeMap, BTreeSet, HashMap};
use std::time::Duration;

pub fn ek(e: &GneissError) -> EK {
    match e {
        GneissError::Unimplemented(_) => EK::Unimplemented,
        GneissError::OperationChannelFailure(_) => EK::OperationChannelFailure,
        GneissError::EncodingFailure(_) => EK::Encoding,
        GneissError::DecodingFailure(_) => EK::Decoding,
        GneissError::ProtocolError(_) => EK::Protocol,
        GneissError::InvalidInboundTopicAlias(_) => EK::InvalidInboundTopicAlias,
        GneissError::InternalStateError(_) => EK::InternalState,
        GneissError::ConnectionClosed(_) => EK::ConnectionClosed,
        GneissError::OfflineQueuePolicyFailed(_) => EK::OfflineQueuePolicyFailed,
        GneissError::AckTimeout(_) => EK::AckTimeout,
        GneissError::ClientClosed(_) => EK::ClientClosed,
        GneissError::UserInitiatedDisconnect(_) => EK::UserInitiatedDisconnect,
        GneissError::ConnectionEstablishmentFailure(_) => EK::ConnectionEstablishmentFailure,
        GneissError::StdIoError(_) => EK::StdIo,
        GneissError::TlsError(_) => EK::Tls,
        GneissError::TransportError(_) => EK::Transport,
        GneissError::PacketValidationFailure(_) => EK::PacketValidation,
        GneissError::OtherError(_) => EK::Other,
        GneissError::MaxInterruptedRetriesExceeded(_) => EK::MaxInterruptedRetriesExceeded,
        _ => EK::Other,
    }
}

pub fn estate(s: gv::EngineState) -> EState {
    match s {
        gv::EngineState::Disconnected => EState::Disconnected,
        gv::EngineState::PendingConnack => EState::PendingConnack,
        gv::EngineState::Connected => EState::Connected,
        gv::EngineState::PendingDisconnect => EState::PendingDisconnect,
        gv::EngineState::Halted => EState::Halted,
    }
}

pub fn offline_policy(ix: u8) -> OfflineQueuePolicy {
    match ix {
        0 => OfflineQueuePolicy::PreserveAll,
        1 => OfflineQueuePolicy::PreserveAcknowledged,
        2 => OfflineQueuePolicy::PreserveQos1PlusPublishes,
        _ => OfflineQueuePolicy::PreserveNothing,
    }
}

pub fn qos_of(q: u8) -> QualityOfService {
    match q {
        0 => QualityOfService::AtMostOnce,
        1 => QualityOfService::AtLeastOnce,
        _ => QualityOfService::ExactlyOnce,
    }
}

pub fn qos_num(q: QualityOfService) -> u8 {
    match q {
        QualityOfService::AtMostOnce => 0,
        QualityOfService::AtLeastOnce => 1,
        QualityOfService::ExactlyOnce => 2,
    }
}

pub fn user_props_of(p: Option<&[UserProperty]>) -> Vec<(String, String)> {
    p.map(|v| v.iter().map(|u| (u.name().to_string(), u.value().to_string())).collect()).unwrap_or_default()
}

pub fn build_connect_options(cfg: &SimCfg) -> ConnectOptions {
    let mut b = ConnectOptions::builder();
    b.with_keep_alive_interval_seconds(cfg.keep_alive);
    b.with_rejoin_session_policy(match cfg.rejoin {
        0 => RejoinSessionPolicy::PostSuccess,
        1 => RejoinSessionPolicy::Always,
        _ => RejoinSessionPolicy::Never,
    });
    if let Some(id) = &cfg.client_id {
        b.with_client_id(id);
    }
    if let Some(v) = cfg.client_alias_max {
        b.with_topic_alias_maximum(v);
    }
    if let Some(v) = cfg.client_max_packet {
        b.with_maximum_packet_size_bytes(v);
    }
    if let Some(v) = cfg.session_expiry {
        b.with_session_expiry_interval_seconds(v);
    }
    b.build()
}

pub fn payload_for(tag: u32, size: usize) -> Vec<u8> {
    let mut p = Vec::with_capacity(4 + size);
    p.extend_from_slice(&tag.to_be_bytes());
    for i in 0..size {
        p.push((i as u32).wrapping_mul(31).wrapping_add(tag) as u8);
    }
    p
}

pub fn tag_of_packet(p: &rf::Packet) -> Option<u32> {
    fn from_filter(f: &str) -> Option<u32> {
        let mut it = f.split('/');
        while let Some(seg) = it.next() {
            if seg == "f" {
                return it.next().and_then(|s| s.parse::<u32>().ok());
            }
        }
        None
    }
    match p {
        rf::Packet::Publish(p) => {
            if p.payload.len() >= 4 {
                Some(u32::from_be_bytes([p.payload[0], p.payload[1], p.payload[2], p.payload[3]]))
            } else {
                None
            }
        }
        rf::Packet::Subscribe(s) => s.entries.first().and_then(|e| from_filter(&e.filter)),
        rf::Packet::Unsubscribe(u) => u.filters.first().and_then(|f| from_filter(f)),
        _ => None,
    }
}

#[derive(Clone, Debug)]
pub struct Pending {
    /// refmqtt type code of the response: 2 connack, 4 puback, 5 pubrec, 6 pubrel, 7 pubcomp, 9 suback, 11 unsuback, 13 pingresp
    pub type_code: u8,
    pub pid: u16,
    pub n: usize,
    pub tag: Option<u32>,
}

pub struct Conn {
    pub id: usize,
    pub out: Vec<u8>,
    pub written: usize,
    pub emitted: Vec<u8>,
    pub parse_off: usize,
    pub delivered: usize,
    pub pkts: Vec<usize>,
    pub consumed: usize,
    pub partial_calls: u32,
    pub partial_first_call: Option<usize>,
    pub errored: bool,
    pub wire_broken: bool,
    pub connect: Option<rf::Connect>,
    pub connack_sent: bool,
    pub connack_ok: bool,
    pub pending: Vec<Pending>,
    pub srv_alias: BTreeMap<u16, String>,
    pub client_disconnected: bool,
    pub opened_at: u64,
}

#[derive(Clone, Debug)]
pub struct TagInfo {
    pub kind: Kind,
    pub n: usize,
    pub token: u64,
    pub resolved: bool,
    pub has_timeout: bool,
}

pub struct Sim {
    pub cfg: SimCfg,
    pub eng: gv::Engine,
    pub now: u64,
    pub tr: Trace,
    pub conn: Option<Conn>,
    pub conn_count: usize,
    next_tag: u32,
    tag_of_token: HashMap<u64, u32>,
    pub tags: BTreeMap<u32, TagInfo>,
    call_ix: usize,
    pub session_exists: bool,
    nonce: u64,
    srv_inflight_q1: BTreeSet<u16>,
    srv_inflight_q2: BTreeSet<u16>,
    srv_tag: u32,
    last_ack_bytes: Option<Vec<u8>>,
    chunk: usize,
    pub finished: bool,
    assigned_ids: u32,
    in_drain: bool,
    prop_seed: u64,
}

const SRV_TAG_BASE: u32 = 0x8000_0000;

impl Sim {
    pub fn new(cfg: &SimCfg) -> Sim {
        let resolver = match cfg.resolver {
            Resolver::Null => None,
            Resolver::Manual => Some(OutboundAliasResolverFactory::new_manual_factory()),
            Resolver::Lru(n) => Some(OutboundAliasResolverFactory::new_lru_factory(n)),
        };
        let eng = gv::Engine::new(gv::EngineConfig {
            connect_options: build_connect_options(cfg),
            offline_queue_policy: offline_policy(cfg.offline),
            ping_timeout: Duration::from_millis(cfg.ping_timeout_ms),
            outbound_alias_resolver_factory: resolver,
            protocol_mode: if cfg.v5 { ProtocolMode::Mqtt5 } else { ProtocolMode::Mqtt311 },
            post_reconnect_queue_drain_policy: if cfg.one_at_a_time { PostReconnectQueueDrainPolicy::OneAtATime } else { PostReconnectQueueDrainPolicy::None },
            max_interrupted_retries: cfg.retries,
        });
        let mut eng = eng;
        if cfg.first_pid != 0 {
            eng.seek_packet_id(cfg.first_pid);
        }
        Sim {
            cfg: cfg.clone(),
            eng,
            now: 0,
            tr: Trace::default(),
            conn: None,
            conn_count: 0,
            next_tag: 1,
            tag_of_token: HashMap::new(),
            tags: BTreeMap::new(),
            call_ix: 0,
            session_exists: false,
            nonce: 0,
            srv_inflight_q1: BTreeSet::new(),
            srv_inflight_q2: BTreeSet::new(),
            srv_tag: SRV_TAG_BASE,
            last_ack_bytes: None,
            chunk: 4096,
            finished: false,
            assigned_ids: 0,
            in_drain: false,
            prop_seed: 0,
        }
    }

    pub fn version(&self) -> rf::Version {
        if self.cfg.v5 {
            rf::Version::V5
        } else {
            rf::Version::V311
        }
    }

    fn t(&self) -> Duration {
        Duration::from_millis(self.now)
    }

    pub fn label(&mut self, l: &str) {
        if !self.tr.labels.iter().any(|x| x == l) {
            self.tr.labels.push(l.to_string());
        }
    }

    pub fn state(&self) -> EState {
        estate(self.eng.state())
    }

    // --------------------------------------------------------------------------------------------
    // engine calls
    // --------------------------------------------------------------------------------------------

    fn after_call(&mut self, kind: CallKind, before: EState, res: Result<Result<(), GneissError>, (String, String)>, bytes_out: usize, post_error: bool) -> bool {
        let ix = self.call_ix;
        self.call_ix += 1;
        let conn_id = self.conn.as_ref().map(|c| c.id);
        match res {
            Err((msg, loc)) => {
                let after_unasked = self.tr.unasked_service_used;
                self.tr.evs.push(Ev::Panic { ix, t: self.now, kind, msg, loc, post_error, after_unasked });
                self.tr.dead = true;
                false
            }
            Ok(r) => {
                let after = self.state();
                let (result, msg) = match &r {
                    Ok(()) => (Ok(()), String::new()),
                    Err(e) => (Err(ek(e)), format!("{}", e)),
                };
                let ok = result.is_ok();
                if std::env::var("VERIF_SNAP").is_ok() {
                    if let Ok(sn) = guarded(|| self.eng.snapshot()) {
                        println!("   snap after call {} {:?}: ops={:?} cur={:?} hp={:?} user={:?} resub={:?} pend_pub={:?} pend_np={:?} pwc_ops={:?} pwc={} ids={:?}", ix, kind, sn.operations, sn.current_operation, sn.high_priority_operation_queue, sn.user_operation_queue, sn.resubmit_operation_queue, sn.pending_publish_operations, sn.pending_non_publish_operations, sn.pending_write_completion_operations, sn.pending_write_completion, sn.allocated_packet_ids);
                    }
                }
                let cur_tag = match guarded(|| self.eng.snapshot()) {
                    Ok(sn) => sn.current_operation.and_then(|id| self.tag_of_token.get(&id).copied()),
                    Err(_) => None,
                };
                self.tr.evs.push(Ev::Call { ix, t: self.now, kind, result, msg, before, after, post_error, conn: conn_id, bytes_out, cur_tag });
                self.collect(ix);
                ok
            }
        }
    }

    /// drains completions and surfaced packet events produced by the call `ix`
    fn collect(&mut self, ix: usize) {
        let done = match guarded(|| self.eng.drain_completions()) {
            Ok(d) => d,
            Err(_) => Vec::new(),
        };
        for (token, outcome) in done {
            match self.tag_of_token.get(&token).copied() {
                Some(tag) => {
                    let d = convert_outcome(outcome);
                    if let Some(info) = self.tags.get_mut(&tag) {
                        info.resolved = true;
                    }
                    self.tr.evs.push(Ev::Done { tag, t: self.now, done: d, call: ix });
                }
                None => self.tr.evs.push(Ev::UnknownDone { token, t: self.now }),
            }
        }
        let events = self.eng.drain_packet_events();
        let conn_id = self.conn.as_ref().map(|c| c.id).unwrap_or(usize::MAX);
        for e in events {
            let what = match &e {
                gv::PacketEventView::Connack(c) => Surf::Connack { success: c.reason_code().is_success(), session_present: c.session_present() },
                gv::PacketEventView::Publish(p) => {
                    let payload = p.payload().unwrap_or(&[]);
                    let payload_tag = if payload.len() >= 4 { Some(u32::from_be_bytes([payload[0], payload[1], payload[2], payload[3]])) } else { None };
                    Surf::Publish { qos: qos_num(p.qos()), pid: gv::publish_packet_id(p), topic: p.topic().to_string(), payload_tag, dup: p.duplicate() }
                }
                gv::PacketEventView::Disconnect(_) => Surf::Disconnect,
            };
            let success_connack = matches!(what, Surf::Connack { success: true, .. });
            self.tr.evs.push(Ev::Surfaced { conn: conn_id, t: self.now, what, call: ix });
            if success_connack {
                if let Some(s) = self.eng.negotiated_settings() {
                    self.tr.evs.push(Ev::SettingsSeen { conn: conn_id, settings: s });
                }
            }
        }
    }

    pub fn next_service(&mut self) -> Option<u64> {
        let t = self.t();
        let state = self.state();
        match guarded(|| self.eng.next_service(t)) {
            Ok(a) => {
                // a sub-millisecond fraction must not make a due time look "not due": round up
                let answer = a.map(|d| if d.subsec_nanos() % 1_000_000 != 0 { d.as_millis() as u64 + 1 } else { d.as_millis() as u64 });
                self.tr.evs.push(Ev::NextService { t: self.now, answer, state });
                answer
            }
            Err((msg, loc)) => {
                let ix = self.call_ix;
                self.call_ix += 1;
                let after_unasked = self.tr.unasked_service_used;
                self.tr.evs.push(Ev::Panic { ix, t: self.now, kind: CallKind::NextService, msg, loc, post_error: false, after_unasked });
                self.tr.dead = true;
                None
            }
        }
    }

    pub fn service_due(&mut self) -> bool {
        if self.conn.is_none() {
            return false;
        }
        match self.next_service() {
            Some(t) => t <= self.now,
            None => false,
        }
    }

    pub fn do_open(&mut self, deadline_ms: u32) {
        if self.conn.is_some() || self.tr.dead {
            self.tr.remapped += 1;
            return;
        }
        let id = self.conn_count;
        self.conn_count += 1;
        let deadline = self.now + deadline_ms as u64;
        self.conn = Some(Conn {
            id,
            out: Vec::with_capacity(self.cfg.buf_cap),
            written: 0,
            emitted: Vec::new(),
            parse_off: 0,
            delivered: 0,
            pkts: Vec::new(),
            consumed: 0,
            partial_calls: 0,
            partial_first_call: None,
            errored: false,
            wire_broken: false,
            connect: None,
            connack_sent: false,
            connack_ok: false,
            pending: Vec::new(),
            srv_alias: BTreeMap::new(),
            client_disconnected: false,
            opened_at: self.now,
        });
        self.tr.evs.push(Ev::Open { conn: id, t: self.now, deadline });
        let before = self.state();
        let t = self.t();
        let res = guarded(|| self.eng.open(t, Duration::from_millis(deadline)));
        let ok = self.after_call(CallKind::Open, before, res, 0, false);
        if !ok {
            if let Some(c) = self.conn.as_mut() {
                c.errored = true;
            }
        }
    }

    pub fn do_close(&mut self) {
        if self.tr.dead {
            return;
        }
        let (id, delivered, emitted) = match &self.conn {
            Some(c) => (c.id, c.delivered, c.emitted.len()),
            None => {
                self.tr.remapped += 1;
                return;
            }
        };
        let before = self.state();
        let t = self.t();
        let res = guarded(|| self.eng.close(t));
        self.tr.evs.push(Ev::Close { conn: id, t: self.now, delivered, emitted });
        self.conn = None;
        self.after_call(CallKind::Close, before, res, 0, false);
    }

    pub fn do_reset(&mut self) {
        if self.tr.dead {
            return;
        }
        let before = self.state();
        let t = self.t();
        let res = guarded(|| {
            self.eng.reset(t);
            Ok(())
        });
        self.tr.evs.push(Ev::Reset { t: self.now });
        self.after_call(CallKind::Reset, before, res, 0, false);
        if self.conn.is_some() {
            self.do_close();
        }
        self.finished = true;
        if !self.tr.dead {
            self.final_snapshot(true);
        }
    }

    pub fn do_service(&mut self, unasked: bool) {
        if self.tr.dead {
            return;
        }
        if self.conn.is_none() {
            self.tr.remapped += 1;
            return;
        }
        if unasked {
            self.tr.unasked_service_used = true;
        }
        let before = self.state();
        let t = self.t();
        let post_error = self.conn.as_ref().map(|c| c.errored).unwrap_or(false);
        let mut out = std::mem::take(&mut self.conn.as_mut().unwrap().out);
        let len_before = out.len();
        let cap_before = out.capacity();
        let res = guarded(|| self.eng.service(t, &mut out));
        let appended: Vec<u8> = out[len_before.min(out.len())..].to_vec();
        debug_assert_eq!(cap_before, out.capacity());
        {
            let c = self.conn.as_mut().unwrap();
            c.out = out;
            c.emitted.extend_from_slice(&appended);
            if !appended.is_empty() {
                c.partial_calls += 1;
                if c.partial_first_call.is_none() {
                    c.partial_first_call = Some(self.call_ix);
                }
            }
        }
        let kind = if unasked { CallKind::ServiceUnasked } else { CallKind::Service };
        let call_ix = self.call_ix;
        let ok = self.after_call(kind, before, res, appended.len(), post_error);
        if !ok && !self.tr.dead {
            if let Some(c) = self.conn.as_mut() {
                c.errored = true;
            }
        }
        if !appended.is_empty() {
            self.parse_emitted(call_ix);
        }
    }

    fn parse_emitted(&mut self, call_ix: usize) {
        let version = self.version();
        loop {
            let c = match self.conn.as_mut() {
                Some(c) => c,
                None => return,
            };
            if c.wire_broken || c.parse_off >= c.emitted.len() {
                return;
            }
            match rf::decode(version, rf::Direction::ClientToServer, &c.emitted[c.parse_off..]) {
                Ok((pkt, used)) => {
                    let start = c.parse_off;
                    let end = start + used;
                    c.parse_off = end;
                    let tag = tag_of_packet(&pkt);
                    let spanned = c.partial_calls;
                    let first_call = c.partial_first_call.unwrap_or(call_ix);
                    c.partial_calls = if end < c.emitted.len() { 1 } else { 0 };
                    c.partial_first_call = if end < c.emitted.len() { Some(call_ix) } else { None };
                    let ix = self.tr.emitted.len();
                    c.pkts.push(ix);
                    let conn = c.id;
                    let pid_of = match &pkt {
                        rf::Packet::Publish(p) if p.qos > 0 => p.pid,
                        rf::Packet::Subscribe(s) => Some(s.pid),
                        rf::Packet::Unsubscribe(u) => Some(u.pid),
                        rf::Packet::Pubrel(a) => Some(a.pid),
                        _ => None,
                    };
                    let id_reserved_after = match pid_of {
                        Some(pid) => guarded(|| self.eng.snapshot()).ok().map(|sn| sn.allocated_packet_ids.iter().any(|(p, _)| *p == pid)),
                        None => None,
                    };
                    self.tr.emitted.push(Emitted { conn, pkt, tag, start, end, t: self.now, call: call_ix, first_call, calls_spanned: spanned.max(1), delivered_at: None, id_reserved_after });
                    self.tr.evs.push(Ev::Emit { ix });
                }
                Err(rf::DecodeError::Incomplete) => return,
                Err(rf::DecodeError::Malformed(detail)) => {
                    c.wire_broken = true;
                    let bytes = c.emitted[c.parse_off..].iter().take(64).copied().collect();
                    let conn = c.id;
                    self.tr.evs.push(Ev::BadWire { conn, t: self.now, detail, bytes });
                    return;
                }
            }
        }
    }

    /// the transport accepts `n` more bytes; when everything is out, the driver flushes and reports write completion
    pub fn do_flush_bytes(&mut self, n: usize) {
        if self.tr.dead {
            return;
        }
        let complete = {
            let c = match self.conn.as_mut() {
                Some(c) => c,
                None => {
                    self.tr.remapped += 1;
                    return;
                }
            };
            let pending = c.out.len() - c.written;
            if pending == 0 || c.errored {
                self.tr.remapped += 1;
                return;
            }
            let n = n.clamp(1, pending);
            c.written += n;
            c.delivered += n;
            if c.written == c.out.len() {
                c.out.clear();
                c.written = 0;
                true
            } else {
                false
            }
        };
        self.mark_delivered();
        self.broker_consume();
        if complete {
            let before = self.state();
            let t = self.t();
            let res = guarded(|| self.eng.write_complete(t));
            let ok = self.after_call(CallKind::WriteComplete, before, res, 0, false);
            if self.tr.dead {
                return;
            }
            if ok {
                let id = self.conn.as_ref().map(|c| c.id).unwrap_or(0);
                self.tr.evs.push(Ev::WriteCompleteOk { conn: id, t: self.now });
            } else if let Some(c) = self.conn.as_mut() {
                c.errored = true;
            }
        }
    }

    pub fn do_flush_part(&mut self, part: u16) {
        let pending = match &self.conn {
            Some(c) => c.out.len() - c.written,
            None => 0,
        };
        if pending == 0 {
            self.tr.remapped += 1;
            return;
        }
        let n = 1 + ((pending - 1) as u64 * part as u64 / 65535) as usize;
        self.do_flush_bytes(n);
    }

    pub fn do_flush_all(&mut self) {
        let pending = match &self.conn {
            Some(c) => c.out.len() - c.written,
            None => 0,
        };
        if pending > 0 {
            self.do_flush_bytes(pending);
        }
    }

    fn mark_delivered(&mut self) {
        let evix = self.tr.evs.len();
        if let Some(c) = &self.conn {
            for &ix in &c.pkts {
                let e = &mut self.tr.emitted[ix];
                if e.delivered_at.is_none() && e.end <= c.delivered {
                    e.delivered_at = Some(evix);
                }
            }
        }
    }

    /// feeds bytes from the server to the engine in reads of the configured chunk size
    pub fn deliver(&mut self, bytes: &[u8]) {
        if self.tr.dead || self.conn.is_none() {
            return;
        }
        let chunk = self.chunk.clamp(1, 4096);
        let mut off = 0;
        while off < bytes.len() {
            if self.tr.dead || self.conn.is_none() {
                return;
            }
            let end = (off + chunk).min(bytes.len());
            let before = self.state();
            let t = self.t();
            let post_error = self.conn.as_ref().map(|c| c.errored).unwrap_or(false);
            let piece = bytes[off..end].to_vec();
            let res = guarded(|| self.eng.incoming(t, &piece));
            let ok = self.after_call(CallKind::Incoming, before, res, 0, post_error);
            if self.tr.dead {
                return;
            }
            if !ok {
                if let Some(c) = self.conn.as_mut() {
                    c.errored = true;
                }
                // a real driver stops reading after the first error
                return;
            }
            off = end;
        }
    }

    // --------------------------------------------------------------------------------------------
    // user operations
    // --------------------------------------------------------------------------------------------

    fn register(&mut self, tag: u32, kind: Kind, n: usize, token: u64, timeout_ms: Option<u32>, topic: Option<String>, before: EState) {
        self.tag_of_token.insert(token, tag);
        self.tags.insert(tag, TagInfo { kind, n, token, resolved: false, has_timeout: timeout_ms.is_some() });
        let conn = self.conn.as_ref().map(|c| c.id);
        self.tr.evs.push(Ev::Submit { tag, kind, t: self.now, state: before, conn, timeout_ms, topic });
    }

    pub fn topic_name(ix: u8) -> String {
        format!("t/{}", ix)
    }

    pub fn do_publish(&mut self, qos: u8, topic: u8, size: usize, retain: bool, timeout_ms: Option<u32>, alias: Option<u16>) -> Option<u32> {
        if self.tr.dead || self.finished {
            return None;
        }
        let tag = self.next_tag;
        self.next_tag += 1;
        let topic_s = Self::topic_name(topic);
        let mut b = PublishPacket::builder(topic_s.clone(), qos_of(qos)).with_payload(payload_for(tag, size));
        if retain {
            b = b.with_retain(true);
        }
        let mut p = b.build();
        if alias.is_some() && self.cfg.resolver == Resolver::Manual {
            p = gv::publish_with_alias(p, alias);
        }
        let before = self.state();
        let t = self.t();
        let timeout = timeout_ms.map(|m| if m == u32::MAX { Duration::MAX } else { Duration::from_millis(m as u64) });
        let res = guarded(|| self.eng.submit_publish(t, p, timeout));
        match res {
            Ok(token) => {
                let kind = match qos {
                    0 => Kind::Pub0,
                    1 => Kind::Pub1,
                    _ => Kind::Pub2,
                };
                self.register(tag, kind, 1, token, timeout_ms, Some(topic_s), before);
                self.after_call(CallKind::Submit, before, Ok(Ok(())), 0, false);
                Some(tag)
            }
            Err(p) => {
                self.after_call(CallKind::Submit, before, Err(p), 0, false);
                None
            }
        }
    }

    pub fn do_subscribe(&mut self, n: u8, timeout_ms: Option<u32>, wild: bool, shared: bool, sub_id: bool) -> Option<u32> {
        if self.tr.dead || self.finished {
            return None;
        }
        let tag = self.next_tag;
        self.next_tag += 1;
        let n = n.max(1) as usize;
        let mut b = SubscribePacket::builder();
        for i in 0..n {
            let mut f = if wild && i == 0 { format!("f/{}/+", tag) } else { format!("f/{}/{}", tag, i) };
            if shared && i == 0 {
                f = format!("$share/g/{}", f);
            }
            b = b.with_subscription_simple(f, qos_of((i % 3) as u8));
        }
        if sub_id {
            b = b.with_subscription_identifier(1 + (tag % 200));
        }
        let p = b.build();
        let before = self.state();
        let t = self.t();
        let timeout = timeout_ms.map(|m| if m == u32::MAX { Duration::MAX } else { Duration::from_millis(m as u64) });
        let res = guarded(|| self.eng.submit_subscribe(t, p, timeout));
        match res {
            Ok(token) => {
                self.register(tag, Kind::Sub, n, token, timeout_ms, None, before);
                self.after_call(CallKind::Submit, before, Ok(Ok(())), 0, false);
                Some(tag)
            }
            Err(p) => {
                self.after_call(CallKind::Submit, before, Err(p), 0, false);
                None
            }
        }
    }

    pub fn do_unsubscribe(&mut self, n: u8, timeout_ms: Option<u32>) -> Option<u32> {
        if self.tr.dead || self.finished {
            return None;
        }
        let tag = self.next_tag;
        self.next_tag += 1;
        let n = n.max(1) as usize;
        let mut b = UnsubscribePacket::builder();
        for i in 0..n {
            b = b.with_topic_filter(format!("f/{}/{}", tag, i));
        }
        let p = b.build();
        let before = self.state();
        let t = self.t();
        let timeout = timeout_ms.map(|m| if m == u32::MAX { Duration::MAX } else { Duration::from_millis(m as u64) });
        let res = guarded(|| self.eng.submit_unsubscribe(t, p, timeout));
        match res {
            Ok(token) => {
                self.register(tag, Kind::Unsub, n, token, timeout_ms, None, before);
                self.after_call(CallKind::Submit, before, Ok(Ok(())), 0, false);
                Some(tag)
            }
            Err(p) => {
                self.after_call(CallKind::Submit, before, Err(p), 0, false);
                None
            }
        }
    }

    /// submits an arbitrary, already built packet (C16); the tag is not embedded in the packet
    pub fn submit_raw(&mut self, packet: gv::OutPacket) -> Option<u32> {
        if self.tr.dead || self.finished {
            return None;
        }
        let tag = self.next_tag;
        self.next_tag += 1;
        let before = self.state();
        let t = self.t();
        let (kind, n, res) = match packet {
            gv::OutPacket::Publish(p) => {
                let kind = match qos_num(p.qos()) {
                    0 => Kind::Pub0,
                    1 => Kind::Pub1,
                    _ => Kind::Pub2,
                };
                (kind, 1, guarded(|| self.eng.submit_publish(t, p, None)))
            }
            gv::OutPacket::Subscribe(p) => (Kind::Sub, 0, guarded(|| self.eng.submit_subscribe(t, p, None))),
            gv::OutPacket::Unsubscribe(p) => (Kind::Unsub, 0, guarded(|| self.eng.submit_unsubscribe(t, p, None))),
            gv::OutPacket::Disconnect(p) => {
                let res = guarded(|| {
                    self.eng.submit_disconnect(t, p);
                    Ok(())
                });
                self.after_call(CallKind::SubmitDisconnect, before, res, 0, false);
                return None;
            }
            _ => return None,
        };
        match res {
            Ok(token) => {
                self.register(tag, kind, n, token, None, None, before);
                self.after_call(CallKind::Submit, before, Ok(Ok(())), 0, false);
                Some(tag)
            }
            Err(p) => {
                self.after_call(CallKind::Submit, before, Err(p), 0, false);
                None
            }
        }
    }

    pub fn do_user_disconnect(&mut self) {
        if self.tr.dead || self.finished {
            return;
        }
        let p = DisconnectPacket::builder().build();
        let before = self.state();
        let t = self.t();
        let res = guarded(|| {
            self.eng.submit_disconnect(t, p);
            Ok(())
        });
        self.after_call(CallKind::SubmitDisconnect, before, res, 0, false);
    }

    // --------------------------------------------------------------------------------------------
    // reference broker
    // --------------------------------------------------------------------------------------------

    fn broker_consume(&mut self) {
        let mut new_pending: Vec<Pending> = Vec::new();
        let mut got_connect: Option<rf::Connect> = None;
        let mut client_disc = false;
        let mut acked_q1: Vec<u16> = Vec::new();
        let mut comp_q2: Vec<u16> = Vec::new();
        if let Some(c) = self.conn.as_mut() {
            while c.consumed < c.pkts.len() {
                let e = &self.tr.emitted[c.pkts[c.consumed]];
                if e.end > c.delivered {
                    break;
                }
                c.consumed += 1;
                match &e.pkt {
                    rf::Packet::Connect(cn) => {
                        if c.connect.is_none() && got_connect.is_none() {
                            got_connect = Some(cn.clone());
                            new_pending.push(Pending { type_code: 2, pid: 0, n: 0, tag: None });
                        }
                    }
                    rf::Packet::Publish(p) => match p.qos {
                        1 => new_pending.push(Pending { type_code: 4, pid: p.pid.unwrap_or(0), n: 1, tag: e.tag }),
                        2 => new_pending.push(Pending { type_code: 5, pid: p.pid.unwrap_or(0), n: 1, tag: e.tag }),
                        _ => {}
                    },
                    rf::Packet::Pubrel(a) => new_pending.push(Pending { type_code: 7, pid: a.pid, n: 1, tag: None }),
                    rf::Packet::Subscribe(s) => new_pending.push(Pending { type_code: 9, pid: s.pid, n: s.entries.len(), tag: e.tag }),
                    rf::Packet::Unsubscribe(u) => new_pending.push(Pending { type_code: 11, pid: u.pid, n: u.filters.len(), tag: e.tag }),
                    rf::Packet::Pingreq => new_pending.push(Pending { type_code: 13, pid: 0, n: 0, tag: None }),
                    rf::Packet::Puback(a) => acked_q1.push(a.pid),
                    rf::Packet::Pubrec(a) => new_pending.push(Pending { type_code: 6, pid: a.pid, n: 1, tag: None }),
                    rf::Packet::Pubcomp(a) => comp_q2.push(a.pid),
                    rf::Packet::Disconnect(_) => client_disc = true,
                    _ => {}
                }
            }
            if let Some(cn) = got_connect {
                c.connect = Some(cn);
            }
            c.pending.extend(new_pending);
            if client_disc {
                c.client_disconnected = true;
            }
        }
        for p in acked_q1 {
            self.srv_inflight_q1.remove(&p);
        }
        for p in comp_q2 {
            self.srv_inflight_q2.remove(&p);
        }
    }

    fn next_nonce(&mut self) -> Option<String> {
        self.nonce += 1;
        if self.cfg.v5 {
            Some(format!("n{}", self.nonce))
        } else {
            None
        }
    }

    fn enc_opts(&mut self, how: RespondHow) -> rf::EncodeOpts {
        self.prop_seed = self.prop_seed.wrapping_mul(6364136223846793005).wrapping_add(1442695040888963407);
        rf::EncodeOpts {
            prop_order_seed: if matches!(how, RespondHow::Normal) { 0 } else { self.prop_seed | 1 },
            explicit_reason: matches!(how, RespondHow::ExplicitForm),
            explicit_prop_len: matches!(how, RespondHow::ExplicitForm),
        }
    }

    pub fn build_connack(&mut self, kind: ConnackKind) -> rf::Connack {
        let tpl = match &self.cfg.connack_alt {
            Some(alt) if self.conn_count % 2 == 0 => alt.clone(),
            _ => self.cfg.connack.clone(),
        };
        let (clean, client_id_empty) = match self.conn.as_ref().and_then(|c| c.connect.as_ref()) {
            Some(cn) => (cn.clean_start, cn.client_id.is_empty()),
            None => (true, false),
        };
        let v5 = self.cfg.v5;
        match kind {
            ConnackKind::Fail(ix) => {
                let codes: &[u8] = if v5 { &[0x80, 0x81, 0x82, 0x83, 0x84, 0x85, 0x86, 0x87, 0x88, 0x89, 0x8A, 0x8C, 0x90, 0x95, 0x97, 0x99, 0x9A, 0x9B, 0x9C, 0x9D, 0x9F] } else { &[1, 2, 3, 4, 5] };
                rf::Connack { session_present: false, reason: codes[ix as usize % codes.len()], ..Default::default() }
            }
            ConnackKind::Ok | ConnackKind::OkSessionLost => {
                let lost = matches!(kind, ConnackKind::OkSessionLost);
                let session_present = !clean && self.session_exists && !lost;
                let mut ck = rf::Connack { session_present, reason: 0, ..Default::default() };
                if v5 {
                    ck.receive_maximum = tpl.receive_max;
                    ck.maximum_qos = tpl.max_qos;
                    ck.retain_available = tpl.retain_available;
                    ck.maximum_packet_size = tpl.max_packet;
                    ck.topic_alias_maximum = tpl.alias_max;
                    ck.server_keep_alive = tpl.server_keep_alive;
                    ck.wildcard_subscription_available = tpl.wildcard_available;
                    ck.subscription_identifiers_available = tpl.subid_available;
                    ck.shared_subscription_available = tpl.shared_available;
                    ck.session_expiry = tpl.session_expiry;
                    if client_id_empty && tpl.assign_client_id {
                        self.assigned_ids += 1;
                        ck.assigned_client_id = Some(format!("auto-{}", self.assigned_ids));
                    }
                }
                ck
            }
        }
    }

    /// the CONNACK the simulator sends when no operation of the history chose one
    fn implicit_connack_kind(&self) -> ConnackKind {
        let n = self.cfg.session_loss_every as usize;
        let id = self.conn.as_ref().map(|c| c.id).unwrap_or(0);
        if n > 0 && (id + 1) % n == 0 {
            ConnackKind::OkSessionLost
        } else {
            ConnackKind::Ok
        }
    }

    pub fn send_connack(&mut self, kind: ConnackKind, forced: bool) {
        if self.conn.is_none() || self.tr.dead {
            self.tr.remapped += 1;
            return;
        }
        let has_pending = self.conn.as_ref().map(|c| c.pending.iter().any(|p| p.type_code == 2)).unwrap_or(false);
        let already = self.conn.as_ref().map(|c| c.connack_sent).unwrap_or(false);
        let compliant = has_pending && !already;
        if !compliant && !forced {
            self.tr.remapped += 1;
            return;
        }
        if !compliant {
            self.tr.adversarial_used = true;
        }
        let ck = self.build_connack(kind);
        let success = ck.reason == 0;
        let sp = ck.session_present;
        if success {
            if !sp {
                // the broker starts a fresh session: it forgets its own in-flight state
                self.srv_inflight_q1.clear();
                self.srv_inflight_q2.clear();
            }
            self.session_exists = true;
        }
        let bytes = rf::encode(self.version(), &rf::Packet::Connack(ck.clone()), &rf::EncodeOpts::default());
        let id = {
            let c = self.conn.as_mut().unwrap();
            c.pending.retain(|p| p.type_code != 2);
            c.connack_sent = true;
            c.connack_ok = success;
            c.srv_alias.clear();
            c.id
        };
        self.tr.evs.push(Ev::SrvSend { conn: id, t: self.now, desc: SrvDesc::Connack { success, session_present: sp, settings: Some(ck) }, compliant });
        self.deliver(&bytes);
    }

    /// the broker sends the pending response number `ix` (mapped monotonically)
    pub fn respond(&mut self, ix: u16, how: RespondHow) -> bool {
        if self.conn.is_none() || self.tr.dead {
            self.tr.remapped += 1;
            return false;
        }
        let (connack_sent, connack_ok, npend) = {
            let c = self.conn.as_ref().unwrap();
            (c.connack_sent, c.connack_ok, c.pending.len())
        };
        if npend == 0 {
            self.tr.remapped += 1;
            return false;
        }
        if !connack_sent {
            // a compliant server answers the CONNECT first
            if self.conn.as_ref().unwrap().pending.iter().any(|p| p.type_code == 2) {
                let k = self.implicit_connack_kind();
                self.send_connack(k, false);
                return true;
            }
            self.tr.remapped += 1;
            return false;
        }
        if !connack_ok {
            self.tr.remapped += 1;
            return false;
        }
        let pos = (ix as usize * npend) >> 16;
        let p = self.conn.as_mut().unwrap().pending.remove(pos.min(npend - 1));
        self.send_response(&p, how);
        true
    }

    pub fn send_response(&mut self, p: &Pending, how: RespondHow) {
        let v5 = self.cfg.v5;
        let fail = matches!(how, RespondHow::FailReason) && v5;
        let nonce = if p.type_code == 13 || p.type_code == 6 { None } else { self.next_nonce() };
        let opts = self.enc_opts(how);
        // failing reason codes: every one the specification allows for the packet type, chosen by the packet id
        let sel = p.pid as usize;
        let pub_fail: [u8; 8] = [0x80, 0x83, 0x87, 0x80, 0x90, 0x91, 0x97, 0x99];
        let sub_fail: [u8; 9] = [0x80, 0x83, 0x87, 0x8F, 0x91, 0x97, 0x9E, 0xA1, 0xA2];
        let unsub_fail: [u8; 5] = [0x80, 0x83, 0x87, 0x8F, 0x91];
        let (pkt, reason, reasons): (rf::Packet, u8, Vec<u8>) = match p.type_code {
            4 => {
                // "No matching subscribers" (0x10) is a success code of PUBACK / PUBREC in MQTT 5
                let r = if fail { pub_fail[(sel + 3) % pub_fail.len()] } else if v5 && sel % 4 == 3 { 0x10 } else { 0 };
                (rf::Packet::Puback(rf::Ack { pid: p.pid, reason: r, reason_string: nonce.clone(), user_props: vec![] }), r, vec![])
            }
            5 => {
                let r = if fail { pub_fail[(sel + 2) % pub_fail.len()] } else if v5 && sel % 3 == 2 { 0x10 } else { 0 };
                (rf::Packet::Pubrec(rf::Ack { pid: p.pid, reason: r, reason_string: nonce.clone(), user_props: vec![] }), r, vec![])
            }
            6 => (rf::Packet::Pubrel(rf::Ack { pid: p.pid, reason: 0, reason_string: None, user_props: vec![] }), 0, vec![]),
            7 => {
                let r = if fail { 0x92 } else { 0 };
                (rf::Packet::Pubcomp(rf::Ack { pid: p.pid, reason: r, reason_string: nonce.clone(), user_props: vec![] }), r, vec![])
            }
            9 => {
                let rs: Vec<u8> = (0..p.n).map(|i| if fail { sub_fail[(sel + i as usize) % sub_fail.len()] } else if matches!(how, RespondHow::FailReason) { 0x80 } else { (i % 3) as u8 }).collect();
                (rf::Packet::Suback(rf::Suback { pid: p.pid, reason_string: nonce.clone(), user_props: vec![], reasons: rs.clone() }), 0, rs)
            }
            11 => {
                let rs: Vec<u8> = if v5 { (0..p.n).map(|i| if fail { unsub_fail[(sel + i as usize) % unsub_fail.len()] } else if i % 2 == 1 { 0x11 } else { 0 }).collect() } else { vec![] };
                (rf::Packet::Unsuback(rf::Unsuback { pid: p.pid, reason_string: nonce.clone(), user_props: vec![], reasons: rs.clone() }), 0, rs)
            }
            _ => (rf::Packet::Pingresp, 0, vec![]),
        };
        let bytes = rf::encode(self.version(), &pkt, &opts);
        let id = self.conn.as_ref().map(|c| c.id).unwrap_or(0);
        let desc = match p.type_code {
            13 => SrvDesc::Pingresp,
            6 => SrvDesc::Pubrel { pid: p.pid },
            tc => SrvDesc::Ack { type_code: tc, pid: p.pid, reason, nonce, reasons, for_tag: p.tag },
        };
        if p.type_code != 13 && p.type_code != 6 {
            self.last_ack_bytes = Some(bytes.clone());
        }
        self.tr.evs.push(Ev::SrvSend { conn: id, t: self.now, desc, compliant: true });
        self.deliver(&bytes);
    }

    pub fn respond_all(&mut self) {
        let mut guard = 0;
        while !self.tr.dead && guard < 10_000 {
            guard += 1;
            let has = self.conn.as_ref().map(|c| !c.pending.is_empty() && !c.errored).unwrap_or(false);
            if !has {
                break;
            }
            if !self.respond(0, RespondHow::Normal) {
                break;
            }
        }
    }

    fn srv_ready(&self) -> bool {
        self.conn.as_ref().map(|c| c.connack_sent && c.connack_ok && !c.errored).unwrap_or(false)
    }

    pub fn srv_publish(&mut self, qos: u8, pid: u8, dup: bool, topic: u8, alias: Option<u16>, skip_topic: bool, size: u8) {
        if self.tr.dead || self.conn.is_none() {
            self.tr.remapped += 1;
            return;
        }
        let adversarial = self.cfg.policy == BrokerPolicy::Adversarial;
        if !self.srv_ready() && !adversarial {
            self.tr.remapped += 1;
            return;
        }
        let v5 = self.cfg.v5;
        let qos = qos.min(2);
        let pid = (pid % 6) as u16 + 1;
        let mut compliant = self.srv_ready();
        // alias handling
        let topic_s = format!("s/{}", topic);
        let alias_max = self.cfg.client_alias_max.unwrap_or(0);
        let mut alias = if v5 { alias } else { None };
        let mut wire_topic = topic_s.clone();
        let mut alias_bad = false;
        if let Some(a) = alias {
            let in_range = a >= 1 && a <= alias_max;
            let bound = self.conn.as_ref().and_then(|c| c.srv_alias.get(&a).cloned());
            if skip_topic {
                match (&bound, in_range) {
                    (Some(_), true) => wire_topic = String::new(),
                    _ => {
                        if adversarial {
                            wire_topic = String::new();
                            compliant = false;
                            alias_bad = true;
                        } else {
                            alias = None;
                        }
                    }
                }
            } else if !in_range {
                if adversarial {
                    compliant = false;
                    alias_bad = true;
                } else {
                    alias = None;
                }
            }
        }
        let resolved_topic = if wire_topic.is_empty() { alias.and_then(|a| self.conn.as_ref().and_then(|c| c.srv_alias.get(&a).cloned())).unwrap_or_default() } else { topic_s.clone() };
        if qos > 0 {
            let busy = self.srv_inflight_q1.contains(&pid) || self.srv_inflight_q2.contains(&pid);
            if busy && !dup {
                // re-using an identifier that is still in flight for a new message is a server error;
                // re-sending the same message (DUP) is legal after a reconnect only. We treat both as "duplicate delivery".
                compliant = compliant && false;
            }
        }
        if !compliant && !adversarial {
            // keep the broker compliant: pick a free identifier instead
            if qos > 0 {
                let free = (1..=6u16).find(|p| !self.srv_inflight_q1.contains(p) && !self.srv_inflight_q2.contains(p));
                match free {
                    Some(_) if !self.srv_ready() => {
                        self.tr.remapped += 1;
                        return;
                    }
                    Some(f) => {
                        return self.srv_publish_raw(qos, f, false, &topic_s, wire_topic, alias, resolved_topic, size, true, false);
                    }
                    None => {
                        self.tr.remapped += 1;
                        return;
                    }
                }
            }
        }
        if !compliant {
            self.tr.adversarial_used = true;
        }
        let dup = dup && qos > 0;
        self.srv_publish_raw(qos, pid, dup, &topic_s, wire_topic, alias, resolved_topic, size, compliant, alias_bad);
    }

    #[allow(clippy::too_many_arguments)]
    fn srv_publish_raw(&mut self, qos: u8, pid: u16, dup: bool, full_topic: &str, wire_topic: String, alias: Option<u16>, resolved_topic: String, size: u8, compliant: bool, alias_bad: bool) {
        self.srv_tag += 1;
        let tag = self.srv_tag;
        let pkt = rf::Packet::Publish(rf::Publish {
            dup,
            qos,
            retain: false,
            topic: wire_topic.clone(),
            pid: if qos > 0 { Some(pid) } else { None },
            payload: payload_for(tag, size as usize),
            topic_alias: alias,
            ..Default::default()
        });
        let bytes = rf::encode(self.version(), &pkt, &rf::EncodeOpts::default());
        if let Some(max) = self.cfg.client_max_packet {
            if bytes.len() as u64 > max as u64 && self.cfg.policy != BrokerPolicy::Adversarial {
                self.tr.remapped += 1;
                return;
            }
        }
        if qos == 1 {
            self.srv_inflight_q1.insert(pid);
        } else if qos == 2 {
            self.srv_inflight_q2.insert(pid);
        }
        if let (Some(a), false, false) = (alias, wire_topic.is_empty(), alias_bad) {
            if let Some(c) = self.conn.as_mut() {
                c.srv_alias.insert(a, full_topic.to_string());
            }
        }
        let id = self.conn.as_ref().map(|c| c.id).unwrap_or(0);
        self.tr.evs.push(Ev::SrvSend { conn: id, t: self.now, desc: SrvDesc::Publish { qos, pid, dup, topic: resolved_topic, alias, payload_tag: tag, alias_bad }, compliant });
        self.deliver(&bytes);
    }

    pub fn srv_pubrel(&mut self, pid: u8) {
        if self.tr.dead || !self.srv_ready() {
            self.tr.remapped += 1;
            return;
        }
        let pid = (pid % 6) as u16 + 1;
        let p = Pending { type_code: 6, pid, n: 1, tag: None };
        // remove an equivalent pending pubrel, if the client's PUBREC already queued one
        if let Some(c) = self.conn.as_mut() {
            if let Some(pos) = c.pending.iter().position(|x| x.type_code == 6 && x.pid == pid) {
                c.pending.remove(pos);
            }
        }
        self.send_response(&p, RespondHow::Normal);
    }

    pub fn srv_disconnect(&mut self) {
        if self.tr.dead || self.conn.is_none() || !self.cfg.v5 {
            self.tr.remapped += 1;
            return;
        }
        if !self.srv_ready() {
            self.tr.remapped += 1;
            return;
        }
        let pkt = rf::Packet::Disconnect(rf::Disconnect { reason: 0x8B, ..Default::default() });
        let bytes = rf::encode(self.version(), &pkt, &rf::EncodeOpts::default());
        let id = self.conn.as_ref().map(|c| c.id).unwrap_or(0);
        self.tr.evs.push(Ev::SrvSend { conn: id, t: self.now, desc: SrvDesc::Disconnect, compliant: true });
        self.deliver(&bytes);
    }

    pub fn adversary(&mut self, kind: Adv, ix: u16) {
        if self.tr.dead || self.conn.is_none() {
            self.tr.remapped += 1;
            return;
        }
        if self.cfg.policy != BrokerPolicy::Adversarial {
            // compliant broker: degrade to an ordinary response
            self.tr.remapped += 1;
            self.respond(ix, RespondHow::Normal);
            return;
        }
        let connack_sent = self.conn.as_ref().map(|c| c.connack_sent).unwrap_or(false);
        match kind {
            Adv::SecondConnack if !connack_sent => {
                // it would be the first CONNACK: send an ordinary one instead (only if the CONNECT has arrived)
                self.tr.remapped += 1;
                self.send_connack(ConnackKind::Ok, false);
                return;
            }
            Adv::UnsolicitedPingresp => {
                // only unsolicited if the client has no ping outstanding (it arms the ping timeout when it queues the PINGREQ)
                let outstanding = match guarded(|| self.eng.snapshot()) {
                    Ok(sn) => sn.ping_timeout_timepoint.is_some(),
                    Err(_) => true,
                };
                if outstanding {
                    self.tr.remapped += 1;
                    return;
                }
            }
            Adv::ServerDisconnectBeforeConnack if connack_sent => {
                self.tr.remapped += 1;
                self.srv_disconnect();
                return;
            }
            _ => {}
        }
        let version = self.version();
        let v5 = self.cfg.v5;
        let d = rf::EncodeOpts::default();
        let pend = self.conn.as_ref().unwrap().pending.clone();
        let pick = if pend.is_empty() { None } else { Some(pend[((ix as usize * pend.len()) >> 16).min(pend.len() - 1)].clone()) };
        let mut kind_override: Option<Adv> = None;
        let bytes: Vec<u8> = match kind {
            Adv::WrongTypeAck => match &pick {
                Some(p) if p.type_code != 2 && p.type_code != 13 => {
                    let wrong = match p.type_code {
                        4 => rf::Packet::Pubrec(rf::Ack { pid: p.pid, ..Default::default() }),
                        5 => rf::Packet::Puback(rf::Ack { pid: p.pid, ..Default::default() }),
                        7 => rf::Packet::Suback(rf::Suback { pid: p.pid, reasons: vec![0], ..Default::default() }),
                        9 => rf::Packet::Unsuback(rf::Unsuback { pid: p.pid, reasons: if v5 { vec![0; p.n] } else { vec![] }, ..Default::default() }),
                        11 => rf::Packet::Suback(rf::Suback { pid: p.pid, reasons: vec![0; p.n.max(1)], ..Default::default() }),
                        _ => rf::Packet::Pubcomp(rf::Ack { pid: p.pid, ..Default::default() }),
                    };
                    // inbound and outbound exchanges number their packets independently: the "wrong" packet may happen
                    // to be exactly the acknowledgement another pending exchange with the same identifier is waiting
                    // for (e.g. a PUBCOMP chosen for an inbound QoS2 id that an outbound QoS2 publish uses too) - then
                    // it is no violation at all and nothing is sent
                    let wrong_code: u8 = match &wrong {
                        rf::Packet::Puback(_) => 4,
                        rf::Packet::Pubrec(_) => 5,
                        rf::Packet::Pubcomp(_) => 7,
                        rf::Packet::Suback(_) => 9,
                        rf::Packet::Unsuback(_) => 11,
                        _ => 0,
                    };
                    if pend.iter().any(|q| q.pid == p.pid && q.type_code == wrong_code) {
                        self.tr.remapped += 1;
                        return;
                    }
                    rf::encode(version, &wrong, &d)
                }
                _ => rf::encode(version, &rf::Packet::Puback(rf::Ack { pid: 4242, ..Default::default() }), &d),
            },
            Adv::UnknownIdAck => {
                let pid = 40000 + (ix % 1000);
                let pk = match ix % 5 {
                    0 => rf::Packet::Puback(rf::Ack { pid, ..Default::default() }),
                    1 => rf::Packet::Pubrec(rf::Ack { pid, ..Default::default() }),
                    2 => rf::Packet::Pubcomp(rf::Ack { pid, ..Default::default() }),
                    3 => rf::Packet::Suback(rf::Suback { pid, reasons: vec![0], ..Default::default() }),
                    _ => rf::Packet::Unsuback(rf::Unsuback { pid, reasons: if v5 { vec![0] } else { vec![] }, ..Default::default() }),
                };
                rf::encode(version, &pk, &d)
            }
            Adv::DuplicateAck => match &self.last_ack_bytes {
                Some(b) => b.clone(),
                None => rf::encode(version, &rf::Packet::Puback(rf::Ack { pid: 7, ..Default::default() }), &d),
            },
            Adv::ReasonCountMismatch => match pend.iter().find(|p| p.type_code == 9 || (p.type_code == 11 && v5)) {
                Some(p) if p.type_code == 9 => rf::encode(version, &rf::Packet::Suback(rf::Suback { pid: p.pid, reasons: vec![0; p.n + 1], ..Default::default() }), &d),
                Some(p) => rf::encode(version, &rf::Packet::Unsuback(rf::Unsuback { pid: p.pid, reasons: vec![0; p.n + 1], ..Default::default() }), &d),
                None => rf::encode(version, &rf::Packet::Suback(rf::Suback { pid: 50_001, reasons: vec![0, 0], ..Default::default() }), &d),
            },
            Adv::Auth => {
                if v5 {
                    rf::encode(version, &rf::Packet::Auth(rf::Auth { reason: 0x18, auth_method: Some("m".into()), ..Default::default() }), &d)
                } else {
                    vec![0xF0, 0x00]
                }
            }
            Adv::SecondConnack => rf::encode(version, &rf::Packet::Connack(rf::Connack::default()), &d),
            Adv::Garbage => {
                let mut g = Vec::new();
                let mut x = ix as u32 | 0x1_0000;
                for _ in 0..(3 + ix % 17) {
                    x = x.wrapping_mul(1664525).wrapping_add(1013904223);
                    g.push((x >> 16) as u8);
                }
                g
            }
            Adv::Truncated => {
                let full = rf::encode(version, &rf::Packet::Suback(rf::Suback { pid: 3, reasons: vec![0, 1, 2], ..Default::default() }), &d);
                // announce more than is ever delivered, then a second packet start
                let mut b = full[..full.len() - 1].to_vec();
                b.extend_from_slice(&[0xD0]);
                b
            }
            Adv::UnsolicitedPingresp => vec![0xD0, 0x00],
            Adv::PublishPidZero => {
                // hand-built: qos1 publish with packet id 0
                let mut b = vec![0x32];
                let mut body = vec![0x00, 0x01, b'x', 0x00, 0x00];
                if v5 {
                    body.push(0x00);
                }
                body.extend_from_slice(&[1, 2, 3, 4]);
                b.push(body.len() as u8);
                b.extend_from_slice(&body);
                b
            }
            Adv::BadAlias => {
                if v5 {
                    let a = match ix % 3 {
                        0 => 0u16,
                        1 => self.cfg.client_alias_max.unwrap_or(0).wrapping_add(1),
                        _ => 1 + ix % 5,
                    };
                    if self.conn.as_ref().map(|c| c.srv_alias.contains_key(&a)).unwrap_or(false) {
                        // this alias is bound on this connection: using it would be perfectly legal
                        self.tr.remapped += 1;
                        return;
                    }
                    // empty topic + alias (unknown / zero / out of range); hand-built because the reference encoder refuses alias 0
                    let mut body = vec![0x00, 0x00];
                    body.push(3);
                    body.push(0x23);
                    body.extend_from_slice(&a.to_be_bytes());
                    body.extend_from_slice(&[9, 9, 9, 9]);
                    let mut b = vec![0x30, body.len() as u8];
                    b.extend_from_slice(&body);
                    b
                } else {
                    vec![0x30, 0x02, 0x00, 0x00]
                }
            }
            Adv::PubcompBeforePubrel | Adv::PubcompGuess => match pend.iter().find(|p| p.type_code == 5) {
                Some(p) => rf::encode(version, &rf::Packet::Pubcomp(rf::Ack { pid: p.pid, ..Default::default() }), &d),
                None => {
                    // a PUBCOMP for some QoS2 publish in flight: premature only if its PUBREL has not been written yet
                    kind_override = Some(Adv::PubcompGuess);
                    let pid = self.tr.emitted.iter().rev().find_map(|e| match &e.pkt {
                        rf::Packet::Publish(p) if p.qos == 2 => p.pid,
                        _ => None,
                    }).unwrap_or(1);
                    rf::encode(version, &rf::Packet::Pubcomp(rf::Ack { pid, ..Default::default() }), &d)
                }
            },
            Adv::ServerDisconnectBeforeConnack => {
                if v5 {
                    rf::encode(version, &rf::Packet::Disconnect(rf::Disconnect { reason: 0x81, ..Default::default() }), &d)
                } else {
                    vec![0xE0, 0x00]
                }
            }
            Adv::ClientOnlyPacket => match ix % 4 {
                0 => vec![0xC0, 0x00],
                1 => rf::encode(version, &rf::Packet::Subscribe(rf::Subscribe { pid: 7, entries: vec![rf::SubEntry { filter: "a/b".into(), qos: 1, ..Default::default() }], ..Default::default() }), &d),
                2 => rf::encode(version, &rf::Packet::Unsubscribe(rf::Unsubscribe { pid: 7, filters: vec!["a/b".into()], ..Default::default() }), &d),
                _ => rf::encode(version, &rf::Packet::Connect(rf::Connect { client_id: "srv".into(), clean_start: true, ..Default::default() }), &d),
            },
            Adv::OversizedPacket => {
                let max = match self.cfg.client_max_packet {
                    Some(m) if m <= 100_000 => m,
                    _ => {
                        // no limit in force (or one too large to be worth exceeding): nothing to violate
                        self.tr.remapped += 1;
                        return;
                    }
                };
                let pkt = rf::Packet::Publish(rf::Publish { qos: 0, topic: "s/o".into(), payload: vec![7u8; max as usize + 8], ..Default::default() });
                rf::encode(version, &pkt, &d)
            }
        };
        self.tr.adversarial_used = true;
        let kind = kind_override.unwrap_or(kind);
        let id = self.conn.as_ref().map(|c| c.id).unwrap_or(0);
        self.tr.evs.push(Ev::SrvSend { conn: id, t: self.now, desc: SrvDesc::Adversarial(kind), compliant: false });
        self.deliver(&bytes);
        // byte-level junk may leave the decoder in the middle of a packet: the byte stream of this connection is
        // no longer meaningful, so the peer drops the connection right after it
        if matches!(kind, Adv::Garbage | Adv::Truncated | Adv::DuplicateAck) && !self.tr.dead && self.conn.is_some() {
            self.do_close();
        }
    }

    // --------------------------------------------------------------------------------------------
    // time
    // --------------------------------------------------------------------------------------------

    pub fn advance(&mut self, kind: AdvKind) {
        if self.tr.dead {
            return;
        }
        match kind {
            AdvKind::Ms(d) => self.now += d as u64,
            AdvKind::ToNextService => {
                if let Some(t) = self.next_service() {
                    if t > self.now {
                        self.now = t;
                    }
                }
            }
            AdvKind::BeforeNextService => {
                if let Some(t) = self.next_service() {
                    if t > self.now + 1 {
                        self.now = t - 1;
                    }
                }
            }
            AdvKind::PastNextService(d) => {
                if let Some(t) = self.next_service() {
                    self.now = self.now.max(t) + d as u64;
                } else {
                    self.now += d as u64;
                }
            }
        }
    }

    // --------------------------------------------------------------------------------------------
    // faithful automatic driver
    // --------------------------------------------------------------------------------------------

    /// one round of the faithful driver against a responsive, compliant broker; returns false when nothing could be done
    pub fn auto_round(&mut self, reconnect: bool) -> bool {
        if self.tr.dead || self.finished {
            return false;
        }
        let mut progress = false;
        if self.conn.as_ref().map(|c| c.errored || c.client_disconnected).unwrap_or(false) {
            self.do_close();
            progress = true;
        }
        if self.conn.is_none() {
            if !reconnect {
                return progress;
            }
            self.do_open(30_000);
            progress = true;
        }
        // service while due (bounded)
        let mut n = 0;
        while n < 64 && !self.tr.dead && self.conn.as_ref().map(|c| !c.errored).unwrap_or(false) && self.service_due() {
            let before = self.tr.emitted.len();
            let out_before = self.conn.as_ref().map(|c| c.out.len()).unwrap_or(0);
            self.do_service(false);
            n += 1;
            progress = true;
            let out_after = self.conn.as_ref().map(|c| c.out.len()).unwrap_or(0);
            if out_after > out_before || self.tr.emitted.len() > before {
                break;
            }
        }
        if self.tr.dead {
            return false;
        }
        // transport
        if self.conn.as_ref().map(|c| c.out.len() > c.written && !c.errored).unwrap_or(false) {
            self.do_flush_all();
            progress = true;
        }
        if self.tr.dead {
            return false;
        }
        // a packet much larger than the buffer: keep the service/flush cycle going within this round
        if self.in_drain {
            let mut cycles = 0;
            while cycles < 50_000 && !self.tr.dead && self.conn.as_ref().map(|c| !c.errored).unwrap_or(false) {
                let half_encoded = match guarded(|| self.eng.snapshot()) {
                    Ok(s) => s.current_operation.is_some(),
                    Err(_) => false,
                };
                if !half_encoded || !self.service_due() {
                    break;
                }
                let before = self.conn.as_ref().map(|c| c.emitted.len()).unwrap_or(0);
                self.do_service(false);
                let after = self.conn.as_ref().map(|c| c.emitted.len()).unwrap_or(0);
                if self.conn.as_ref().map(|c| c.out.len() > c.written && !c.errored).unwrap_or(false) {
                    self.do_flush_all();
                }
                if after == before {
                    break;
                }
                cycles += 1;
            }
            if self.tr.dead {
                return false;
            }
        }
        // broker
        if self.conn.as_ref().map(|c| !c.pending.is_empty() && !c.errored).unwrap_or(false) {
            let sent_before = self.tr.evs.len();
            self.respond_all();
            if self.tr.evs.len() > sent_before {
                progress = true;
            }
        }
        progress
    }

    pub fn unresolved(&self) -> usize {
        self.tags.values().filter(|t| !t.resolved).count()
    }

    pub fn auto(&mut self, steps: u32, reconnect: bool) {
        for _ in 0..steps {
            if !self.auto_round(reconnect) {
                break;
            }
        }
    }

    /// final drain: reconnect with the responsive broker until everything is resolved or the step bound is hit
    pub fn drain(&mut self, max_steps: u32) {
        if self.tr.dead || self.finished {
            return;
        }
        self.in_drain = true;
        self.chunk = 4096;
        self.tr.evs.push(Ev::DrainStart { t: self.now });
        let mut steps = 0u32;
        let mut idle_rounds = 0;
        while steps < max_steps && !self.tr.dead {
            steps += 1;
            let progressed = self.auto_round(true);
            if self.tr.dead {
                break;
            }
            if self.unresolved() == 0 && self.conn.as_ref().map(|c| c.out.len() == c.written && c.pending.is_empty()).unwrap_or(true) {
                // let the engine finish pending internal work (acks) once more
                if !progressed {
                    break;
                }
            }
            if !progressed {
                idle_rounds += 1;
                // nothing to do right now: follow the reported service time, if any, but never beyond a horizon
                match self.next_service() {
                    Some(t) if t > self.now && t - self.now <= 3_600_000 && idle_rounds < 50 => {
                        // do not idle into keep-alive pings forever when everything is resolved
                        if self.unresolved() == 0 {
                            break;
                        }
                        self.now = t;
                    }
                    _ => break,
                }
            } else {
                idle_rounds = 0;
            }
        }
        let quiescent = self.unresolved() == 0;
        self.tr.evs.push(Ev::DrainEnd { t: self.now, quiescent, steps });
        if !self.tr.dead {
            self.final_snapshot(false);
        }
    }

    fn final_snapshot(&mut self, after_reset: bool) {
        let snap = match guarded(|| self.eng.snapshot()) {
            Ok(s) => s,
            Err(_) => return,
        };
        let user_tracked = snap.operations.iter().filter(|id| self.tag_of_token.contains_key(id)).count();
        let tracked = if after_reset { snap.operations.len() } else { user_tracked };
        let queues = if after_reset {
            snap.user_operation_queue.len() + snap.resubmit_operation_queue.len() + snap.high_priority_operation_queue.len() + snap.pending_publish_operations.len() + snap.pending_non_publish_operations.len() + snap.pending_write_completion_operations.len() + snap.current_operation.iter().count()
        } else {
            snap.user_operation_queue.len() + snap.resubmit_operation_queue.len() + snap.pending_publish_operations.len() + snap.pending_non_publish_operations.len()
        };
        self.tr.evs.push(Ev::FinalSnapshot {
            after_reset,
            tracked,
            allocated_ids: snap.allocated_packet_ids.len(),
            queues,
            timeouts: snap.operation_ack_timeouts,
            unresolved_tags: self.unresolved(),
        });
    }

    // --------------------------------------------------------------------------------------------
    // state-directed macro operations
    // --------------------------------------------------------------------------------------------

    fn user_token(&self, id: u64) -> Option<(u32, Kind)> {
        self.tag_of_token.get(&id).and_then(|t| self.tags.get(t).map(|i| (*t, i.kind)))
    }

    pub fn position_reached(&mut self, pos: Pos) -> bool {
        let snap = match guarded(|| self.eng.snapshot()) {
            Ok(s) => s,
            Err(_) => return false,
        };
        let st = self.state();
        let pending_out = self.conn.as_ref().map(|c| c.out.len() > c.written).unwrap_or(false);
        let emitted_any = self.conn.as_ref().map(|c| !c.emitted.is_empty()).unwrap_or(false);
        let in_pending_pub = |id: u64| snap.pending_publish_operations.iter().any(|(_, o)| *o == id);
        match pos {
            Pos::UserOpQueued => st == EState::Connected && !snap.user_operation_queue.is_empty(),
            Pos::UserOpHalfEncoded => match snap.current_operation {
                Some(id) => self.user_token(id).is_some() && !in_pending_pub(id) && st == EState::Connected && emitted_any,
                None => false,
            },
            Pos::PublishUnflushed => {
                pending_out && snap.current_operation.is_none() && (snap.pending_publish_operations.iter().any(|(_, o)| self.user_token(*o).is_some()) || snap.pending_write_completion_operations.iter().any(|o| self.user_token(*o).is_some()))
            }
            Pos::AwaitingPuback => !pending_out && snap.pending_publish_operations.iter().any(|(_, o)| matches!(self.user_token(*o), Some((_, Kind::Pub1)))),
            Pos::AwaitingPubrec => {
                !pending_out
                    && snap.pending_publish_operations.iter().any(|(pid, o)| {
                        matches!(self.user_token(*o), Some((_, Kind::Pub2))) && !snap.high_priority_operation_queue.contains(o) && snap.current_operation != Some(*o) && self.conn.as_ref().map(|c| c.pending.iter().any(|p| p.type_code == 5 && p.pid == *pid)).unwrap_or(false)
                    })
            }
            Pos::PubrelQueued => snap.high_priority_operation_queue.iter().any(|o| matches!(self.user_token(*o), Some((_, Kind::Pub2)))),
            Pos::PubrelHalfEncoded => match snap.current_operation {
                Some(id) => matches!(self.user_token(id), Some((_, Kind::Pub2))) && in_pending_pub(id),
                None => false,
            },
            Pos::AwaitingPubcomp => {
                !pending_out
                    && snap.pending_publish_operations.iter().any(|(pid, o)| {
                        matches!(self.user_token(*o), Some((_, Kind::Pub2))) && self.conn.as_ref().map(|c| c.pending.iter().any(|p| p.type_code == 7 && p.pid == *pid)).unwrap_or(false)
                    })
            }
            Pos::SubAwaitingAck => !pending_out && snap.pending_non_publish_operations.iter().any(|(_, o)| self.user_token(*o).is_some()),
            Pos::ConnectQueued => st == EState::PendingConnack && !snap.high_priority_operation_queue.is_empty() && !emitted_any,
            Pos::ConnectHalfEncoded => st == EState::PendingConnack && snap.current_operation.is_some() && emitted_any,
            Pos::ConnectUnflushed => st == EState::PendingConnack && snap.current_operation.is_none() && snap.high_priority_operation_queue.is_empty() && pending_out,
        }
    }

    /// drives the engine with single micro steps until `pos` holds (bounded), then performs `then`
    pub fn steer(&mut self, pos: Pos, then: Then) {
        if self.tr.dead || self.finished {
            return;
        }
        let connect_pos = matches!(pos, Pos::ConnectQueued | Pos::ConnectHalfEncoded | Pos::ConnectUnflushed);
        let need_kind = match pos {
            Pos::AwaitingPuback => Some(1u8),
            Pos::AwaitingPubrec | Pos::PubrelQueued | Pos::PubrelHalfEncoded | Pos::AwaitingPubcomp => Some(2u8),
            Pos::SubAwaitingAck => Some(9u8),
            Pos::UserOpQueued | Pos::UserOpHalfEncoded | Pos::PublishUnflushed => Some(3u8),
            _ => None,
        };
        let mut reached = false;
        let mut submitted = false;
        for _ in 0..80 {
            if self.tr.dead {
                return;
            }
            if self.position_reached(pos) {
                reached = true;
                break;
            }
            if self.conn.as_ref().map(|c| c.errored).unwrap_or(false) {
                self.do_close();
                continue;
            }
            if self.conn.is_none() {
                if connect_pos {
                    self.do_open(30_000);
                    continue;
                }
                self.do_open(30_000);
                continue;
            }
            let st = self.state();
            if connect_pos {
                if st != EState::PendingConnack {
                    // need a fresh connection
                    self.do_close();
                    continue;
                }
                if self.service_due() {
                    self.do_service(false);
                    continue;
                }
                break;
            }
            if st == EState::PendingConnack {
                if self.service_due() {
                    self.do_service(false);
                } else if self.conn.as_ref().map(|c| c.out.len() > c.written).unwrap_or(false) {
                    self.do_flush_all();
                } else if self.conn.as_ref().map(|c| c.pending.iter().any(|p| p.type_code == 2)).unwrap_or(false) {
                    let k = self.implicit_connack_kind();
                    self.send_connack(k, false);
                } else {
                    break;
                }
                continue;
            }
            if st != EState::Connected {
                self.do_close();
                continue;
            }
            if !submitted {
                submitted = true;
                let timeout = if matches!(then, Then::FireAckTimeout) { Some(50) } else { None };
                match need_kind {
                    Some(1) => {
                        self.do_publish(1, 0, 20, false, timeout, None);
                    }
                    Some(2) => {
                        self.do_publish(2, 1, 20, false, timeout, None);
                    }
                    Some(9) => {
                        self.do_subscribe(2, timeout, false, false, false);
                    }
                    Some(_) => {
                        self.do_publish(1, 2, 40, false, timeout, None);
                        if matches!(pos, Pos::UserOpQueued) {
                            self.do_publish(1, 2, 40, false, None, None);
                        }
                    }
                    None => {}
                }
                continue;
            }
            if self.service_due() {
                self.do_service(false);
                continue;
            }
            if self.conn.as_ref().map(|c| c.out.len() > c.written).unwrap_or(false) {
                self.do_flush_all();
                continue;
            }
            // let the broker move a QoS2 handshake forward when the target lies behind it
            let want_rec = matches!(pos, Pos::PubrelQueued | Pos::PubrelHalfEncoded | Pos::AwaitingPubcomp);
            if want_rec && self.conn.as_ref().map(|c| c.pending.iter().any(|p| p.type_code == 5)).unwrap_or(false) {
                let idx = self.conn.as_ref().unwrap().pending.iter().position(|p| p.type_code == 5).unwrap();
                let p = self.conn.as_mut().unwrap().pending.remove(idx);
                self.send_response(&p, RespondHow::Normal);
                continue;
            }
            break;
        }
        if !reached {
            reached = !self.tr.dead && self.position_reached(pos);
        }
        if !reached || self.tr.dead {
            return;
        }
        self.tr.steer_hits.push((pos, then));
        self.label(&format!("steer:{:?}:{:?}", pos, then));
        match then {
            Then::Close => self.do_close(),
            Then::Respond => {
                self.respond(0, RespondHow::Normal);
            }
            Then::ForceConnack => {
                let compliant_possible = self.conn.as_ref().map(|c| c.pending.iter().any(|p| p.type_code == 2) && !c.connack_sent).unwrap_or(false);
                if compliant_possible || self.cfg.policy == BrokerPolicy::Adversarial {
                    self.send_connack(ConnackKind::Ok, true);
                }
            }
            Then::FireAckTimeout => {
                self.advance(AdvKind::Ms(50));
                if self.service_due() {
                    self.do_service(false);
                }
            }
            Then::Nothing => {}
        }
    }

    // --------------------------------------------------------------------------------------------
    // interpreter
    // --------------------------------------------------------------------------------------------

    pub fn apply(&mut self, op: &Op) {
        if self.tr.dead || self.finished {
            return;
        }
        match op {
            Op::Pub { qos, topic, size, retain, timeout_ms, alias } => {
                self.do_publish(*qos, *topic, *size as usize, *retain, *timeout_ms, *alias);
            }
            Op::Sub { n, timeout_ms, wild, shared, sub_id } => {
                self.do_subscribe(*n, *timeout_ms, *wild, *shared, *sub_id);
            }
            Op::Unsub { n, timeout_ms } => {
                self.do_unsubscribe(*n, *timeout_ms);
            }
            Op::UserDisconnect => self.do_user_disconnect(),
            Op::Open { deadline_ms } => self.do_open(*deadline_ms),
            Op::Close => self.do_close(),
            Op::Reset => self.do_reset(),
            Op::Service => {
                if self.conn.as_ref().map(|c| c.errored).unwrap_or(false) {
                    // not driver-producible; still exercised for the "halted engine stays quiet" clause
                    self.do_service(false);
                } else if self.service_due() {
                    self.do_service(false);
                } else {
                    self.tr.remapped += 1;
                }
            }
            Op::ServiceUnasked => {
                if self.cfg.allow_unasked_service {
                    self.do_service(true);
                } else if self.service_due() {
                    self.do_service(false);
                } else {
                    self.tr.remapped += 1;
                }
            }
            Op::Flush { part } => self.do_flush_part(*part),
            Op::Connack { kind } => self.send_connack(*kind, false),
            Op::Respond { ix, how } => {
                self.respond(*ix, *how);
            }
            Op::RespondAll => self.respond_all(),
            Op::SrvPublish { qos, pid, dup, topic, alias, skip_topic, size } => self.srv_publish(*qos, *pid, *dup, *topic, *alias, *skip_topic, *size),
            Op::SrvPubrel { pid } => self.srv_pubrel(*pid),
            Op::SrvDisconnect => self.srv_disconnect(),
            Op::Adversary { kind, ix } => self.adversary(*kind, *ix),
            Op::Advance { kind } => self.advance(*kind),
            Op::Auto { steps } => self.auto(*steps as u32, true),
            Op::Chunk { size } => self.chunk = (*size as usize).clamp(1, 4096),
            Op::Steer { pos, then } => self.steer(*pos, *then),
        }
    }

    pub fn run(case: &SimCase) -> Trace {
        let mut sim = Sim::new(&case.cfg);
        for op in &case.ops {
            sim.apply(op);
            if sim.tr.dead || sim.finished {
                break;
            }
        }
        if case.cfg.drain && !sim.finished && !sim.tr.dead {
            sim.drain(3_000);
        }
        if let Some(c) = &sim.conn {
            sim.tr.evs.push(Ev::StillOpen { conn: c.id, t: sim.now, delivered: c.delivered, emitted: c.emitted.len() });
        }
        sim.tr
    }
}

fn reason_string_of(s: Option<&str>) -> Option<String> {
    s.map(|x| x.to_string())
}

pub fn convert_outcome(o: gv::Outcome) -> Done {
    match o {
        gv::Outcome::Publish(Ok(PublishResponse::Qos0)) => Done::Qos0,
        gv::Outcome::Publish(Ok(PublishResponse::Qos1(p))) => Done::Puback { pid: gv::puback_packet_id(&p), reason: p.reason_code() as u8, nonce: reason_string_of(p.reason_string()) },
        gv::Outcome::Publish(Ok(PublishResponse::Qos2(Qos2Response::Pubrec(p)))) => Done::Pubrec { pid: gv::pubrec_packet_id(&p), reason: p.reason_code() as u8, nonce: reason_string_of(p.reason_string()) },
        gv::Outcome::Publish(Ok(PublishResponse::Qos2(Qos2Response::Pubcomp(p)))) => Done::Pubcomp { pid: gv::pubcomp_packet_id(&p), reason: p.reason_code() as u8, nonce: reason_string_of(p.reason_string()) },
        gv::Outcome::Publish(Err(e)) => Done::Err(ek(&e), format!("{}", e)),
        gv::Outcome::Subscribe(Ok(s)) => Done::Suback { pid: gv::suback_packet_id(&s), reasons: s.reason_codes().iter().map(|r| *r as u8).collect(), nonce: reason_string_of(s.reason_string()) },
        gv::Outcome::Subscribe(Err(e)) => Done::Err(ek(&e), format!("{}", e)),
        gv::Outcome::Unsubscribe(Ok(s)) => Done::Unsuback { pid: gv::unsuback_packet_id(&s), reasons: s.reason_codes().iter().map(|r| *r as u8).collect(), nonce: reason_string_of(s.reason_string()) },
        gv::Outcome::Unsubscribe(Err(e)) => Done::Err(ek(&e), format!("{}", e)),
    }
}
