//! Case model of the engine simulator: configuration, operation alphabet, trace.

use serde::{Deserialize, Serialize};

#[derive(Clone, Debug, Serialize, Deserialize, PartialEq, Eq)]
pub enum Resolver {
    Null,
    Manual,
    Lru(u16),
}

#[derive(Clone, Debug, Serialize, Deserialize, PartialEq, Eq)]
pub struct ConnackTemplate {
    pub receive_max: Option<u16>,
    pub max_qos: Option<u8>,
    pub retain_available: Option<bool>,
    pub max_packet: Option<u32>,
    pub alias_max: Option<u16>,
    pub server_keep_alive: Option<u16>,
    pub wildcard_available: Option<bool>,
    pub subid_available: Option<bool>,
    pub shared_available: Option<bool>,
    pub session_expiry: Option<u32>,
    pub assign_client_id: bool,
}

impl Default for ConnackTemplate {
    fn default() -> Self {
        ConnackTemplate {
            receive_max: None,
            max_qos: None,
            retain_available: None,
            max_packet: None,
            alias_max: None,
            server_keep_alive: None,
            wildcard_available: None,
            subid_available: None,
            shared_available: None,
            session_expiry: None,
            assign_client_id: true,
        }
    }
}

#[derive(Clone, Copy, Debug, Serialize, Deserialize, PartialEq, Eq)]
pub enum BrokerPolicy {
    /// never sends anything the protocol forbids, answers whatever it is asked to answer
    Compliant,
    /// may also send protocol violations
    Adversarial,
}

#[derive(Clone, Debug, Serialize, Deserialize, PartialEq, Eq)]
pub struct SimCfg {
    pub v5: bool,
    /// 0 PreserveAll, 1 PreserveAcknowledged, 2 PreserveQos1PlusPublishes, 3 PreserveNothing
    pub offline: u8,
    pub one_at_a_time: bool,
    pub retries: Option<u32>,
    /// 0 PostSuccess, 1 Always, 2 Never
    pub rejoin: u8,
    pub keep_alive: Option<u16>,
    pub ping_timeout_ms: u64,
    pub client_id: Option<String>,
    pub client_alias_max: Option<u16>,
    pub client_max_packet: Option<u32>,
    pub session_expiry: Option<u32>,
    pub resolver: Resolver,
    pub buf_cap: usize,
    pub connack: ConnackTemplate,
    pub policy: BrokerPolicy,
    /// allow service calls the engine did not ask for (outside C11's domain)
    pub allow_unasked_service: bool,
    /// run a final drain phase (reconnect with a responsive compliant broker until quiescent)
    pub drain: bool,
    /// packet id the allocator starts from (0 = untouched, i.e. 1): puts the 65535 -> 1 wrap-around inside short
    /// histories; every value is reachable by the real code after that many allocations (C06's `extra` run shows it)
    #[serde(default)]
    pub first_pid: u16,
    /// CONNACK template used on the 2nd, 4th, ... connection (None: `connack` always): a server may announce
    /// different limits on every connection (e.g. a lower Receive Maximum after a resumed reconnect)
    #[serde(default)]
    pub connack_alt: Option<ConnackTemplate>,
    /// n > 0: the broker has lost the session on every n-th connection (its CONNACK says "no session" although the
    /// client asked to resume) whenever the simulator answers the CONNECT on its own
    #[serde(default)]
    pub session_loss_every: u8,
}

impl Default for SimCfg {
    fn default() -> Self {
        SimCfg {
            v5: true,
            offline: 0,
            one_at_a_time: false,
            retries: None,
            rejoin: 0,
            keep_alive: None,
            ping_timeout_ms: 10_000,
            client_id: Some("c".to_string()),
            client_alias_max: None,
            client_max_packet: None,
            session_expiry: None,
            resolver: Resolver::Null,
            buf_cap: 4096,
            connack: ConnackTemplate::default(),
            policy: BrokerPolicy::Compliant,
            allow_unasked_service: false,
            drain: true,
            first_pid: 0,
            connack_alt: None,
            session_loss_every: 0,
        }
    }
}

#[derive(Clone, Copy, Debug, Serialize, Deserialize, PartialEq, Eq)]
pub enum ConnackKind {
    /// success; session present iff the CONNECT asked to resume and the broker still has the session
    Ok,
    /// success, but the broker has lost the session
    OkSessionLost,
    /// failing reason code (index into the spec table)
    Fail(u8),
}

#[derive(Clone, Copy, Debug, Serialize, Deserialize, PartialEq, Eq)]
pub enum RespondHow {
    Normal,
    /// failing reason code (>= 0x80) where the packet type has one
    FailReason,
    /// explicit reason code and property length even when they could be omitted
    ExplicitForm,
}

#[derive(Clone, Copy, Debug, Serialize, Deserialize, PartialEq, Eq)]
pub enum Adv {
    WrongTypeAck,
    UnknownIdAck,
    DuplicateAck,
    ReasonCountMismatch,
    Auth,
    SecondConnack,
    Garbage,
    Truncated,
    UnsolicitedPingresp,
    PublishPidZero,
    BadAlias,
    PubcompBeforePubrel,
    ServerDisconnectBeforeConnack,
    OversizedPacket,
    /// produced internally: a PUBCOMP that may or may not be premature
    PubcompGuess,
    /// a well-formed packet that only a client may send (CONNECT, SUBSCRIBE, UNSUBSCRIBE, PINGREQ)
    ClientOnlyPacket,
}

#[derive(Clone, Copy, Debug, Serialize, Deserialize, PartialEq, Eq)]
pub enum AdvKind {
    Ms(u32),
    /// jump exactly to the reported next service time (if later than now)
    ToNextService,
    /// jump to one millisecond before the reported next service time
    BeforeNextService,
    /// jump past the reported next service time by the given amount (late driver)
    PastNextService(u32),
}

/// Engine positions used by state-directed macro operations.
#[derive(Clone, Copy, Debug, Serialize, Deserialize, PartialEq, Eq, Hash, PartialOrd, Ord)]
pub enum Pos {
    UserOpQueued,
    UserOpHalfEncoded,
    PublishUnflushed,
    AwaitingPuback,
    AwaitingPubrec,
    PubrelQueued,
    PubrelHalfEncoded,
    AwaitingPubcomp,
    SubAwaitingAck,
    ConnectQueued,
    ConnectHalfEncoded,
    ConnectUnflushed,
}

#[derive(Clone, Copy, Debug, Serialize, Deserialize, PartialEq, Eq)]
pub enum Then {
    Close,
    /// the broker sends its next pending response
    Respond,
    /// the broker sends a (successful) CONNACK right now, whatever it has received so far
    ForceConnack,
    /// virtual time jumps to the earliest pending ack timeout and service is called
    FireAckTimeout,
    Nothing,
}

#[derive(Clone, Debug, Serialize, Deserialize, PartialEq, Eq)]
pub enum Op {
    Pub { qos: u8, topic: u8, size: u16, retain: bool, timeout_ms: Option<u32>, alias: Option<u16> },
    Sub { n: u8, timeout_ms: Option<u32>, wild: bool, shared: bool, sub_id: bool },
    Unsub { n: u8, timeout_ms: Option<u32> },
    UserDisconnect,
    Open { deadline_ms: u32 },
    Close,
    Reset,
    Service,
    ServiceUnasked,
    Flush { part: u16 },
    Connack { kind: ConnackKind },
    Respond { ix: u16, how: RespondHow },
    RespondAll,
    SrvPublish { qos: u8, pid: u8, dup: bool, topic: u8, alias: Option<u16>, skip_topic: bool, size: u8 },
    SrvPubrel { pid: u8 },
    SrvDisconnect,
    Adversary { kind: Adv, ix: u16 },
    Advance { kind: AdvKind },
    /// run the faithful automatic driver with a responsive compliant broker for at most `steps` steps
    Auto { steps: u8 },
    Chunk { size: u16 },
    Steer { pos: Pos, then: Then },
}

#[derive(Clone, Debug, Serialize, Deserialize, PartialEq, Eq)]
pub struct SimCase {
    pub cfg: SimCfg,
    pub ops: Vec<Op>,
}

// ------------------------------------------------------------------------------------------------
// trace
// ------------------------------------------------------------------------------------------------

#[derive(Clone, Copy, Debug, PartialEq, Eq, Hash, PartialOrd, Ord, Serialize)]
pub enum EK {
    Unimplemented,
    OperationChannelFailure,
    Encoding,
    Decoding,
    Protocol,
    InvalidInboundTopicAlias,
    InternalState,
    ConnectionClosed,
    OfflineQueuePolicyFailed,
    AckTimeout,
    ClientClosed,
    UserInitiatedDisconnect,
    ConnectionEstablishmentFailure,
    StdIo,
    Tls,
    Transport,
    PacketValidation,
    Other,
    MaxInterruptedRetriesExceeded,
}

#[derive(Clone, Copy, Debug, PartialEq, Eq, Hash, Serialize)]
pub enum Kind {
    Pub0,
    Pub1,
    Pub2,
    Sub,
    Unsub,
}

impl Kind {
    pub fn is_publish(&self) -> bool {
        matches!(self, Kind::Pub0 | Kind::Pub1 | Kind::Pub2)
    }
    pub fn needs_ack(&self) -> bool {
        !matches!(self, Kind::Pub0)
    }
}

#[derive(Clone, Debug, PartialEq, Eq)]
pub enum Done {
    Qos0,
    Puback { pid: u16, reason: u8, nonce: Option<String> },
    Pubrec { pid: u16, reason: u8, nonce: Option<String> },
    Pubcomp { pid: u16, reason: u8, nonce: Option<String> },
    Suback { pid: u16, reasons: Vec<u8>, nonce: Option<String> },
    Unsuback { pid: u16, reasons: Vec<u8>, nonce: Option<String> },
    Err(EK, String),
}

#[derive(Clone, Copy, Debug, PartialEq, Eq, Hash, Serialize)]
pub enum CallKind {
    Open,
    Close,
    Incoming,
    WriteComplete,
    Service,
    ServiceUnasked,
    Submit,
    SubmitDisconnect,
    Reset,
    NextService,
}

#[derive(Clone, Copy, Debug, PartialEq, Eq, Hash, Serialize)]
pub enum EState {
    Disconnected,
    PendingConnack,
    Connected,
    PendingDisconnect,
    Halted,
}

#[derive(Clone, Debug, PartialEq, Eq)]
pub enum Surf {
    Connack { success: bool, session_present: bool },
    Publish { qos: u8, pid: u16, topic: String, payload_tag: Option<u32>, dup: bool },
    Disconnect,
}

#[derive(Clone, Debug, PartialEq, Eq)]
pub enum SrvDesc {
    Connack { success: bool, session_present: bool, settings: Option<refmqtt::Connack> },
    Ack { type_code: u8, pid: u16, reason: u8, nonce: Option<String>, reasons: Vec<u8>, for_tag: Option<u32> },
    Publish { qos: u8, pid: u16, dup: bool, topic: String, alias: Option<u16>, payload_tag: u32, alias_bad: bool },
    Pubrel { pid: u16 },
    Pingresp,
    Disconnect,
    Adversarial(Adv),
}

#[derive(Clone, Debug)]
pub struct Emitted {
    pub conn: usize,
    pub pkt: refmqtt::Packet,
    pub tag: Option<u32>,
    pub start: usize,
    pub end: usize,
    /// virtual time of the service call that produced the last byte
    pub t: u64,
    pub call: usize,
    /// index of the service call that emitted the first byte
    pub first_call: usize,
    /// number of service calls that contributed bytes
    pub calls_spanned: u32,
    /// event index at which the transport had accepted the whole packet (None: never)
    pub delivered_at: Option<usize>,
    /// for packets that carry a packet identifier: does the engine hold that identifier reserved right after the
    /// service call that completed the packet? (None: no identifier / snapshot unavailable)
    pub id_reserved_after: Option<bool>,
}

#[derive(Clone, Debug)]
pub enum Ev {
    Submit { tag: u32, kind: Kind, t: u64, state: EState, conn: Option<usize>, timeout_ms: Option<u32>, topic: Option<String> },
    Done { tag: u32, t: u64, done: Done, call: usize },
    UnknownDone { token: u64, t: u64 },
    Open { conn: usize, t: u64, deadline: u64 },
    Close { conn: usize, t: u64, delivered: usize, emitted: usize },
    StillOpen { conn: usize, t: u64, delivered: usize, emitted: usize },
    Reset { t: u64 },
    Call { ix: usize, t: u64, kind: CallKind, result: Result<(), EK>, msg: String, before: EState, after: EState, post_error: bool, conn: Option<usize>, bytes_out: usize, cur_tag: Option<u32> },
    Panic { ix: usize, t: u64, kind: CallKind, msg: String, loc: String, post_error: bool, after_unasked: bool },
    Emit { ix: usize },
    BadWire { conn: usize, t: u64, detail: String, bytes: Vec<u8> },
    SrvSend { conn: usize, t: u64, desc: SrvDesc, compliant: bool },
    Surfaced { conn: usize, t: u64, what: Surf, call: usize },
    NextService { t: u64, answer: Option<u64>, state: EState },
    WriteCompleteOk { conn: usize, t: u64 },
    /// marks the start of the final drain phase
    DrainStart { t: u64 },
    DrainEnd { t: u64, quiescent: bool, steps: u32 },
    /// engine bookkeeping after quiescence / reset
    FinalSnapshot { after_reset: bool, tracked: usize, allocated_ids: usize, queues: usize, timeouts: usize, unresolved_tags: usize },
    SettingsSeen { conn: usize, settings: gneiss_mqtt::client::NegotiatedSettings },
}

#[derive(Clone, Debug, Default)]
pub struct Trace {
    pub evs: Vec<Ev>,
    pub emitted: Vec<Emitted>,
    pub labels: Vec<String>,
    pub remapped: u64,
    pub unasked_service_used: bool,
    pub adversarial_used: bool,
    pub dead: bool,
    pub steer_hits: Vec<(Pos, Then)>,
}
