//! Generic campaign runner: replays, directed cases, sharded proptest campaigns, known-finding
//! classification, evidence and replay files, exit codes.

use proptest::strategy::{BoxedStrategy, Strategy};
use proptest::test_runner::{Config, RngSeed, TestCaseError, TestError, TestRunner};
use serde::de::DeserializeOwned;
use serde::Serialize;
use serde_json::{json, Value};
use std::collections::{BTreeMap, BTreeSet};
use std::fmt::Debug;
use std::sync::atomic::{AtomicBool, Ordering};
use std::sync::Mutex;
use std::time::Instant;

#[derive(Clone, Copy, Debug, PartialEq, Eq)]
pub enum Tier {
    Quick,
    Thorough,
}

impl Tier {
    pub fn name(&self) -> &'static str {
        match self {
            Tier::Quick => "quick",
            Tier::Thorough => "thorough",
        }
    }
}

#[derive(Clone, Debug)]
pub struct Violation {
    /// stable identifier of the oracle rule that failed, e.g. "C01.exactly_once.unresolved"
    pub rule: String,
    /// semantic trigger description evaluated on the case (never a line number), used for known-finding matching
    pub signature: String,
    pub detail: String,
}

impl Violation {
    pub fn new(rule: &str, signature: impl Into<String>, detail: impl Into<String>) -> Violation {
        Violation { rule: rule.to_string(), signature: signature.into(), detail: detail.into() }
    }
}

#[derive(Default)]
pub struct CaseReport {
    pub violations: Vec<Violation>,
    pub labels: Vec<String>,
    pub nontrivial: bool,
    /// hash of the abstracted case (distinctness)
    pub digest: u64,
    /// number of triggers that were excluded by construction because of a known finding
    pub excluded_known: u64,
    /// compact human-readable rendering of the case for evidence samples
    pub sample: Option<Value>,
    /// free counters merged into the evidence
    pub counters: Vec<(String, u64)>,
    /// the harness itself could not evaluate the case (step bound etc.): reported as inconclusive, never as a violation
    pub inconclusive: bool,
}

pub trait Property: Sync {
    type Case: Debug + Clone + Serialize + DeserializeOwned + Send + 'static;

    fn id(&self) -> &'static str;
    fn strategy(&self, tier: Tier) -> BoxedStrategy<Self::Case>;
    fn check(&self, case: &Self::Case) -> CaseReport;
    fn cases_per_shard(&self, tier: Tier) -> u32;
    fn rule_text(&self) -> String;
    fn assumptions(&self) -> Vec<String> {
        Vec::new()
    }
    /// hand-written directed cases (regression corpus, known-finding demonstrations); name -> case
    fn directed(&self) -> Vec<(String, Self::Case)> {
        Vec::new()
    }
    /// extra work done once per run after the campaign (e.g. long wrap-around runs); may add violations
    fn extra(&self, _tier: Tier, _seed: u64) -> Vec<(String, CaseReport)> {
        Vec::new()
    }
    /// coverage-guided tier: decodes a libFuzzer input into a case of the same space the strategy generates
    /// (None: the input is too short / this property has no byte-driven generator)
    fn fuzz_case(&self, _data: &[u8]) -> Option<Self::Case> {
        None
    }
    /// extra starting inputs for the coverage-guided tier (beyond pseudo-random ones)
    fn fuzz_seed_corpus(&self, _seed: u64) -> Vec<Vec<u8>> {
        Vec::new()
    }
    /// longest input the coverage-guided tier may build
    fn fuzz_max_len(&self) -> usize {
        4096
    }
    fn technique(&self) -> &'static str {
        "property-based testing (proptest): generated cases against an explicit oracle"
    }
}

#[derive(Clone, Debug)]
pub struct KnownFinding {
    pub property: String,
    pub signature: String,
    pub status: String,
    pub commit: String,
    pub description: String,
}

pub fn load_known_findings(verif_root: &str) -> Vec<KnownFinding> {
    let path = format!("{}/known_findings.json", verif_root);
    let text = match std::fs::read_to_string(&path) {
        Ok(t) => t,
        Err(_) => return Vec::new(),
    };
    let v: Value = match serde_json::from_str(&text) {
        Ok(v) => v,
        Err(e) => {
            eprintln!("HARNESS-ERROR: cannot parse {}: {}", path, e);
            std::process::exit(2);
        }
    };
    let mut out = Vec::new();
    if let Some(arr) = v.as_array() {
        for e in arr {
            out.push(KnownFinding {
                property: e["property"].as_str().unwrap_or("").to_string(),
                signature: e["signature"].as_str().unwrap_or("").to_string(),
                status: e["status"].as_str().unwrap_or("").to_string(),
                commit: e["commit"].as_str().unwrap_or("").to_string(),
                description: e["description"].as_str().unwrap_or("").to_string(),
            });
        }
    }
    out
}

fn mix(mut h: u64, v: u64) -> u64 {
    h ^= v.wrapping_add(0x9E37_79B9_7F4A_7C15).wrapping_add(h << 6).wrapping_add(h >> 2);
    let mut z = h;
    z = (z ^ (z >> 30)).wrapping_mul(0xBF58_476D_1CE4_E5B9);
    z = (z ^ (z >> 27)).wrapping_mul(0x94D0_49BB_1331_11EB);
    z ^ (z >> 31)
}

pub fn hash_str(s: &str) -> u64 {
    let mut h = 0xcbf2_9ce4_8422_2325u64;
    for b in s.bytes() {
        h ^= b as u64;
        h = h.wrapping_mul(0x0000_0100_0000_01B3);
    }
    h
}

pub fn hash_bytes(data: &[u8]) -> u64 {
    let mut h = 0xcbf2_9ce4_8422_2325u64;
    for b in data {
        h ^= *b as u64;
        h = h.wrapping_mul(0x0000_0100_0000_01B3);
    }
    h
}

#[derive(Default)]
pub struct Stats {
    pub evaluations: u64,
    pub nontrivial: u64,
    pub distinct: BTreeSet<u64>,
    pub labels: BTreeMap<String, u64>,
    pub counters: BTreeMap<String, u64>,
    pub excluded_known: u64,
    pub known_hits: BTreeMap<String, u64>,
    pub inconclusive: u64,
    pub samples: Vec<Value>,
    pub nontrivial_samples: Vec<Value>,
}

impl Stats {
    pub fn absorb(&mut self, r: &CaseReport) {
        self.evaluations += 1;
        if r.nontrivial {
            self.nontrivial += 1;
            self.distinct.insert(r.digest);
            if self.nontrivial_samples.len() < 3 {
                if let Some(s) = &r.sample {
                    self.nontrivial_samples.push(s.clone());
                }
            }
        } else if self.samples.len() < 1 {
            if let Some(s) = &r.sample {
                self.samples.push(s.clone());
            }
        }
        for l in &r.labels {
            *self.labels.entry(l.clone()).or_insert(0) += 1;
        }
        for (k, v) in &r.counters {
            *self.counters.entry(k.clone()).or_insert(0) += *v;
        }
        self.excluded_known += r.excluded_known;
        if r.inconclusive {
            self.inconclusive += 1;
        }
    }

    pub fn merge(&mut self, o: Stats) {
        self.evaluations += o.evaluations;
        self.nontrivial += o.nontrivial;
        self.distinct.extend(o.distinct);
        for (k, v) in o.labels {
            *self.labels.entry(k).or_insert(0) += v;
        }
        for (k, v) in o.counters {
            *self.counters.entry(k).or_insert(0) += v;
        }
        self.excluded_known += o.excluded_known;
        for (k, v) in o.known_hits {
            *self.known_hits.entry(k).or_insert(0) += v;
        }
        self.inconclusive += o.inconclusive;
        for s in o.samples {
            if self.samples.len() < 2 {
                self.samples.push(s);
            }
        }
        for s in o.nontrivial_samples {
            if self.nontrivial_samples.len() < 4 {
                self.nontrivial_samples.push(s);
            }
        }
    }
}

pub struct RunOptions {
    pub tier: Tier,
    pub seed: u64,
    pub shards: usize,
    pub verif_root: String,
    pub replay: Option<String>,
    pub cases_override: Option<u32>,
    /// ignore known_findings.json (used when measuring sensitivity)
    pub strict: bool,
    /// instrumented libFuzzer binary (thorough tier); None: no coverage-guided campaign
    pub fuzz_bin: Option<String>,
    pub fuzz_secs: u64,
    /// the campaign driver (fuzzrun::run_campaign); None in binaries that have no coverage-guided tier
    pub fuzz_driver: Option<FuzzDriver>,
}

pub struct FuzzOutcome {
    /// replay files written by fuzz workers that reported a violation
    pub replays: Vec<String>,
    /// merged statistics for the evidence file
    pub summary: Value,
    /// timeouts / OOMs / crashes that are not verdicts
    pub harness_notes: Vec<String>,
}

/// (fuzz binary, verif root, property id, seed, seconds, workers, extra corpus, max input length, strict)
pub type FuzzDriver = fn(&str, &str, &str, u64, u64, usize, &[Vec<u8>], usize, bool) -> Result<FuzzOutcome, String>;

/// Splits violations into (unknown, known-entry-signatures)
pub fn classify(violations: &[Violation], known: &[KnownFinding]) -> (Vec<Violation>, Vec<String>) {
    let mut unknown = Vec::new();
    let mut hits = Vec::new();
    for v in violations {
        if let Some(k) = known.iter().find(|k| k.status == "known" && k.signature == v.signature) {
            hits.push(k.signature.clone());
        } else {
            unknown.push(v.clone());
        }
    }
    (unknown, hits)
}

pub fn write_replay<C: Serialize>(root: &str, id: &str, tier: Tier, seed: u64, case: &C, violations: &[Violation], note: &str) -> String {
    let case_json = serde_json::to_value(case).unwrap_or(Value::Null);
    let text = serde_json::to_string(&case_json).unwrap_or_default();
    let h = hash_str(&text);
    let dir = format!("{}/replays", root);
    let _ = std::fs::create_dir_all(&dir);
    let path = format!("{}/{}-{:016x}.json", dir, id, h);
    let doc = json!({
        "property": id,
        "tier": tier.name(),
        "seed": seed,
        "note": note,
        "violations": violations.iter().map(|v| json!({"rule": v.rule, "signature": v.signature, "detail": v.detail})).collect::<Vec<_>>(),
        "case": case_json,
    });
    let _ = std::fs::write(&path, serde_json::to_string_pretty(&doc).unwrap_or_default());
    path
}

fn safe_check<P: Property>(p: &P, case: &P::Case) -> Result<CaseReport, String> {
    match std::panic::catch_unwind(std::panic::AssertUnwindSafe(|| p.check(case))) {
        Ok(r) => Ok(r),
        Err(e) => {
            let msg = crate::panichook::payload_to_string(&e);
            Err(format!("harness panic while evaluating a case: {} @ {}", msg, crate::panichook::take_last_location()))
        }
    }
}

/// Reduces a failing case that did not come out of proptest (coverage-guided tier): delta debugging over every array
/// inside the case's JSON form (operation lists, fault lists, ...) - chunks, then single elements, are removed as
/// long as a violation of the same oracle rule remains. Bounded by `budget` evaluations.
pub fn reduce_case<P: Property>(p: &P, case: &P::Case, known: &[KnownFinding], rule: &str, budget: usize) -> P::Case {
    fn arrays(v: &Value, path: &mut Vec<String>, out: &mut Vec<Vec<String>>) {
        match v {
            Value::Array(a) => {
                if !a.is_empty() {
                    out.push(path.clone());
                }
                for (i, x) in a.iter().enumerate() {
                    path.push(i.to_string());
                    arrays(x, path, out);
                    path.pop();
                }
            }
            Value::Object(m) => {
                for (k, x) in m {
                    path.push(k.clone());
                    arrays(x, path, out);
                    path.pop();
                }
            }
            _ => {}
        }
    }
    fn at<'a>(v: &'a mut Value, path: &[String]) -> Option<&'a mut Value> {
        let mut cur = v;
        for k in path {
            cur = match cur {
                Value::Array(a) => a.get_mut(k.parse::<usize>().ok()?)?,
                Value::Object(m) => m.get_mut(k)?,
                _ => return None,
            };
        }
        Some(cur)
    }
    let still_fails = |v: &Value| -> bool {
        let c: P::Case = match serde_json::from_value(v.clone()) {
            Ok(c) => c,
            Err(_) => return false,
        };
        match safe_check(p, &c) {
            Ok(r) => classify(&r.violations, known).0.iter().any(|x| x.rule == rule),
            Err(_) => false,
        }
    };
    let mut best = match serde_json::to_value(case) {
        Ok(v) => v,
        Err(_) => return case.clone(),
    };
    let mut spent = 0usize;
    let mut progress = true;
    while progress && spent < budget {
        progress = false;
        let mut paths = Vec::new();
        arrays(&best, &mut Vec::new(), &mut paths);
        // longest arrays first (operation lists)
        paths.sort_by_key(|pth| std::cmp::Reverse(at(&mut best.clone(), pth).and_then(|v| v.as_array().map(|a| a.len())).unwrap_or(0)));
        for pth in paths {
            let len = match at(&mut best, &pth).and_then(|v| v.as_array().map(|a| a.len())) {
                Some(l) => l,
                None => continue,
            };
            let mut chunk = (len / 2).max(1);
            loop {
                let mut start = 0;
                loop {
                    let cur_len = at(&mut best, &pth).and_then(|v| v.as_array().map(|a| a.len())).unwrap_or(0);
                    if start >= cur_len || spent >= budget {
                        break;
                    }
                    let mut cand = best.clone();
                    if let Some(Value::Array(a)) = at(&mut cand, &pth) {
                        let end = (start + chunk).min(a.len());
                        a.drain(start..end);
                    }
                    spent += 1;
                    if still_fails(&cand) {
                        best = cand;
                        progress = true;
                    } else {
                        start += chunk;
                    }
                }
                if chunk == 1 || spent >= budget {
                    break;
                }
                chunk = (chunk / 2).max(1);
            }
        }
    }
    serde_json::from_value(best).unwrap_or_else(|_| case.clone())
}

/// Runs the whole check for one property; returns the process exit code.
pub fn run_property<P: Property>(p: &P, opts: &RunOptions) -> i32 {
    let started = Instant::now();
    let id = p.id();
    let all_known = if opts.strict { Vec::new() } else { load_known_findings(&opts.verif_root) };
    let known: Vec<KnownFinding> = all_known.iter().filter(|k| k.property == id).cloned().collect();

    let mut stats = Stats::default();
    let mut violation_lines: Vec<String> = Vec::new();
    let mut harness_errors: Vec<String> = Vec::new();

    // --- explicit replay of one file -----------------------------------------------------------
    if let Some(path) = &opts.replay {
        let text = match std::fs::read_to_string(path) {
            Ok(t) => t,
            Err(e) => {
                eprintln!("HARNESS-ERROR: cannot read replay {}: {}", path, e);
                return 2;
            }
        };
        let doc: Value = match serde_json::from_str(&text) {
            Ok(v) => v,
            Err(e) => {
                eprintln!("HARNESS-ERROR: cannot parse replay {}: {}", path, e);
                return 2;
            }
        };
        let case_v = if doc.get("case").is_some() { doc["case"].clone() } else { doc.clone() };
        let case: P::Case = match serde_json::from_value(case_v) {
            Ok(c) => c,
            Err(e) => {
                eprintln!("HARNESS-ERROR: replay {} does not hold a {} case: {}", path, id, e);
                return 2;
            }
        };
        return match safe_check(p, &case) {
            Err(e) => {
                eprintln!("HARNESS-ERROR: {}", e);
                2
            }
            Ok(r) => {
                for v in &r.violations {
                    println!("replay violation: rule={} signature={} detail={}", v.rule, v.signature, v.detail);
                }
                println!("labels: {:?}", r.labels);
                if let Some(s) = &r.sample {
                    println!("sample: {}", s);
                }
                if r.violations.is_empty() {
                    println!("replay: property held on this case");
                    0
                } else {
                    println!("VIOLATION property={} replay={}", id, path);
                    1
                }
            }
        };
    }

    // --- regression corpus: every saved replay of this property is re-run first --------------------
    let replay_dir = format!("{}/replays", opts.verif_root);
    let mut replay_files: Vec<String> = Vec::new();
    if let Ok(rd) = std::fs::read_dir(&replay_dir) {
        for e in rd.flatten() {
            let name = e.file_name().to_string_lossy().to_string();
            if name.starts_with(&format!("{}-", id)) && name.ends_with(".json") {
                replay_files.push(format!("{}/{}", replay_dir, name));
            }
        }
    }
    replay_files.sort();
    let mut replayed = 0u64;
    for path in &replay_files {
        let text = std::fs::read_to_string(path).unwrap_or_default();
        let doc: Value = match serde_json::from_str(&text) {
            Ok(v) => v,
            Err(_) => continue,
        };
        let case: P::Case = match serde_json::from_value(doc["case"].clone()) {
            Ok(c) => c,
            Err(e) => {
                eprintln!("note: skipping stale replay {} ({})", path, e);
                continue;
            }
        };
        replayed += 1;
        match safe_check(p, &case) {
            Err(e) => harness_errors.push(e),
            Ok(r) => {
                let (unknown, hits) = classify(&r.violations, &known);
                for h in hits {
                    *stats.known_hits.entry(h).or_insert(0) += 1;
                }
                stats.absorb(&r);
                if !unknown.is_empty() {
                    for v in &unknown {
                        println!("violation (regression corpus): rule={} signature={} detail={}", v.rule, v.signature, v.detail);
                    }
                    violation_lines.push(format!("VIOLATION property={} replay={}", id, path));
                }
            }
        }
    }

    // --- directed cases -----------------------------------------------------------------------------
    let directed = p.directed();
    let directed_count = directed.len() as u64;
    for (name, case) in &directed {
        match safe_check(p, case) {
            Err(e) => harness_errors.push(format!("directed case {}: {}", name, e)),
            Ok(r) => {
                let (unknown, hits) = classify(&r.violations, &known);
                for h in hits {
                    *stats.known_hits.entry(h).or_insert(0) += 1;
                }
                stats.absorb(&r);
                if !unknown.is_empty() {
                    for v in &unknown {
                        println!("violation (directed case {}): rule={} signature={} detail={}", name, v.rule, v.signature, v.detail);
                    }
                    let path = write_replay(&opts.verif_root, id, opts.tier, opts.seed, case, &unknown, &format!("directed case {}", name));
                    violation_lines.push(format!("VIOLATION property={} replay={}", id, path));
                }
            }
        }
    }

    // --- generated campaign ---------------------------------------------------------------------------
    let cases = opts.cases_override.unwrap_or_else(|| p.cases_per_shard(opts.tier));
    let stop = AtomicBool::new(false);
    let shard_results: Mutex<Vec<(Stats, Option<(P::Case, Vec<Violation>)>, Option<String>)>> = Mutex::new(Vec::new());

    std::thread::scope(|scope| {
        for shard in 0..opts.shards {
            let known = &known;
            let stop = &stop;
            let shard_results = &shard_results;
            let seed = mix(mix(opts.seed, hash_str(id)), shard as u64 + 1);
            let tier = opts.tier;
            std::thread::Builder::new()
                .stack_size(64 * 1024 * 1024)
                .spawn_scoped(scope, move || {
                    let stats = Mutex::new(Stats::default());
                    let failed = AtomicBool::new(false);
                    let harness_error: Mutex<Option<String>> = Mutex::new(None);
                    let last_failure: Mutex<Option<Vec<Violation>>> = Mutex::new(None);
                    let config = Config {
                        cases,
                        failure_persistence: None,
                        rng_seed: RngSeed::Fixed(seed),
                        max_shrink_iters: 4000,
                        max_shrink_time: 120_000,
                        max_global_rejects: 1_000_000,
                        ..Config::default()
                    };
                    let mut runner = TestRunner::new(config);
                    let strategy = p.strategy(tier);
                    let result = runner.run(&strategy, |case| {
                        if stop.load(Ordering::Relaxed) && !failed.load(Ordering::Relaxed) {
                            // another shard already found a violation: finish quickly
                            return Ok(());
                        }
                        let report = match safe_check(p, &case) {
                            Ok(r) => r,
                            Err(e) => {
                                let mut he = harness_error.lock().unwrap();
                                if he.is_none() {
                                    *he = Some(e);
                                }
                                return Ok(());
                            }
                        };
                        let (unknown, hits) = classify(&report.violations, known);
                        if !failed.load(Ordering::Relaxed) {
                            let mut s = stats.lock().unwrap();
                            s.absorb(&report);
                            for h in hits {
                                *s.known_hits.entry(h).or_insert(0) += 1;
                            }
                        }
                        if unknown.is_empty() {
                            Ok(())
                        } else {
                            failed.store(true, Ordering::Relaxed);
                            stop.store(true, Ordering::Relaxed);
                            let msg = unknown.iter().map(|v| format!("{} [{}]", v.rule, v.signature)).collect::<Vec<_>>().join("; ");
                            *last_failure.lock().unwrap() = Some(unknown);
                            Err(TestCaseError::fail(msg))
                        }
                    });
                    let failure = match result {
                        Ok(()) => None,
                        Err(TestError::Fail(_, case)) => {
                            // re-evaluate the shrunk case to obtain its violations
                            let vs = match safe_check(p, &case) {
                                Ok(r) => classify(&r.violations, known).0,
                                Err(_) => Vec::new(),
                            };
                            let vs = if vs.is_empty() { last_failure.lock().unwrap().clone().unwrap_or_default() } else { vs };
                            Some((case, vs))
                        }
                        Err(TestError::Abort(reason)) => {
                            let mut he = harness_error.lock().unwrap();
                            if he.is_none() {
                                *he = Some(format!("proptest aborted: {}", reason));
                            }
                            None
                        }
                    };
                    let he = harness_error.lock().unwrap().clone();
                    shard_results.lock().unwrap().push((stats.into_inner().unwrap(), failure, he));
                })
                .expect("spawn shard");
        }
    });

    let mut shrunk_failures: Vec<(P::Case, Vec<Violation>)> = Vec::new();
    for (s, f, he) in shard_results.into_inner().unwrap() {
        stats.merge(s);
        if let Some(f) = f {
            shrunk_failures.push(f);
        }
        if let Some(e) = he {
            harness_errors.push(e);
        }
    }

    // keep one replay per distinct signature set
    let mut seen_sigs: BTreeSet<String> = BTreeSet::new();
    for (case, vs) in &shrunk_failures {
        let key = vs.iter().map(|v| v.signature.clone()).collect::<Vec<_>>().join("|");
        if !seen_sigs.insert(key) {
            continue;
        }
        for v in vs {
            println!("violation: rule={} signature={} detail={}", v.rule, v.signature, v.detail);
        }
        let path = write_replay(&opts.verif_root, id, opts.tier, opts.seed, case, vs, "shrunk by proptest");
        violation_lines.push(format!("VIOLATION property={} replay={}", id, path));
    }

    // --- extra, property-specific work -------------------------------------------------------------------
    if violation_lines.is_empty() {
        for (name, r) in p.extra(opts.tier, opts.seed) {
            let (unknown, hits) = classify(&r.violations, &known);
            for h in hits {
                *stats.known_hits.entry(h).or_insert(0) += 1;
            }
            stats.absorb(&r);
            if !unknown.is_empty() {
                for v in &unknown {
                    println!("violation (extra {}): rule={} signature={} detail={}", name, v.rule, v.signature, v.detail);
                }
                let path = format!("{}/replays/{}-extra-{}.txt", opts.verif_root, id, name);
                let _ = std::fs::create_dir_all(format!("{}/replays", opts.verif_root));
                let _ = std::fs::write(&path, unknown.iter().map(|v| format!("{} {} {}\n", v.rule, v.signature, v.detail)).collect::<String>());
                violation_lines.push(format!("VIOLATION property={} replay={}", id, path));
            }
        }
    }

    // --- coverage-guided campaign (thorough tier) ---------------------------------------------------------------
    let mut fuzz_summary = Value::Null;
    if violation_lines.is_empty() && opts.tier == Tier::Thorough && opts.fuzz_secs > 0 {
        if let (Some(bin), Some(driver)) = (&opts.fuzz_bin, opts.fuzz_driver) {
            if p.fuzz_case(&[0u8; 64]).is_some() {
                let seeds = p.fuzz_seed_corpus(opts.seed);
                match driver(bin, &opts.verif_root, id, opts.seed, opts.fuzz_secs, opts.shards, &seeds, p.fuzz_max_len(), opts.strict) {
                    Err(e) => harness_errors.push(format!("coverage-guided campaign: {}", e)),
                    Ok(out) => {
                        fuzz_summary = out.summary;
                        for n in out.harness_notes.iter().take(5) {
                            eprintln!("note (coverage-guided campaign): {}", n);
                        }
                        // every case a fuzz worker reported is judged again by this (non-instrumented) build
                        for path in &out.replays {
                            let case: Option<P::Case> = std::fs::read_to_string(path).ok().and_then(|t| serde_json::from_str::<Value>(&t).ok()).and_then(|d| serde_json::from_value(d["case"].clone()).ok());
                            match case {
                                None => harness_errors.push(format!("coverage-guided campaign: cannot read back {}", path)),
                                Some(case) => match safe_check(p, &case) {
                                    Err(e) => harness_errors.push(e),
                                    Ok(r) => {
                                        let (unknown, _) = classify(&r.violations, &known);
                                        if unknown.is_empty() {
                                            harness_errors.push(format!("coverage-guided campaign: the violation saved in {} does not reproduce in the non-instrumented build", path));
                                        } else {
                                            // reduce the history (delta debugging) and keep the reduced case as the replay file
                                            let reduced = reduce_case(p, &case, &known, &unknown[0].rule, 1500);
                                            let vs = match safe_check(p, &reduced) {
                                                Ok(r2) => classify(&r2.violations, &known).0,
                                                Err(_) => Vec::new(),
                                            };
                                            let (final_path, vs) = if vs.is_empty() { (path.clone(), unknown) } else { (write_replay(&opts.verif_root, id, opts.tier, opts.seed, &reduced, &vs, "found by libFuzzer (coverage-guided tier), reduced by delta debugging over the case's lists"), vs) };
                                            for v in &vs {
                                                println!("violation (coverage-guided): rule={} signature={} detail={}", v.rule, v.signature, v.detail);
                                            }
                                            violation_lines.push(format!("VIOLATION property={} replay={}", id, final_path));
                                        }
                                    }
                                },
                            }
                        }
                    }
                }
            }
        }
    }

    // --- report -----------------------------------------------------------------------------------------------
    let wall = started.elapsed().as_secs_f64();
    let mut samples: Vec<Value> = Vec::new();
    samples.extend(stats.nontrivial_samples.iter().cloned());
    samples.extend(stats.samples.iter().cloned());
    if samples.is_empty() {
        samples.push(json!("no sample rendered"));
    }

    for k in &known {
        if k.status == "known" {
            let hits = stats.known_hits.get(&k.signature).copied().unwrap_or(0);
            println!("KNOWN-FINDING: property={} {} [signature={} observed={}x this run]", id, k.description, k.signature, hits);
        }
    }

    let evidence = json!({
        "property_id": id,
        "tier": opts.tier.name(),
        "seed": opts.seed,
        "level": "exploration",
        "coverage": {
            "evaluations": stats.evaluations,
            "distinct_nontrivial": stats.distinct.len(),
            "nontrivial_total": stats.nontrivial,
            "rule": p.rule_text(),
            "samples": samples,
            "labels": stats.labels,
            "counters": stats.counters,
            "excluded_known_finding_triggers": stats.excluded_known,
            "known_finding_hits": stats.known_hits,
            "inconclusive_cases": stats.inconclusive,
            "replayed_regression_cases": replayed,
            "directed_cases": directed_count,
            "shards": opts.shards,
            "cases_per_shard": cases,
            "technique": p.technique(),
            "coverage_guided": fuzz_summary,
        },
        "assumptions": p.assumptions(),
        "wall_s": wall,
        "violations": violation_lines.len(),
    });
    let ev_dir = format!("{}/evidence", opts.verif_root);
    let _ = std::fs::create_dir_all(&ev_dir);
    let ev_path = format!("{}/{}.json", ev_dir, id);
    if let Err(e) = std::fs::write(&ev_path, serde_json::to_string_pretty(&evidence).unwrap_or_default()) {
        eprintln!("HARNESS-ERROR: cannot write {}: {}", ev_path, e);
        return 2;
    }

    println!(
        "{} {}: evaluations={} nontrivial={} distinct_nontrivial={} inconclusive={} known_hits={:?} wall={:.1}s",
        id,
        opts.tier.name(),
        stats.evaluations,
        stats.nontrivial,
        stats.distinct.len(),
        stats.inconclusive,
        stats.known_hits,
        wall
    );
    let mut top: Vec<(&String, &u64)> = stats.labels.iter().collect();
    top.sort_by(|a, b| b.1.cmp(a.1));
    println!("labels: {}", top.iter().map(|(k, v)| format!("{}={}", k, v)).collect::<Vec<_>>().join(" "));

    if !violation_lines.is_empty() {
        for l in &violation_lines {
            println!("{}", l);
        }
        return 1;
    }
    if !harness_errors.is_empty() {
        for e in harness_errors.iter().take(5) {
            eprintln!("HARNESS-ERROR: {}", e);
        }
        return 2;
    }
    if stats.distinct.len() < 2 {
        eprintln!("HARNESS-ERROR: fewer than two distinct non-trivial cases were generated; the generator needs fixing");
        return 2;
    }
    0
}

pub fn boxed<S: Strategy + 'static>(s: S) -> BoxedStrategy<S::Value> {
    s.boxed()
}
