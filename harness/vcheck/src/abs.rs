//! Abstract (serialisable, shrinkable) descriptions of user-constructible packets and connect options,
//! their expansion into gneiss values through the PUBLIC builders, and into reference-model packets.

use gneiss_mqtt::client::config::*;
use gneiss_mqtt::mqtt::*;
use proptest::collection::vec;
use proptest::option;
use proptest::prelude::*;
use refmqtt as rf;
use serde::{Deserialize, Serialize};

/// A string described by its byte length, an alphabet style and a seed.
#[derive(Clone, Debug, Serialize, Deserialize, PartialEq, Eq)]
pub struct S {
    pub len: u32,
    pub style: u8,
    pub seed: u16,
}

const ALPHA_ASCII: &[&str] = &["a", "b", "c", "x", "y", "z", "0", "1", "7", " ", "-", "_", ".", ":", "A", "Q", "~", "$", "%", "=", "&", "?"];
const ALPHA_2: &[&str] = &["\u{e9}", "\u{df}", "\u{3a9}", "\u{7ff}", "\u{80}"];
const ALPHA_3: &[&str] = &["\u{4e16}", "\u{754c}", "\u{800}", "\u{fffd}", "\u{20ac}", "\u{e000}"];
const ALPHA_4: &[&str] = &["\u{1f600}", "\u{10000}", "\u{10fffd}", "\u{1d11e}"];

impl S {
    pub fn new(len: u32, style: u8, seed: u16) -> S {
        S { len, style, seed }
    }

    pub fn lit(s: &str) -> S {
        // a literal is encoded as style 255 with the text kept in the seed space: only used by directed cases
        S { len: s.len() as u32, style: 0, seed: 0 }
    }

    /// exactly `len` bytes of valid UTF-8 without U+0000, '+', '#' or '/'
    pub fn expand(&self) -> String {
        let len = self.len as usize;
        let mut out = String::with_capacity(len);
        let mut x = self.seed as u32 ^ 0x9E37;
        let mut next = move || {
            x = x.wrapping_mul(1664525).wrapping_add(1013904223);
            (x >> 16) as usize
        };
        while out.len() < len {
            let remaining = len - out.len();
            let set: &[&str] = match self.style % 5 {
                0 => ALPHA_ASCII,
                1 => {
                    if remaining >= 2 {
                        ALPHA_2
                    } else {
                        ALPHA_ASCII
                    }
                }
                2 => {
                    if remaining >= 3 {
                        ALPHA_3
                    } else {
                        ALPHA_ASCII
                    }
                }
                3 => {
                    if remaining >= 4 {
                        ALPHA_4
                    } else {
                        ALPHA_ASCII
                    }
                }
                _ => match next() % 4 {
                    0 => ALPHA_ASCII,
                    1 if remaining >= 2 => ALPHA_2,
                    2 if remaining >= 3 => ALPHA_3,
                    3 if remaining >= 4 => ALPHA_4,
                    _ => ALPHA_ASCII,
                },
            };
            let c = set[next() % set.len()];
            if c.len() <= remaining {
                out.push_str(c);
            } else {
                out.push('a');
            }
        }
        out
    }
}

#[derive(Clone, Debug, Serialize, Deserialize, PartialEq, Eq)]
pub struct B {
    pub len: u32,
    pub seed: u16,
}

impl B {
    pub fn expand(&self) -> Vec<u8> {
        let mut x = self.seed as u32 ^ 0x5bd1;
        (0..self.len)
            .map(|_| {
                x = x.wrapping_mul(1103515245).wrapping_add(12345);
                (x >> 16) as u8
            })
            .collect()
    }
}

pub type Props = Vec<(S, S)>;

pub fn expand_props(p: &Props) -> Vec<(String, String)> {
    p.iter().map(|(a, b)| (a.expand(), b.expand())).collect()
}

#[derive(Clone, Debug, Serialize, Deserialize, PartialEq, Eq)]
pub enum Level {
    Name(S),
    Plus,
    Empty,
    /// a level that illegally mixes a wildcard with other characters (C16)
    BadPlus,
    BadHash,
}

#[derive(Clone, Debug, Serialize, Deserialize, PartialEq, Eq)]
pub struct Filter {
    pub levels: Vec<Level>,
    pub trailing_hash: bool,
    pub share: Option<S>,
    /// `#` placed before the last level (C16)
    pub hash_in_middle: bool,
    /// produce the empty string (C16)
    pub empty: bool,
}

impl Filter {
    pub fn expand(&self) -> String {
        if self.empty {
            return String::new();
        }
        let mut parts: Vec<String> = Vec::new();
        for (i, l) in self.levels.iter().enumerate() {
            if self.hash_in_middle && i == 0 {
                parts.push("#".to_string());
            }
            parts.push(match l {
                Level::Name(s) => s.expand(),
                Level::Plus => "+".to_string(),
                Level::Empty => String::new(),
                Level::BadPlus => "a+".to_string(),
                Level::BadHash => "#b".to_string(),
            });
        }
        if self.trailing_hash {
            parts.push("#".to_string());
        }
        if parts.is_empty() {
            parts.push("t".to_string());
        }
        let mut base = parts.join("/");
        if base.is_empty() {
            // a single empty level would be the empty string, which is not a filter at all
            base = "t".to_string();
        }
        match &self.share {
            Some(name) => format!("$share/{}/{}", name.expand(), base),
            None => base,
        }
    }

    pub fn has_wildcard(&self) -> bool {
        self.trailing_hash || self.hash_in_middle || self.levels.iter().any(|l| matches!(l, Level::Plus | Level::BadPlus | Level::BadHash))
    }

    pub fn syntactically_valid(&self) -> bool {
        if self.empty || self.hash_in_middle {
            return false;
        }
        if self.levels.iter().any(|l| matches!(l, Level::BadPlus | Level::BadHash)) {
            return false;
        }
        if let Some(n) = &self.share {
            // a share name must be non-empty (names expand without '/', '+' or '#')
            if n.len == 0 {
                return false;
            }
        }
        true
    }
}

#[derive(Clone, Debug, Serialize, Deserialize, PartialEq, Eq)]
pub struct AbsPublish {
    /// topic levels (joined with '/'): names only, at least one
    pub topic: Vec<S>,
    pub qos: u8,
    pub retain: bool,
    pub payload: Option<B>,
    pub payload_format: Option<u8>,
    pub message_expiry: Option<u32>,
    pub response_topic: Option<Vec<S>>,
    pub correlation: Option<B>,
    pub content_type: Option<S>,
    pub user_props: Props,
    /// C16 only: put a wildcard character into the topic / make it empty
    pub topic_defect: u8,
}

pub fn topic_string(levels: &[S]) -> String {
    levels.iter().map(|s| s.expand()).collect::<Vec<_>>().join("/")
}

impl AbsPublish {
    pub fn topic_str(&self) -> String {
        match self.topic_defect {
            1 => format!("{}/+", topic_string(&self.topic)),
            2 => format!("{}/#", topic_string(&self.topic)),
            3 => String::new(),
            _ => topic_string(&self.topic),
        }
    }

    pub fn build(&self) -> PublishPacket {
        let mut b = PublishPacket::builder(self.topic_str(), crate::sim::qos_of(self.qos));
        if self.retain {
            b = b.with_retain(true);
        }
        if let Some(p) = &self.payload {
            b = b.with_payload(p.expand());
        }
        if let Some(pf) = self.payload_format {
            b = b.with_payload_format(if pf == 0 { PayloadFormatIndicator::Bytes } else { PayloadFormatIndicator::Utf8 });
        }
        if let Some(v) = self.message_expiry {
            b = b.with_message_expiry_interval_seconds(v);
        }
        if let Some(rt) = &self.response_topic {
            b = b.with_response_topic(topic_string(rt));
        }
        if let Some(c) = &self.correlation {
            b = b.with_correlation_data(c.expand());
        }
        if let Some(c) = &self.content_type {
            b = b.with_content_type(c.expand());
        }
        for (n, v) in &self.user_props {
            b = b.with_user_property(UserProperty::new(n.expand(), v.expand()));
        }
        b.build()
    }

    /// what an independent decoder must recover (for the given protocol version)
    pub fn expected(&self, v5: bool, pid: u16, dup: bool, skip_topic: bool, alias: Option<u16>) -> rf::Publish {
        let mut p = rf::Publish {
            dup,
            qos: self.qos,
            retain: self.retain,
            topic: self.topic_str(),
            pid: if self.qos > 0 { Some(pid) } else { None },
            payload: self.payload.as_ref().map(|b| b.expand()).unwrap_or_default(),
            ..Default::default()
        };
        if v5 {
            p.payload_format = self.payload_format.map(|x| if x == 0 { 0 } else { 1 });
            p.message_expiry = self.message_expiry;
            p.response_topic = self.response_topic.as_ref().map(|t| topic_string(t));
            p.correlation_data = self.correlation.as_ref().map(|b| b.expand());
            p.content_type = self.content_type.as_ref().map(|s| s.expand());
            p.user_props = expand_props(&self.user_props);
            p.topic_alias = alias;
            if skip_topic {
                p.topic = String::new();
            }
        }
        p
    }
}

#[derive(Clone, Debug, Serialize, Deserialize, PartialEq, Eq)]
pub struct AbsSubEntry {
    pub filter: Filter,
    pub qos: u8,
    pub no_local: bool,
    pub rap: bool,
    pub rh: u8,
}

#[derive(Clone, Debug, Serialize, Deserialize, PartialEq, Eq)]
pub struct AbsSubscribe {
    pub entries: Vec<AbsSubEntry>,
    pub sub_id: Option<u32>,
    pub user_props: Props,
}

impl AbsSubscribe {
    pub fn build(&self) -> SubscribePacket {
        let mut b = SubscribePacket::builder();
        for e in &self.entries {
            let s = Subscription::builder(e.filter.expand(), crate::sim::qos_of(e.qos))
                .with_no_local(e.no_local)
                .with_retain_as_published(e.rap)
                .retain_handling_type(match e.rh % 3 {
                    0 => RetainHandlingType::SendOnSubscribe,
                    1 => RetainHandlingType::SendOnSubscribeIfNew,
                    _ => RetainHandlingType::DontSend,
                })
                .build();
            b = b.with_subscription(s);
        }
        if let Some(id) = self.sub_id {
            b = b.with_subscription_identifier(id);
        }
        for (n, v) in &self.user_props {
            b = b.with_user_property(UserProperty::new(n.expand(), v.expand()));
        }
        b.build()
    }

    pub fn expected(&self, v5: bool, pid: u16) -> rf::Subscribe {
        rf::Subscribe {
            pid,
            subscription_id: if v5 { self.sub_id } else { None },
            user_props: if v5 { expand_props(&self.user_props) } else { vec![] },
            entries: self
                .entries
                .iter()
                .map(|e| rf::SubEntry { filter: e.filter.expand(), qos: e.qos, no_local: v5 && e.no_local, retain_as_published: v5 && e.rap, retain_handling: if v5 { e.rh % 3 } else { 0 } })
                .collect(),
        }
    }
}

#[derive(Clone, Debug, Serialize, Deserialize, PartialEq, Eq)]
pub struct AbsUnsubscribe {
    pub filters: Vec<Filter>,
    pub user_props: Props,
}

impl AbsUnsubscribe {
    pub fn build(&self) -> UnsubscribePacket {
        let mut b = UnsubscribePacket::builder();
        for f in &self.filters {
            b = b.with_topic_filter(f.expand());
        }
        for (n, v) in &self.user_props {
            b = b.with_user_property(UserProperty::new(n.expand(), v.expand()));
        }
        b.build()
    }

    pub fn expected(&self, v5: bool, pid: u16) -> rf::Unsubscribe {
        rf::Unsubscribe { pid, user_props: if v5 { expand_props(&self.user_props) } else { vec![] }, filters: self.filters.iter().map(|f| f.expand()).collect() }
    }
}

#[derive(Clone, Debug, Serialize, Deserialize, PartialEq, Eq)]
pub struct AbsDisconnect {
    pub reason: u8,
    pub session_expiry: Option<u32>,
    pub reason_string: Option<S>,
    pub user_props: Props,
}

impl AbsDisconnect {
    pub fn build(&self) -> DisconnectPacket {
        let mut b = DisconnectPacket::builder();
        if let Ok(rc) = DisconnectReasonCode::try_from(self.reason) {
            b = b.with_reason_code(rc);
        }
        if let Some(v) = self.session_expiry {
            b = b.with_session_expiry_interval_seconds(v);
        }
        if let Some(s) = &self.reason_string {
            b = b.with_reason_string(s.expand());
        }
        for (n, v) in &self.user_props {
            b = b.with_user_property(UserProperty::new(n.expand(), v.expand()));
        }
        b.build()
    }

    pub fn expected(&self, v5: bool) -> rf::Disconnect {
        if v5 {
            rf::Disconnect { reason: self.reason, session_expiry: self.session_expiry, reason_string: self.reason_string.as_ref().map(|s| s.expand()), server_reference: None, user_props: expand_props(&self.user_props) }
        } else {
            rf::Disconnect::default()
        }
    }
}

#[derive(Clone, Debug, Serialize, Deserialize, PartialEq, Eq)]
pub struct AbsConnect {
    pub keep_alive: Option<u16>,
    pub rejoin: u8,
    pub client_id: Option<S>,
    pub username: Option<S>,
    pub password: Option<B>,
    pub session_expiry: Option<u32>,
    pub request_response_information: Option<bool>,
    pub request_problem_information: Option<bool>,
    pub receive_maximum: Option<u16>,
    pub topic_alias_maximum: Option<u16>,
    pub maximum_packet_size: Option<u32>,
    pub will_delay: Option<u32>,
    pub will: Option<AbsPublish>,
    pub user_props: Props,
    pub connected_previously: bool,
}

impl AbsConnect {
    pub fn build(&self) -> ConnectOptions {
        let mut b = ConnectOptions::builder();
        b.with_keep_alive_interval_seconds(self.keep_alive);
        b.with_rejoin_session_policy(match self.rejoin % 3 {
            0 => RejoinSessionPolicy::PostSuccess,
            1 => RejoinSessionPolicy::Always,
            _ => RejoinSessionPolicy::Never,
        });
        if let Some(s) = &self.client_id {
            b.with_client_id(&s.expand());
        }
        if let Some(s) = &self.username {
            b.with_username(&s.expand());
        }
        if let Some(p) = &self.password {
            b.with_password(&p.expand());
        }
        if let Some(v) = self.session_expiry {
            b.with_session_expiry_interval_seconds(v);
        }
        if let Some(v) = self.request_response_information {
            b.with_request_response_information(v);
        }
        if let Some(v) = self.request_problem_information {
            b.with_request_problem_information(v);
        }
        if let Some(v) = self.receive_maximum {
            b.with_receive_maximum(v);
        }
        if let Some(v) = self.topic_alias_maximum {
            b.with_topic_alias_maximum(v);
        }
        if let Some(v) = self.maximum_packet_size {
            b.with_maximum_packet_size_bytes(v);
        }
        if let Some(v) = self.will_delay {
            b.with_will_delay_interval_seconds(v);
        }
        if let Some(w) = &self.will {
            b.with_will(w.build());
        }
        if !self.user_props.is_empty() {
            b.with_user_properties(self.user_props.iter().map(|(n, v)| UserProperty::new(n.expand(), v.expand())).collect());
        }
        b.build()
    }

    /// `assigned`: the client identifier a server assigned on an earlier successful connection (if any)
    pub fn expected(&self, v5: bool, assigned: Option<&str>) -> rf::Connect {
        let mut clean_start = match self.rejoin % 3 {
            0 => !self.connected_previously,
            1 => false,
            _ => true,
        };
        let client_id = match (&self.client_id, assigned) {
            (Some(s), _) => s.expand(),
            (None, Some(a)) if self.connected_previously => a.to_string(),
            _ => String::new(),
        };
        // MQTT 3.1.1: a zero-length client id requires CleanSession 1 [MQTT-3.1.3-7]
        if !v5 && client_id.is_empty() {
            clean_start = true;
        }
        let mut c = rf::Connect {
            clean_start,
            keep_alive: self.keep_alive.unwrap_or(0),
            client_id,
            username: self.username.as_ref().map(|s| s.expand()),
            password: self.password.as_ref().map(|p| p.expand()),
            ..Default::default()
        };
        if let Some(w) = &self.will {
            let mut will = rf::Will { qos: w.qos, retain: w.retain, topic: w.topic_str(), payload: w.payload.as_ref().map(|b| b.expand()).unwrap_or_default(), ..Default::default() };
            if v5 {
                will.will_delay_interval = self.will_delay;
                will.payload_format = w.payload_format.map(|x| if x == 0 { 0 } else { 1 });
                will.message_expiry = w.message_expiry;
                will.content_type = w.content_type.as_ref().map(|s| s.expand());
                will.response_topic = w.response_topic.as_ref().map(|t| topic_string(t));
                will.correlation_data = w.correlation.as_ref().map(|b| b.expand());
                will.user_props = expand_props(&w.user_props);
            }
            c.will = Some(will);
        }
        if v5 {
            c.session_expiry = self.session_expiry;
            c.receive_maximum = self.receive_maximum;
            c.maximum_packet_size = self.maximum_packet_size;
            c.topic_alias_maximum = self.topic_alias_maximum;
            c.request_response_information = self.request_response_information;
            c.request_problem_information = self.request_problem_information;
            c.user_props = expand_props(&self.user_props);
        }
        c
    }
}

#[derive(Clone, Debug, Serialize, Deserialize, PartialEq, Eq)]
pub enum AbsPacket {
    Publish(AbsPublish),
    Subscribe(AbsSubscribe),
    Unsubscribe(AbsUnsubscribe),
    Disconnect(AbsDisconnect),
    Connect(AbsConnect),
    Puback,
    Pubrec,
    Pubrel,
    Pubcomp,
    Pingreq,
}

impl AbsPacket {
    pub fn kind_name(&self) -> &'static str {
        match self {
            AbsPacket::Publish(_) => "PUBLISH",
            AbsPacket::Subscribe(_) => "SUBSCRIBE",
            AbsPacket::Unsubscribe(_) => "UNSUBSCRIBE",
            AbsPacket::Disconnect(_) => "DISCONNECT",
            AbsPacket::Connect(_) => "CONNECT",
            AbsPacket::Puback => "PUBACK",
            AbsPacket::Pubrec => "PUBREC",
            AbsPacket::Pubrel => "PUBREL",
            AbsPacket::Pubcomp => "PUBCOMP",
            AbsPacket::Pingreq => "PINGREQ",
        }
    }
}

// ------------------------------------------------------------------------------------------------
// strategies
// ------------------------------------------------------------------------------------------------

/// byte-length classes named in the property's quantifier
pub fn len_class(max_big: bool) -> BoxedStrategy<u32> {
    if max_big {
        prop_oneof![
            6 => 0u32..20,
            2 => Just(0u32),
            2 => Just(1u32),
            1 => Just(127u32),
            1 => Just(128u32),
            1 => Just(16383u32),
            1 => Just(16384u32),
            1 => Just(65534u32),
            1 => Just(65535u32),
            2 => 20u32..300,
        ]
        .boxed()
    } else {
        prop_oneof![6 => 0u32..12, 1 => Just(0u32), 1 => Just(127u32), 1 => Just(128u32), 1 => 12u32..200].boxed()
    }
}

pub fn s_strategy(big: bool) -> BoxedStrategy<S> {
    (len_class(big), 0u8..5, any::<u16>()).prop_map(|(len, style, seed)| S { len, style, seed }).boxed()
}

pub fn s_nonempty(big: bool) -> BoxedStrategy<S> {
    (len_class(big), 0u8..5, any::<u16>()).prop_map(|(len, style, seed)| S { len: len.max(1), style, seed }).boxed()
}

pub fn b_strategy(big: bool) -> BoxedStrategy<B> {
    (len_class(big), any::<u16>()).prop_map(|(len, seed)| B { len, seed }).boxed()
}

pub fn props_strategy(max: usize) -> BoxedStrategy<Props> {
    prop_oneof![
        5 => Just(Vec::new()),
        4 => vec((s_strategy(false), s_strategy(false)), 1..4),
        1 => vec((s_strategy(true), s_strategy(true)), 1..3),
        1 => vec((s_strategy(false), s_strategy(false)), 4..max.max(5)),
    ]
    .boxed()
}

pub fn topic_levels() -> BoxedStrategy<Vec<S>> {
    prop_oneof![8 => vec(s_nonempty(false), 1..5), 1 => vec(s_nonempty(true), 1..2), 1 => vec(s_strategy(false), 2..6)].boxed()
}

pub fn publish_strategy(big: bool) -> BoxedStrategy<AbsPublish> {
    (
        topic_levels(),
        0u8..3,
        any::<bool>(),
        option::weighted(0.7, b_strategy(big)),
        option::weighted(0.3, 0u8..2),
        option::weighted(0.3, prop_oneof![Just(0u32), Just(1u32), any::<u32>(), Just(u32::MAX)]),
        option::weighted(0.3, topic_levels()),
        option::weighted(0.3, b_strategy(big)),
        option::weighted(0.3, s_strategy(big)),
        props_strategy(40),
    )
        .prop_map(|(topic, qos, retain, payload, payload_format, message_expiry, response_topic, correlation, content_type, user_props)| AbsPublish { topic, qos, retain, payload, payload_format, message_expiry, response_topic, correlation, content_type, user_props, topic_defect: 0 })
        .boxed()
}

pub fn level_strategy() -> BoxedStrategy<Level> {
    prop_oneof![6 => s_nonempty(false).prop_map(Level::Name), 2 => Just(Level::Plus), 1 => Just(Level::Empty)].boxed()
}

pub fn filter_strategy() -> BoxedStrategy<Filter> {
    (vec(level_strategy(), 1..6), prop::bool::weighted(0.25), option::weighted(0.15, s_nonempty(false))).prop_map(|(levels, trailing_hash, share)| Filter { levels, trailing_hash, share, hash_in_middle: false, empty: false }).boxed()
}

pub fn sub_id_strategy() -> BoxedStrategy<u32> {
    prop_oneof![Just(1u32), Just(127u32), Just(128u32), Just(16383u32), Just(16384u32), Just(2_097_151u32), Just(2_097_152u32), Just(268_435_455u32), 1u32..268_435_455].boxed()
}

pub fn subscribe_strategy() -> BoxedStrategy<AbsSubscribe> {
    let entry = (filter_strategy(), 0u8..3, any::<bool>(), any::<bool>(), 0u8..3).prop_map(|(filter, qos, no_local, rap, rh)| {
        // a shared subscription with no-local is a protocol error: keep entries legal
        let no_local = no_local && filter.share.is_none();
        AbsSubEntry { filter, qos, no_local, rap, rh }
    });
    (prop_oneof![8 => vec(entry.clone(), 1..5), 1 => vec(entry, 5..300)], option::weighted(0.4, sub_id_strategy()), props_strategy(10)).prop_map(|(entries, sub_id, user_props)| AbsSubscribe { entries, sub_id, user_props }).boxed()
}

pub fn unsubscribe_strategy() -> BoxedStrategy<AbsUnsubscribe> {
    (prop_oneof![8 => vec(filter_strategy(), 1..5), 1 => vec(filter_strategy(), 5..300)], props_strategy(10)).prop_map(|(filters, user_props)| AbsUnsubscribe { filters, user_props }).boxed()
}

pub fn disconnect_strategy() -> BoxedStrategy<AbsDisconnect> {
    let codes: Vec<u8> = rf::legal_reason_codes(14, rf::Direction::ClientToServer).to_vec();
    let n = codes.len();
    ((0..n).prop_map(move |i| codes[i]), option::weighted(0.3, prop_oneof![Just(0u32), Just(1u32), any::<u32>()]), option::weighted(0.4, s_strategy(true)), props_strategy(10))
        .prop_map(|(reason, session_expiry, reason_string, user_props)| AbsDisconnect { reason, session_expiry, reason_string, user_props })
        .boxed()
}

pub fn connect_strategy() -> BoxedStrategy<AbsConnect> {
    let will = publish_strategy(true).prop_map(|mut w| {
        w.topic_defect = 0;
        w
    });
    (
        (option::weighted(0.8, prop_oneof![Just(0u16), Just(1u16), Just(60u16), Just(1200u16), Just(65535u16), any::<u16>()]), 0u8..3, option::weighted(0.7, s_strategy(true)), option::weighted(0.4, s_strategy(true)), option::weighted(0.4, b_strategy(true)), option::weighted(0.4, prop_oneof![Just(0u32), Just(1u32), any::<u32>(), Just(u32::MAX)])),
        (option::weighted(0.3, any::<bool>()), option::weighted(0.3, any::<bool>()), option::weighted(0.3, prop_oneof![Just(1u16), Just(65535u16), 1u16..65535]), option::weighted(0.3, any::<u16>()), option::weighted(0.3, prop_oneof![Just(1u32), Just(268_435_455u32), 1u32..u32::MAX]), option::weighted(0.3, any::<u32>()), option::weighted(0.4, will), props_strategy(20), any::<bool>()),
    )
        .prop_map(|((keep_alive, rejoin, client_id, username, password, session_expiry), (rri, rpi, receive_maximum, topic_alias_maximum, maximum_packet_size, will_delay, will, user_props, connected_previously))| AbsConnect {
            keep_alive,
            rejoin,
            client_id,
            username,
            password,
            session_expiry,
            request_response_information: rri,
            request_problem_information: rpi,
            receive_maximum,
            topic_alias_maximum,
            maximum_packet_size,
            will_delay,
            will,
            user_props,
            connected_previously,
        })
        .boxed()
}

pub fn packet_strategy() -> BoxedStrategy<AbsPacket> {
    prop_oneof![
        8 => publish_strategy(true).prop_map(AbsPacket::Publish),
        4 => subscribe_strategy().prop_map(AbsPacket::Subscribe),
        3 => unsubscribe_strategy().prop_map(AbsPacket::Unsubscribe),
        3 => disconnect_strategy().prop_map(AbsPacket::Disconnect),
        5 => connect_strategy().prop_map(AbsPacket::Connect),
        1 => Just(AbsPacket::Puback),
        1 => Just(AbsPacket::Pubrec),
        1 => Just(AbsPacket::Pubrel),
        1 => Just(AbsPacket::Pubcomp),
        1 => Just(AbsPacket::Pingreq),
    ]
    .boxed()
}
