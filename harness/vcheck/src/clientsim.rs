//! ClientSim: drives the client state machine (`MqttClientImpl` through the `verif::ClientSim` facade)
//! with an environment model of the two event loops.  Per client state the enabled environment events are
//! exactly the `select!` / poll branches of the drivers.  Used by C12 (lifecycle) and C19 (back-off).

use crate::panichook::guarded;
use crate::runner::{hash_str, CaseReport, Property, Tier, Violation};
use gneiss_mqtt::client::config::*;
use gneiss_mqtt::mqtt::*;
use gneiss_mqtt::verif as gv;
use gneiss_mqtt::verif::{ClientEventView as E, ClientStateView as St};
use proptest::collection::vec;
use proptest::prelude::*;
use refmqtt as rf;
use serde::{Deserialize, Serialize};
use serde_json::json;
use std::time::Duration;

#[derive(Clone, Debug, Serialize, Deserialize, PartialEq, Eq)]
pub enum COp {
    Start,
    Stop,
    StopWithDisconnect,
    /// stop with a DISCONNECT that does not fit into the drivers' 4096-byte write buffer (6000-byte reason string in
    /// MQTT 5), so it can be partially encoded when something else happens
    StopWithLargeDisconnect,
    Close,
    Publish { qos: u8 },
    ConnectOk,
    ConnectErr,
    ConnectTimeout,
    Timer,
    Service,
    WriteAll,
    WritePartial,
    WriteErr,
    ReadEof,
    ReadErr,
    /// the broker answers the next thing it has received (CONNECT -> CONNACK, PUBLISH -> PUBACK ...)
    Respond { failing_connack: bool },
    Garbage,
    Fair { steps: u8 },
}

#[derive(Clone, Debug, Serialize, Deserialize, PartialEq, Eq)]
pub struct CCfg {
    pub v5: bool,
    pub offline: u8,
    pub connect_timeout_zero: bool,
    pub keep_alive: Option<u16>,
}

#[derive(Clone, Debug, Serialize, Deserialize, PartialEq, Eq)]
pub struct CCase {
    pub cfg: CCfg,
    pub ops: Vec<COp>,
}

struct Wire {
    out: Vec<u8>,
    written: usize,
    /// everything the transport accepted on this connection
    delivered: Vec<u8>,
    parsed: usize,
    pending: Vec<rf::Packet>,
    connack_sent: bool,
    client_disconnect_seen: bool,
}

pub struct CSim {
    pub c: gv::ClientSim,
    cfg: CCfg,
    wire: Option<Wire>,
    pub loop_alive: bool,
    pub loop_died_err: Option<String>,
    pub events: Vec<E>,
    /// index into `events` at the time of each user op
    pub marks: Vec<(COp, usize, St)>,
    pub remapped: u64,
    pub panic: Option<String>,
    pub reconnect_waits: Vec<Duration>,
    pub labels: Vec<String>,
}

impl CSim {
    pub fn new(cfg: &CCfg) -> CSim {
        let mut cb = MqttClientOptions::builder();
        cb.with_offline_queue_policy(crate::sim::offline_policy(cfg.offline));
        cb.with_connect_timeout(if cfg.connect_timeout_zero { Duration::from_secs(0) } else { Duration::from_secs(3600) });
        cb.with_protocol_mode(if cfg.v5 { ProtocolMode::Mqtt5 } else { ProtocolMode::Mqtt311 });
        cb.with_reconnect_period_jitter(ExponentialBackoffJitterType::None);
        let mut conn = ConnectOptions::builder();
        conn.with_keep_alive_interval_seconds(cfg.keep_alive);
        conn.with_client_id("cs");
        CSim { c: gv::ClientSim::new(cb.build(), conn.build()), cfg: cfg.clone(), wire: None, loop_alive: true, loop_died_err: None, events: Vec::new(), marks: Vec::new(), remapped: 0, panic: None, reconnect_waits: Vec::new(), labels: Vec::new() }
    }

    fn label(&mut self, l: &str) {
        if !self.labels.iter().any(|x| x == l) {
            self.labels.push(l.to_string());
        }
    }

    pub fn state(&self) -> St {
        self.c.current_state()
    }

    fn collect(&mut self) {
        let evs = self.c.drain_events();
        self.events.extend(evs);
        let _ = self.c.drain_completions();
    }

    /// what both event loops do once a `process_*` function has returned the next state
    fn transition(&mut self, next: St) {
        if !self.loop_alive {
            return;
        }
        let res = guarded(|| self.c.transition_to(next));
        self.collect();
        match res {
            Err((msg, loc)) => {
                self.panic = Some(format!("transition_to({:?}): {} at {}", next, msg, loc));
                self.loop_alive = false;
            }
            Ok(Err(e)) => {
                self.loop_died_err = Some(format!("transition_to({:?}) returned {}", next, e));
                self.loop_alive = false;
            }
            Ok(Ok(())) => {
                let now = self.state();
                if now == St::Shutdown {
                    self.loop_alive = false;
                    return;
                }
                if now == St::Connected {
                    self.wire = Some(Wire { out: Vec::with_capacity(4096), written: 0, delivered: Vec::new(), parsed: 0, pending: Vec::new(), connack_sent: false, client_disconnect_seen: false });
                } else {
                    self.wire = None;
                }
                if now == St::PendingReconnect {
                    match guarded(|| self.c.advance_reconnect_period()) {
                        Ok(d) => self.reconnect_waits.push(d),
                        Err((msg, loc)) => {
                            self.panic = Some(format!("advance_reconnect_period: {} at {}", msg, loc));
                            self.loop_alive = false;
                        }
                    }
                }
            }
        }
    }

    /// after every event the loops ask the client whether its desired state calls for a transition
    fn after_event(&mut self, decided: Option<St>) {
        self.collect();
        if !self.loop_alive {
            return;
        }
        let next = match decided {
            Some(n) => Some(n),
            None => match guarded(|| self.c.compute_transition()) {
                Ok(n) => n,
                Err((msg, loc)) => {
                    self.panic = Some(format!("compute_optional_state_transition: {} at {}", msg, loc));
                    self.loop_alive = false;
                    None
                }
            },
        };
        if let Some(n) = next {
            self.transition(n);
        }
    }

    fn user(&mut self, op: &COp) {
        let mark = (op.clone(), self.events.len(), self.state());
        self.marks.push(mark);
        let st = self.state();
        let proto = self.c.protocol_state();
        match op {
            COp::Stop | COp::StopWithDisconnect | COp::StopWithLargeDisconnect | COp::Close => {
                if st == St::Connected && proto == gv::EngineState::PendingConnack {
                    self.label("request_during_handshake");
                }
                if st == St::Connecting {
                    self.label("request_while_connecting");
                }
                if st == St::PendingReconnect {
                    self.label("request_while_pending_reconnect");
                }
            }
            _ => {}
        }
        let cop = match op {
            COp::Start => gv::ClientOp::Start,
            COp::Stop => gv::ClientOp::Stop(None),
            COp::StopWithDisconnect => gv::ClientOp::Stop(Some(DisconnectPacket::builder().build())),
            COp::StopWithLargeDisconnect => gv::ClientOp::Stop(Some(DisconnectPacket::builder().with_reason_string("r".repeat(6000)).build())),
            COp::Close => gv::ClientOp::Close,
            COp::Publish { qos } => gv::ClientOp::Publish(PublishPacket::builder("cs/t".to_string(), crate::sim::qos_of(*qos)).with_payload(vec![1, 2, 3]).build(), None),
            _ => return,
        };
        let res = guarded(|| {
            self.c.op(cop);
        });
        if let Err((msg, loc)) = res {
            self.panic = Some(format!("handle_incoming_operation: {} at {}", msg, loc));
            self.loop_alive = false;
            return;
        }
        self.after_event(None);
    }

    fn broker_consume(&mut self) {
        let version = if self.cfg.v5 { rf::Version::V5 } else { rf::Version::V311 };
        if let Some(w) = self.wire.as_mut() {
            loop {
                match rf::decode(version, rf::Direction::ClientToServer, &w.delivered[w.parsed..]) {
                    Ok((p, used)) => {
                        w.parsed += used;
                        if matches!(p, rf::Packet::Disconnect(_)) {
                            w.client_disconnect_seen = true;
                        }
                        w.pending.push(p);
                    }
                    _ => break,
                }
            }
        }
    }

    fn connected_event(&mut self, op: &COp) {
        // returns the decided next state, if the event ends the connection
        let mut decided: Option<St> = None;
        match op {
            COp::Service => {
                let due = match guarded(|| self.c.next_service_in()) {
                    Ok(d) => matches!(d, Some(x) if x == Duration::from_secs(0)),
                    Err(_) => false,
                };
                if !due {
                    self.remapped += 1;
                    return;
                }
                let mut out = std::mem::take(&mut self.wire.as_mut().unwrap().out);
                let res = guarded(|| self.c.service(&mut out));
                self.wire.as_mut().unwrap().out = out;
                match res {
                    Err((msg, loc)) => {
                        self.panic = Some(format!("handle_service: {} at {}", msg, loc));
                        self.loop_alive = false;
                        return;
                    }
                    Ok(Err(e)) => {
                        self.c.apply_error(e);
                        decided = Some(St::PendingReconnect);
                    }
                    Ok(Ok(())) => {}
                }
            }
            COp::WriteAll | COp::WritePartial => {
                let (pending, all) = {
                    let w = self.wire.as_ref().unwrap();
                    (w.out.len() - w.written, matches!(op, COp::WriteAll))
                };
                if pending == 0 {
                    self.remapped += 1;
                    return;
                }
                let n = if all { pending } else { (pending / 2).max(1) };
                let complete = {
                    let w = self.wire.as_mut().unwrap();
                    let chunk: Vec<u8> = w.out[w.written..w.written + n].to_vec();
                    w.delivered.extend(chunk);
                    w.written += n;
                    if w.written == w.out.len() {
                        w.out.clear();
                        w.written = 0;
                        true
                    } else {
                        false
                    }
                };
                if !all {
                    self.label("partial_write");
                }
                self.broker_consume();
                if complete {
                    match guarded(|| self.c.write_completion()) {
                        Err((msg, loc)) => {
                            self.panic = Some(format!("handle_write_completion: {} at {}", msg, loc));
                            self.loop_alive = false;
                            return;
                        }
                        Ok(Err(e)) => {
                            self.c.apply_error(e);
                            decided = Some(St::PendingReconnect);
                        }
                        Ok(Ok(())) => {}
                    }
                }
            }
            COp::WriteErr => {
                if self.wire.as_ref().map(|w| w.out.len() > w.written).unwrap_or(false) {
                    self.label("write_error");
                    self.c.apply_connection_closed_error("write failed");
                    decided = Some(St::PendingReconnect);
                } else {
                    self.remapped += 1;
                    return;
                }
            }
            COp::ReadEof | COp::ReadErr => {
                self.label("connection_dropped");
                if self.wire.as_ref().map(|w| w.pending.iter().any(|p| matches!(p, rf::Packet::Disconnect(_))) || w.out.len() > w.written).unwrap_or(false) {
                    self.label("dropped_with_unwritten_or_unanswered_data");
                }
                self.c.apply_connection_closed_error("network stream closed");
                decided = Some(St::PendingReconnect);
            }
            COp::Respond { failing_connack } => {
                let version = if self.cfg.v5 { rf::Version::V5 } else { rf::Version::V311 };
                let next = {
                    let w = self.wire.as_mut().unwrap();
                    if w.pending.is_empty() {
                        None
                    } else {
                        Some(w.pending.remove(0))
                    }
                };
                let reply: Option<rf::Packet> = match next {
                    None => None,
                    Some(rf::Packet::Connect(_)) => {
                        let w = self.wire.as_mut().unwrap();
                        w.connack_sent = true;
                        if *failing_connack {
                            Some(rf::Packet::Connack(rf::Connack { reason: if self.cfg.v5 { 0x88 } else { 3 }, ..Default::default() }))
                        } else {
                            Some(rf::Packet::Connack(rf::Connack::default()))
                        }
                    }
                    Some(rf::Packet::Publish(p)) => match p.qos {
                        1 => Some(rf::Packet::Puback(rf::Ack { pid: p.pid.unwrap_or(1), ..Default::default() })),
                        2 => Some(rf::Packet::Pubrec(rf::Ack { pid: p.pid.unwrap_or(1), ..Default::default() })),
                        _ => None,
                    },
                    Some(rf::Packet::Pubrel(a)) => Some(rf::Packet::Pubcomp(rf::Ack { pid: a.pid, ..Default::default() })),
                    Some(rf::Packet::Pingreq) => Some(rf::Packet::Pingresp),
                    Some(rf::Packet::Disconnect(_)) => {
                        // the peer reacts to a DISCONNECT by closing
                        self.c.apply_connection_closed_error("network stream closed");
                        self.after_event(Some(St::PendingReconnect));
                        return;
                    }
                    Some(_) => None,
                };
                match reply {
                    None => {
                        self.remapped += 1;
                        return;
                    }
                    Some(p) => {
                        let bytes = rf::encode(version, &p, &rf::EncodeOpts::default());
                        match guarded(|| self.c.incoming_bytes(&bytes)) {
                            Err((msg, loc)) => {
                                self.panic = Some(format!("handle_incoming_bytes: {} at {}", msg, loc));
                                self.loop_alive = false;
                                return;
                            }
                            Ok(Err(e)) => {
                                self.c.apply_error(e);
                                decided = Some(St::PendingReconnect);
                            }
                            Ok(Ok(())) => {}
                        }
                    }
                }
            }
            COp::Garbage => {
                match guarded(|| self.c.incoming_bytes(&[0xFF, 0xFF, 0xFF, 0xFF, 0xFF, 0x01])) {
                    Err((msg, loc)) => {
                        self.panic = Some(format!("handle_incoming_bytes: {} at {}", msg, loc));
                        self.loop_alive = false;
                        return;
                    }
                    Ok(Err(e)) => {
                        self.c.apply_error(e);
                        decided = Some(St::PendingReconnect);
                    }
                    Ok(Ok(())) => {}
                }
            }
            _ => {
                self.remapped += 1;
                return;
            }
        }
        self.after_event(decided);
    }

    pub fn apply(&mut self, op: &COp) {
        if !self.loop_alive {
            return;
        }
        match op {
            COp::Start | COp::Stop | COp::StopWithDisconnect | COp::StopWithLargeDisconnect | COp::Close | COp::Publish { .. } => self.user(op),
            COp::Fair { steps } => self.fair(*steps as usize),
            _ => match self.state() {
                St::Stopped | St::Shutdown => self.remapped += 1,
                St::Connecting => match op {
                    COp::ConnectOk => self.after_event(Some(St::Connected)),
                    COp::ConnectErr => {
                        self.label("connect_refused");
                        self.c.apply_connection_establishment_error("connection refused");
                        self.after_event(Some(St::PendingReconnect));
                    }
                    COp::ConnectTimeout => {
                        self.label("connect_timeout");
                        self.c.apply_connection_establishment_error("connection establishment timeout reached");
                        self.after_event(Some(St::PendingReconnect));
                    }
                    _ => self.remapped += 1,
                },
                St::PendingReconnect => match op {
                    COp::Timer => self.after_event(Some(St::Connecting)),
                    _ => self.remapped += 1,
                },
                St::Connected => self.connected_event(op),
            },
        }
    }

    /// writes complete and due service calls are made, but the broker stays silent
    pub fn flush_out(&mut self, steps: usize) {
        for _ in 0..steps {
            if !self.loop_alive || self.state() != St::Connected {
                return;
            }
            let has_out = {
                let w = self.wire.as_ref().unwrap();
                w.out.len() > w.written
            };
            let due = match guarded(|| self.c.next_service_in()) {
                Ok(d) => matches!(d, Some(x) if x == Duration::from_secs(0)),
                Err(_) => false,
            };
            if has_out {
                self.apply(&COp::WriteAll);
            } else if due {
                self.apply(&COp::Service);
            } else {
                return;
            }
        }
    }

    /// a fair environment: connections succeed, the broker answers, writes complete, the peer closes after DISCONNECT
    pub fn fair(&mut self, steps: usize) {
        for _ in 0..steps {
            if !self.loop_alive {
                return;
            }
            match self.state() {
                St::Stopped | St::Shutdown => return,
                St::Connecting => self.apply(&COp::ConnectOk),
                St::PendingReconnect => self.apply(&COp::Timer),
                St::Connected => {
                    let (has_out, has_pending) = {
                        let w = self.wire.as_ref().unwrap();
                        (w.out.len() > w.written, !w.pending.is_empty())
                    };
                    let due = match guarded(|| self.c.next_service_in()) {
                        Ok(d) => matches!(d, Some(x) if x == Duration::from_secs(0)),
                        Err(_) => false,
                    };
                    if has_out {
                        self.apply(&COp::WriteAll);
                    } else if due {
                        self.apply(&COp::Service);
                    } else if has_pending {
                        self.apply(&COp::Respond { failing_connack: false });
                    } else {
                        return;
                    }
                }
            }
        }
    }
}

// ================================================================================================
// C12
// ================================================================================================

pub struct C12;

fn cop_strategy() -> BoxedStrategy<COp> {
    prop_oneof![
        6 => Just(COp::Start),
        4 => Just(COp::Stop),
        3 => Just(COp::StopWithDisconnect),
        2 => Just(COp::StopWithLargeDisconnect),
        1 => Just(COp::Close),
        3 => (0u8..3).prop_map(|qos| COp::Publish { qos }),
        5 => Just(COp::ConnectOk),
        2 => Just(COp::ConnectErr),
        1 => Just(COp::ConnectTimeout),
        4 => Just(COp::Timer),
        6 => Just(COp::Service),
        6 => Just(COp::WriteAll),
        2 => Just(COp::WritePartial),
        1 => Just(COp::WriteErr),
        2 => Just(COp::ReadEof),
        1 => Just(COp::ReadErr),
        6 => prop::bool::weighted(0.15).prop_map(|failing_connack| COp::Respond { failing_connack }),
        1 => Just(COp::Garbage),
        3 => (1u8..12).prop_map(|steps| COp::Fair { steps }),
    ]
    .boxed()
}

fn ccfg_strategy() -> BoxedStrategy<CCfg> {
    (any::<bool>(), 0u8..4, prop::bool::weighted(0.15), prop_oneof![3 => Just(None), 1 => Just(Some(0u16)), 1 => Just(Some(65535u16))]).prop_map(|(v5, offline, connect_timeout_zero, keep_alive)| CCfg { v5, offline, connect_timeout_zero, keep_alive }).boxed()
}

/// grammar: (Attempt (Failure | Success Disconnection))*, Stopped only between groups, never twice without an attempt in between
fn check_grammar(events: &[E]) -> Option<(String, String)> {
    #[derive(PartialEq, Debug, Clone, Copy)]
    enum G {
        Idle,
        Attempting,
        Up,
    }
    let mut g = G::Idle;
    let mut stopped_since_attempt = false;
    for (i, e) in events.iter().enumerate() {
        let render = || events.iter().map(|x| format!("{:?}", x)).collect::<Vec<_>>().join(" ");
        match (g, e) {
            (_, E::PublishReceived) => {}
            (G::Idle, E::ConnectionAttempt) => {
                g = G::Attempting;
                stopped_since_attempt = false;
            }
            (G::Idle, E::Stopped) => {
                if stopped_since_attempt {
                    return Some(("Stopped emitted twice without a connection attempt in between".to_string(), format!("event #{} in [{}]", i, render())));
                }
                stopped_since_attempt = true;
            }
            (G::Attempting, E::ConnectionFailure) => g = G::Idle,
            (G::Attempting, E::ConnectionSuccess) => g = G::Up,
            (G::Up, E::Disconnection) => g = G::Idle,
            (state, ev) => {
                let what = match (state, ev) {
                    (G::Attempting, E::ConnectionAttempt) => "a connection attempt is reported before the previous attempt has an outcome",
                    (G::Attempting, E::Stopped) => "Stopped is reported while a connection attempt has no outcome yet",
                    (G::Attempting, E::Disconnection) => "a disconnection is reported for an attempt that never succeeded",
                    (G::Up, E::ConnectionAttempt) => "a connection attempt is reported before the established connection's disconnection",
                    (G::Up, E::Stopped) => "Stopped is reported before the established connection's disconnection",
                    (G::Up, E::ConnectionFailure) => "a connection failure is reported after the attempt had succeeded",
                    (G::Up, E::ConnectionSuccess) => "connection success reported twice",
                    (G::Idle, E::ConnectionFailure) => "a connection failure is reported without an attempt",
                    (G::Idle, E::ConnectionSuccess) => "a connection success is reported without an attempt",
                    (G::Idle, E::Disconnection) => "a disconnection is reported without an established connection",
                    _ => "malformed event stream",
                };
                return Some((what.to_string(), format!("event #{} in [{}]", i, render())));
            }
        }
    }
    None
}

impl Property for C12 {
    type Case = CCase;

    fn id(&self) -> &'static str {
        "C12"
    }

    fn strategy(&self, tier: Tier) -> BoxedStrategy<CCase> {
        let n = if tier == Tier::Quick { 40 } else { 150 };
        (ccfg_strategy(), vec(cop_strategy(), 1..n)).prop_map(|(cfg, ops)| CCase { cfg, ops }).boxed()
    }

    /// byte-driven twin of `ccfg_strategy` / `cop_strategy` (same value sets and weights), see bytegen.rs
    fn fuzz_case(&self, data: &[u8]) -> Option<CCase> {
        use crate::bytegen::Cur;
        if data.len() < 5 {
            return None;
        }
        let mut h = Cur::new(&data[..4]);
        let cfg = CCfg { v5: h.prob(0.5), offline: h.below(4) as u8, connect_timeout_zero: h.prob(0.15), keep_alive: h.wpick(&[(3, None), (1, Some(0u16)), (1, Some(65535u16))]) };
        let mut c = Cur::new(&data[4..]);
        let mut ops = Vec::new();
        while !c.exhausted() && ops.len() < 149 {
            let arm = c.weighted(&[6, 4, 3, 1, 3, 5, 2, 1, 4, 6, 6, 2, 1, 2, 1, 6, 1, 3, 2]).unwrap_or(0);
            ops.push(match arm {
                0 => COp::Start,
                1 => COp::Stop,
                2 => COp::StopWithDisconnect,
                3 => COp::Close,
                4 => COp::Publish { qos: c.below(3) as u8 },
                5 => COp::ConnectOk,
                6 => COp::ConnectErr,
                7 => COp::ConnectTimeout,
                8 => COp::Timer,
                9 => COp::Service,
                10 => COp::WriteAll,
                11 => COp::WritePartial,
                12 => COp::WriteErr,
                13 => COp::ReadEof,
                14 => COp::ReadErr,
                15 => COp::Respond { failing_connack: c.prob(0.15) },
                16 => COp::Garbage,
                18 => COp::StopWithLargeDisconnect,
                _ => COp::Fair { steps: 1 + c.below(11) as u8 },
            });
        }
        if ops.is_empty() {
            return None;
        }
        Some(CCase { cfg, ops })
    }

    fn check(&self, case: &CCase) -> CaseReport {
        let mut violations = Vec::new();
        let mut sim = CSim::new(&case.cfg);
        for op in &case.ops {
            sim.apply(op);
            if !sim.loop_alive {
                break;
            }
        }
        // fair suffix: the transport reacts
        let script_events = sim.events.len();
        if sim.loop_alive {
            sim.fair(200);
        }
        let _ = script_events;

        if let Some(p) = &sim.panic {
            violations.push(Violation::new("C12.panic", format!("panic: {}", p.chars().map(|c| if c.is_ascii_digit() { '#' } else { c }).take(90).collect::<String>()), p.clone()));
        }
        if let Some(e) = &sim.loop_died_err {
            violations.push(Violation::new("C12.loop_died", format!("the event loop exits because a state transition fails: {}", e.chars().map(|c| if c.is_ascii_digit() { '#' } else { c }).take(90).collect::<String>()), e.clone()));
        }
        if let Some((what, detail)) = check_grammar(&sim.events) {
            violations.push(Violation::new("C12.event_grammar", what, detail));
        }
        // reference model of the requested state
        let mut desired = 0u8; // 0 stopped, 1 connected, 2 shutdown
        let mut last_request_mark: Option<usize> = None;
        let mut was_stopped_at_request = false;
        for (op, mark, st) in &sim.marks {
            match op {
                COp::Start if desired != 2 => {
                    desired = 1;
                    last_request_mark = Some(*mark);
                }
                COp::Stop | COp::StopWithDisconnect | COp::StopWithLargeDisconnect if desired != 2 => {
                    desired = 0;
                    last_request_mark = Some(*mark);
                    was_stopped_at_request = *st == St::Stopped;
                }
                COp::Close => {
                    if desired != 2 {
                        last_request_mark = Some(*mark);
                    }
                    desired = 2;
                }
                _ => {}
            }
        }
        let final_state = sim.state();
        if sim.panic.is_none() && sim.loop_died_err.is_none() {
            match desired {
                2 => {
                    if final_state != St::Shutdown {
                        violations.push(Violation::new("C12.close_not_terminal", "close was requested but the client did not shut down", format!("final state {:?}", final_state)));
                    }
                    // nothing afterwards
                    if let Some(m) = last_request_mark {
                        let after: Vec<&E> = sim.events[m..].iter().collect();
                        if after.iter().any(|e| matches!(e, E::ConnectionAttempt)) {
                            violations.push(Violation::new("C12.attempt_after_close", "a connection attempt was made after close", format!("{:?}", after)));
                        }
                    }
                }
                0 => {
                    if sim.marks.iter().any(|(op, _, _)| matches!(op, COp::Stop | COp::StopWithDisconnect | COp::StopWithLargeDisconnect | COp::Start)) {
                        if final_state != St::Stopped {
                            violations.push(Violation::new("C12.stop_not_honoured", format!("a stop request that no later start supersedes does not lead to the Stopped state although the transport reacts (client state {:?}, protocol state {:?})", final_state, sim.c.protocol_state()), format!("ops {:?}", case.ops)));
                        } else if let Some(m) = last_request_mark {
                            let after = &sim.events[m..];
                            let stopped = after.iter().filter(|e| matches!(e, E::Stopped)).count();
                            let expected = if was_stopped_at_request { 0 } else { 1 };
                            if stopped != expected {
                                violations.push(Violation::new("C12.stopped_count", format!("{} Stopped events after the final stop request (expected {})", stopped, expected), format!("{:?}", after)));
                            }
                            if let Some(pos) = after.iter().position(|e| matches!(e, E::Stopped)) {
                                if after[pos..].iter().any(|e| matches!(e, E::ConnectionAttempt)) {
                                    violations.push(Violation::new("C12.attempt_after_stopped", "a connection attempt was made after Stopped without a start", format!("{:?}", after)));
                                }
                            }
                        }
                    }
                }
                _ => {
                    // started: a fair environment must get it connected
                    // with a zero connect timeout no connection can ever be established: nothing to expect
                    if !case.cfg.connect_timeout_zero && (final_state != St::Connected || sim.c.protocol_state() != gv::EngineState::Connected) {
                        violations.push(Violation::new("C12.start_not_honoured", format!("the client was started but does not reach an established connection in a fair environment (client state {:?}, protocol state {:?})", final_state, sim.c.protocol_state()), format!("ops {:?}", case.ops)));
                    }
                }
            }
        }
        let mut labels = sim.labels.clone();
        labels.push(format!("final:{:?}", final_state));
        let attempts = sim.events.iter().filter(|e| matches!(e, E::ConnectionAttempt)).count();
        if attempts >= 3 {
            labels.push("attempts>=3".into());
        }
        let nontrivial = labels.iter().any(|l| l == "request_during_handshake" || l == "request_while_connecting" || l == "partial_write" || l == "connection_dropped" || l == "write_error" || l == "dropped_with_unwritten_or_unanswered_data");
        let digest = hash_str(&format!("{:?}|{:?}", sim.events, sim.marks.iter().map(|(o, m, s)| format!("{:?}{}{:?}", o, m, s)).collect::<Vec<_>>()));
        let sample = json!({"config": format!("{:?}", case.cfg), "ops": case.ops.iter().take(40).map(|o| format!("{:?}", o)).collect::<Vec<_>>(), "events": sim.events.iter().map(|e| format!("{:?}", e)).collect::<Vec<_>>(), "final_state": format!("{:?}", final_state)});
        CaseReport { violations, labels, nontrivial, digest, sample: Some(sample), counters: vec![("remapped_ops".into(), sim.remapped), ("client_events".into(), sim.events.len() as u64)], ..Default::default() }
    }

    fn cases_per_shard(&self, tier: Tier) -> u32 {
        match tier {
            Tier::Quick => 3000,
            Tier::Thorough => 60_000,
        }
    }

    fn rule_text(&self) -> String {
        "ClientSim histories over start / stop / stop-with-DISCONNECT (2 bytes, or 6 kB so that it can be half written in the 4096-byte buffer) / close / publish requests interleaved with the environment events enabled in the current client state (connect ok / refused / timed out; service due; write complete / partial / error; read EOF / error; broker answer incl. failing CONNACK; garbage; reconnect timer), followed by a fair suffix of at most 200 steps (connections succeed, writes complete, broker answers, the peer closes after a DISCONNECT); oracle: event grammar (Attempt (Failure | Success Disconnection))* with Stopped only between groups and never twice without an attempt, state transitions never fail (the loop never dies), a 12-line model of the requested state predicts the final state (Stopped with exactly one Stopped event and no later attempt / Connected / Shutdown with nothing afterwards); non-trivial = a request during the CONNECT/CONNACK handshake or while connecting, a partial write, a write error or a dropped connection; distinct = hash of (event stream, request marks)".to_string()
    }

    fn assumptions(&self) -> Vec<String> {
        vec![
            "MqttClientImpl reads the wall clock itself; configurations (connect timeout 0 or 1 h, keep-alive none/0/65535, no ack timeouts) make verdicts independent of it".into(),
            "liveness is judged in steps under the stated fairness assumption; thread schedules of the real drivers are not explored here".into(),
        ]
    }
}

// ================================================================================================
// C19
// ================================================================================================

#[derive(Clone, Debug, Serialize, Deserialize, PartialEq, Eq)]
pub enum DurSpec {
    Zero,
    Nanos(u32),
    Millis(u32),
    Secs(u32),
    Max,
}

impl DurSpec {
    pub fn get(&self) -> Duration {
        match self {
            DurSpec::Zero => Duration::from_secs(0),
            DurSpec::Nanos(n) => Duration::from_nanos(*n as u64),
            DurSpec::Millis(n) => Duration::from_millis(*n as u64),
            DurSpec::Secs(n) => Duration::from_secs(*n as u64),
            DurSpec::Max => Duration::MAX,
        }
    }
}

#[derive(Clone, Debug, Serialize, Deserialize, PartialEq, Eq)]
pub enum BOp {
    /// connection attempt fails (refused)
    Fail,
    /// connection is established (CONNACK success) and lost immediately
    SucceedShort,
    /// connection is established and stays up longer than the stability period before it is lost
    SucceedStable,
    /// failing CONNACK
    RejectedByBroker,
    /// real time passes while the client waits for its next attempt (longer than the 40 ms stability period); no
    /// connection exists meanwhile, so the back-off sequence must be unaffected
    Pause,
}

#[derive(Clone, Debug, Serialize, Deserialize, PartialEq, Eq)]
pub struct BCase {
    pub base: DurSpec,
    pub max: DurSpec,
    /// 0: zero stability period, 1: 40 ms, 2: one hour
    pub stability: u8,
    pub jitter: bool,
    pub ops: Vec<BOp>,
}

pub struct C19;

fn dur_strategy() -> BoxedStrategy<DurSpec> {
    prop_oneof![
        2 => Just(DurSpec::Zero),
        1 => Just(DurSpec::Nanos(1)),
        1 => Just(DurSpec::Nanos(999_000)),
        2 => Just(DurSpec::Millis(1)),
        2 => Just(DurSpec::Millis(500)),
        3 => Just(DurSpec::Secs(1)),
        2 => Just(DurSpec::Secs(7)),
        2 => Just(DurSpec::Secs(120)),
        1 => Just(DurSpec::Secs(1_000_000)),
        1 => Just(DurSpec::Max),
        2 => (1u32..5000).prop_map(DurSpec::Millis),
    ]
    .boxed()
}

impl Property for C19 {
    type Case = BCase;

    fn id(&self) -> &'static str {
        "C19"
    }

    fn strategy(&self, tier: Tier) -> BoxedStrategy<BCase> {
        let n = if tier == Tier::Quick { 14 } else { 40 };
        (dur_strategy(), dur_strategy(), 0u8..3, any::<bool>(), vec(prop_oneof![6 => Just(BOp::Fail), 2 => Just(BOp::SucceedShort), 1 => Just(BOp::SucceedStable), 2 => Just(BOp::RejectedByBroker), 1 => Just(BOp::Pause)], 1..n)).prop_map(|(base, max, stability, jitter, ops)| BCase { base, max, stability, jitter, ops }).boxed()
    }

    fn check(&self, case: &BCase) -> CaseReport {
        let mut violations = Vec::new();
        let mut labels: Vec<String> = Vec::new();
        let stability = match case.stability % 3 {
            0 => Duration::from_secs(0),
            1 => Duration::from_millis(40),
            _ => Duration::from_secs(3600),
        };
        let mut cb = MqttClientOptions::builder();
        cb.with_base_reconnect_period(case.base.get());
        cb.with_max_reconnect_period(case.max.get());
        cb.with_reconnect_stability_reset_period(stability);
        cb.with_reconnect_period_jitter(if case.jitter { ExponentialBackoffJitterType::Uniform } else { ExponentialBackoffJitterType::None });
        cb.with_connect_timeout(Duration::from_secs(3600));
        let mut conn = ConnectOptions::builder();
        conn.with_keep_alive_interval_seconds(None);
        conn.with_client_id("bo");
        let mut sim = CSim { c: gv::ClientSim::new(cb.build(), conn.build()), cfg: CCfg { v5: true, offline: 0, connect_timeout_zero: false, keep_alive: None }, wire: None, loop_alive: true, loop_died_err: None, events: Vec::new(), marks: Vec::new(), remapped: 0, panic: None, reconnect_waits: Vec::new(), labels: Vec::new() };

        // reference: effective (base, max) and the closed form
        let (mut b, mut m) = (case.base.get(), case.max.get());
        if b > m {
            std::mem::swap(&mut b, &mut m);
            labels.push("base>max".into());
        }
        if m < Duration::from_secs(1) {
            m = Duration::from_secs(1);
            labels.push("max_raised_to_1s".into());
        }
        let expected_wait = |k: u32| -> Duration {
            // min(b * 2^k, m) without overflow
            let mut w = b;
            for _ in 0..k {
                if w >= m {
                    return m;
                }
                w = w.checked_mul(2).unwrap_or(Duration::MAX);
            }
            w.min(m)
        };

        sim.apply(&COp::Start);
        let mut k: u32 = 0;
        let mut expected: Vec<Duration> = Vec::new();
        let mut resets = 0;
        let mut pauses = 0;
        let mut rejected = 0;
        let mut truncated = false;
        let mut timing_unreliable = false;
        for op in &case.ops {
            if !sim.loop_alive {
                break;
            }
            // we are in Connecting (after Start) or PendingReconnect (after a failure): get to Connecting
            if sim.state() == St::PendingReconnect {
                sim.apply(&COp::Timer);
            }
            if sim.state() != St::Connecting {
                break;
            }
            let before = sim.reconnect_waits.len();
            match op {
                BOp::Pause => {
                    if case.stability % 3 == 1 {
                        std::thread::sleep(Duration::from_millis(60));
                        pauses += 1;
                    }
                    continue;
                }
                BOp::Fail => sim.apply(&COp::ConnectErr),
                BOp::RejectedByBroker => {
                    sim.apply(&COp::ConnectOk);
                    sim.flush_out(8); // CONNECT goes out, the broker has not answered yet
                    sim.apply(&COp::Respond { failing_connack: true });
                    rejected += 1;
                }
                BOp::SucceedShort | BOp::SucceedStable => {
                    let established_at = std::time::Instant::now();
                    sim.apply(&COp::ConnectOk);
                    sim.fair(8);
                    let up = sim.c.protocol_state() == gv::EngineState::Connected;
                    if !up {
                        break;
                    }
                    let stable = match (op, case.stability % 3) {
                        (_, 0) => {
                            // zero stability period: any connection that lasted a measurable time is stable
                            std::thread::sleep(Duration::from_millis(2));
                            true
                        }
                        (BOp::SucceedStable, 1) => {
                            std::thread::sleep(Duration::from_millis(120));
                            true
                        }
                        _ => false,
                    };
                    sim.apply(&COp::ReadEof);
                    if !stable && case.stability % 3 == 1 && established_at.elapsed() > Duration::from_millis(25) {
                        // the harness thread was descheduled: the "short" connection may have outlived the 40 ms
                        // stability period in real time, so the expectation is unknown - nothing is asserted
                        timing_unreliable = true;
                        break;
                    }
                    if stable {
                        k = 0;
                        resets += 1;
                    }
                }
            }
            if sim.reconnect_waits.len() == before + 1 {
                expected.push(expected_wait(k));
                k = k.saturating_add(1);
            } else if sim.loop_alive && sim.panic.is_none() {
                truncated = true;
                break;
            }
        }
        if truncated {
            labels.push("harness_truncated_history".into());
        }
        if timing_unreliable {
            return CaseReport { labels: vec!["harness_thread_descheduled".into()], inconclusive: true, digest: hash_str(&format!("{:?}", case.ops)), ..Default::default() };
        }
        if rejected > 0 {
            labels.push("rejected_by_connack".into());
        }
        if let Some(p) = &sim.panic {
            violations.push(Violation::new("C19.panic", format!("computing the reconnect wait panics: {}", p.chars().map(|c| if c.is_ascii_digit() { '#' } else { c }).take(90).collect::<String>()), format!("{} ; base {:?} max {:?} jitter {}", p, case.base, case.max, case.jitter)));
        }
        if let Some(e) = &sim.loop_died_err {
            violations.push(Violation::new("C19.loop_died", "the event loop died during reconnect handling", e.clone()));
        }
        for (i, (got, exp)) in sim.reconnect_waits.iter().zip(expected.iter()).enumerate() {
            if *got > m {
                violations.push(Violation::new("C19.above_maximum", "a reconnect wait exceeds the effective maximum", format!("attempt {} wait {:?} effective max {:?}", i, got, m)));
                break;
            }
            if case.jitter {
                if *got > *exp {
                    violations.push(Violation::new("C19.jitter_above_bound", "with uniform jitter a reconnect wait exceeds min(base*2^k, max)", format!("attempt {} wait {:?} bound {:?} (base {:?} max {:?})", i, got, exp, b, m)));
                    break;
                }
            } else if got != exp {
                let sig = if i == 0 || expected[..i].iter().zip(sim.reconnect_waits.iter()).all(|(a, b)| a == b) && *got < *exp { "without jitter the k-th consecutive reconnect wait is not min(base*2^k, max) (too short / reset too early)" } else { "without jitter the k-th consecutive reconnect wait is not min(base*2^k, max)" };
                violations.push(Violation::new("C19.wrong_wait", sig, format!("attempt {}: wait {:?} expected {:?}; all waits {:?} expected {:?} (effective base {:?} max {:?})", i, got, exp, sim.reconnect_waits, expected, b, m)));
                break;
            }
        }
        let fails = case.ops.iter().filter(|o| matches!(o, BOp::Fail | BOp::RejectedByBroker)).count();
        if sim.reconnect_waits.len() >= 4 {
            labels.push("waits>=4".into());
        }
        if resets > 0 {
            labels.push("stable_reset".into());
        }
        if case.jitter {
            labels.push("jitter".into());
        }
        if pauses > 0 {
            labels.push("time_passes_between_attempts".into());
        }
        if matches!(case.base, DurSpec::Zero | DurSpec::Max | DurSpec::Nanos(_)) || matches!(case.max, DurSpec::Zero | DurSpec::Max | DurSpec::Nanos(_)) {
            labels.push("degenerate_config".into());
        }
        if sim.reconnect_waits.iter().any(|w| *w == m) {
            labels.push("clamped_at_max".into());
        }
        let nontrivial = sim.reconnect_waits.len() >= 4 || resets > 0 || labels.iter().any(|l| l == "degenerate_config" || l == "base>max");
        let digest = hash_str(&format!("{:?}|{:?}|{}|{}|{:?}", case.base, case.max, case.stability, case.jitter, case.ops));
        let sample = json!({"base": format!("{:?}", case.base), "max": format!("{:?}", case.max), "stability": case.stability, "jitter": case.jitter, "ops": case.ops.iter().map(|o| format!("{:?}", o)).collect::<Vec<_>>(), "waits": sim.reconnect_waits.iter().map(|w| format!("{:?}", w)).collect::<Vec<_>>(), "expected_upper_bounds": expected.iter().map(|w| format!("{:?}", w)).collect::<Vec<_>>()});
        let _ = fails;
        CaseReport { violations, labels, nontrivial, digest, sample: Some(sample), counters: vec![("waits_checked".into(), sim.reconnect_waits.len() as u64)], ..Default::default() }
    }

    fn cases_per_shard(&self, tier: Tier) -> u32 {
        match tier {
            Tier::Quick => 400,
            Tier::Thorough => 4000,
        }
    }

    fn rule_text(&self) -> String {
        "ClientSim histories of attempt outcomes (refused, rejected by CONNACK, established briefly, established longer than the stability period, and pauses of 60 ms of real time between attempts) under base / maximum periods from {0, 1 ns, 999 us, 1 ms, 500 ms, 1 s, 7 s, 120 s, 10^6 s, Duration::MAX, random ms} incl. base > max, stability period {0, 40 ms, 1 h} (connection lifetimes 0 / 2 ms / 120 ms of real time, so every comparison has a wide margin) and jitter {none, uniform}; oracle: closed form wait_k = min(b*2^k, m) on the normalised (b, m) without jitter, wait_k in [0, min(b*2^k, m)] with uniform jitter, never above m, k restarts only after a connection that outlived the stability period, and computing the wait never panics; non-trivial = >= 4 consecutive waits, or a stability reset, or a degenerate configuration (0, sub-millisecond, Duration::MAX, base > max); distinct = hash of the case".to_string()
    }

    /// second witness: the waits the real drivers make (see real::reconnect_gap_witness)
    fn extra(&self, tier: Tier, _seed: u64) -> Vec<(String, CaseReport)> {
        let mut out = Vec::new();
        let configs: &[(bool, u64, u64)] = if tier == Tier::Quick { &[(true, 40, 5), (false, 40, 5)] } else { &[(true, 40, 5), (false, 40, 5), (true, 120, 30), (false, 120, 30), (true, 25, 2), (false, 25, 2)] };
        for (tk, base, every) in configs {
            out.push((format!("real-waits-{}-{}-{}", if *tk { "tokio" } else { "threaded" }, base, every), crate::real::reconnect_gap_witness(*tk, *base, *every)));
        }
        out
    }

    fn assumptions(&self) -> Vec<String> {
        vec!["connection lifetime vs. stability period is decided by real sleeps of 2 ms / 120 ms against periods of 0 / 40 ms / 1 h".into(), "the distribution of jittered waits is not asserted, only their bounds".into(), "the real-driver witness (waits really made by the tokio and threaded loops while operations keep arriving) judges wall-clock gaps with a 3x + 250 ms upper and a 0.8x lower tolerance and only if a 1 ms ticker in the harness never overslept by more than 120 ms; otherwise it is inconclusive".into()]
    }
}
