//! C13 - the real tokio and threaded clients on scripted in-memory transports that embed the reference
//! broker, plus direct generated checks of the threaded WebSocket stream adapter.

use crate::runner::{hash_str, CaseReport, Property, Tier, Violation};
use gneiss_mqtt::client::config::*;
use gneiss_mqtt::client::*;
use gneiss_mqtt::error::{GneissError, GneissResult};
use gneiss_mqtt::mqtt::*;
use proptest::collection::vec;
use proptest::prelude::*;
use refmqtt as rf;
use serde::{Deserialize, Serialize};
use serde_json::json;
use std::collections::{BTreeSet, VecDeque};
use std::io::{Read, Write};
use std::pin::Pin;
use std::sync::atomic::{AtomicBool, AtomicU64, Ordering};
use std::sync::{Arc, Mutex, OnceLock};
use std::task::{Context, Poll, Waker};
use std::time::{Duration, Instant};

#[derive(Clone, Debug, Serialize, Deserialize, PartialEq, Eq)]
pub enum WStep {
    Accept(u16),
    Block(u8),
}

#[derive(Clone, Debug, Serialize, Deserialize, PartialEq, Eq)]
pub enum ROp {
    Pub { qos: u8, size: u16 },
    Sub,
    Unsub,
}

#[derive(Clone, Debug, Serialize, Deserialize, PartialEq, Eq)]
pub enum CloseMode {
    /// all operations complete, then the stream is inspected
    None,
    /// close() is called after `before` operations have been submitted; the rest is submitted concurrently / afterwards
    Racing { before: u8, spin_before_close: u16, submitter_spin: u16 },
}

#[derive(Clone, Debug, Serialize, Deserialize, PartialEq, Eq)]
pub struct ClientCase {
    pub tokio: bool,
    pub v5: bool,
    pub write_plan: Vec<WStep>,
    pub read_frags: Vec<u16>,
    pub ops: Vec<ROp>,
    pub inbound: Vec<(u8, u8)>,
    pub submitters: u8,
    pub close: CloseMode,
}

#[derive(Clone, Debug, Serialize, Deserialize, PartialEq, Eq)]
pub struct WsReadCase {
    /// message sizes (binary unless flagged text), with optional ping frames in between
    pub messages: Vec<(u32, bool)>,
    pub ping_after: Vec<bool>,
    pub frags: Vec<u16>,
    pub would_block_every: u8,
    pub read_buf: u32,
}

#[derive(Clone, Debug, Serialize, Deserialize, PartialEq, Eq)]
pub struct WsWriteCase {
    pub chunks: Vec<u32>,
    pub write_plan: Vec<WStep>,
}

#[derive(Clone, Debug, Serialize, Deserialize, PartialEq, Eq)]
pub enum Fault {
    /// writes fail (broken pipe) once the transport has accepted the given number of bytes
    WriteErr,
    /// the peer closes: reads return end-of-stream once the transport has accepted the given number of bytes
    ReadEof,
    /// reads fail (connection reset) once the transport has accepted the given number of bytes
    ReadErr,
}

/// the transport fails on the first connections and the client reconnects (a fresh transport per connection)
#[derive(Clone, Debug, Serialize, Deserialize, PartialEq, Eq)]
pub struct FaultCase {
    pub tokio: bool,
    pub v5: bool,
    pub write_plan: Vec<WStep>,
    pub read_frags: Vec<u16>,
    pub ops: Vec<ROp>,
    /// connection i (in order of establishment) suffers faults[i] after that many bytes; later connections are healthy
    pub faults: Vec<(Fault, u16)>,
}

#[derive(Clone, Debug, Serialize, Deserialize, PartialEq, Eq)]
pub enum RCase {
    Client(ClientCase),
    WsRead(WsReadCase),
    WsWrite(WsWriteCase),
    Faulty(FaultCase),
}

// ------------------------------------------------------------------------------------------------
// scripted in-memory transport with an embedded reference broker
// ------------------------------------------------------------------------------------------------

struct Shared {
    v5: bool,
    rx: Vec<u8>,
    parse_off: usize,
    to_client: VecDeque<u8>,
    read_frags: Vec<usize>,
    read_ix: usize,
    write_plan: Vec<WStep>,
    write_ix: usize,
    block_left: u8,
    inbound: Vec<Vec<u8>>,
    eof: bool,
    reader_waker: Option<Waker>,
    bytes_moved: u64,
    last_activity: Instant,
    write_calls: u64,
    partial_writes: u64,
    blocked_writes: u64,
    read_calls: u64,
    rx_malformed: Option<String>,
    /// fault script of this connection (see FaultCase)
    fault: Option<(Fault, usize)>,
    write_error: bool,
    read_error: bool,
    fault_struck: bool,
}

impl Shared {
    fn version(&self) -> rf::Version {
        if self.v5 {
            rf::Version::V5
        } else {
            rf::Version::V311
        }
    }

    fn push_reply(&mut self, p: rf::Packet) {
        let b = rf::encode(self.version(), &p, &rf::EncodeOpts::default());
        self.to_client.extend(b);
    }

    fn broker(&mut self) {
        loop {
            if self.rx_malformed.is_some() {
                return;
            }
            match rf::decode(self.version(), rf::Direction::ClientToServer, &self.rx[self.parse_off..]) {
                Ok((p, used)) => {
                    self.parse_off += used;
                    match p {
                        rf::Packet::Connect(_) => {
                            self.push_reply(rf::Packet::Connack(rf::Connack::default()));
                            let inbound: Vec<Vec<u8>> = std::mem::take(&mut self.inbound);
                            for b in inbound {
                                self.to_client.extend(b);
                            }
                        }
                        rf::Packet::Publish(p) => match p.qos {
                            1 => self.push_reply(rf::Packet::Puback(rf::Ack { pid: p.pid.unwrap_or(1), ..Default::default() })),
                            2 => self.push_reply(rf::Packet::Pubrec(rf::Ack { pid: p.pid.unwrap_or(1), ..Default::default() })),
                            _ => {}
                        },
                        rf::Packet::Pubrel(a) => self.push_reply(rf::Packet::Pubcomp(rf::Ack { pid: a.pid, ..Default::default() })),
                        rf::Packet::Pubrec(a) => self.push_reply(rf::Packet::Pubrel(rf::Ack { pid: a.pid, ..Default::default() })),
                        rf::Packet::Subscribe(s) => self.push_reply(rf::Packet::Suback(rf::Suback { pid: s.pid, reasons: vec![0; s.entries.len()], ..Default::default() })),
                        rf::Packet::Unsubscribe(u) => self.push_reply(rf::Packet::Unsuback(rf::Unsuback { pid: u.pid, reasons: if self.v5 { vec![0; u.filters.len()] } else { vec![] }, ..Default::default() })),
                        rf::Packet::Pingreq => self.push_reply(rf::Packet::Pingresp),
                        rf::Packet::Disconnect(_) => self.eof = true,
                        _ => {}
                    }
                }
                Err(rf::DecodeError::Incomplete) => return,
                Err(rf::DecodeError::Malformed(m)) => {
                    self.rx_malformed = Some(m);
                    return;
                }
            }
        }
    }

    /// Some(n): accept n bytes; None: would block
    fn on_write(&mut self, buf: &[u8]) -> Option<usize> {
        self.write_calls += 1;
        if buf.is_empty() {
            return Some(0);
        }
        if self.write_plan.is_empty() {
            self.write_plan.push(WStep::Accept(u16::MAX));
        }
        loop {
            let step = self.write_plan[self.write_ix % self.write_plan.len()].clone();
            match step {
                WStep::Block(k) => {
                    if self.block_left == 0 {
                        self.block_left = k.max(1);
                    }
                    self.block_left -= 1;
                    if self.block_left == 0 {
                        self.write_ix += 1;
                    }
                    self.blocked_writes += 1;
                    return None;
                }
                WStep::Accept(n) => {
                    self.write_ix += 1;
                    let mut n = (n.max(1) as usize).min(buf.len());
                    if let Some((_, k)) = &self.fault {
                        // the fault strikes exactly after k bytes
                        if *k > self.rx.len() {
                            n = n.min(*k - self.rx.len());
                        }
                    }
                    if n < buf.len() {
                        self.partial_writes += 1;
                    }
                    self.rx.extend_from_slice(&buf[..n]);
                    self.bytes_moved += n as u64;
                    self.last_activity = Instant::now();
                    self.broker();
                    self.strike_if_due();
                    return Some(n);
                }
            }
        }
    }

    fn strike_if_due(&mut self) {
        if let Some((f, k)) = self.fault.clone() {
            if !self.fault_struck && self.rx.len() >= k {
                self.fault_struck = true;
                match f {
                    Fault::WriteErr => self.write_error = true,
                    Fault::ReadEof => {
                        self.eof = true;
                        self.to_client.clear();
                    }
                    Fault::ReadErr => {
                        self.read_error = true;
                        self.to_client.clear();
                    }
                }
            }
        }
    }

    /// Ok(Some(n)) data, Ok(None) would block, Err(()) eof
    fn on_read(&mut self, buf: &mut [u8]) -> Result<Option<usize>, ()> {
        self.read_calls += 1;
        if self.to_client.is_empty() {
            if self.eof {
                return Err(());
            }
            return Ok(None);
        }
        let frag = if self.read_frags.is_empty() { 4096 } else { self.read_frags[self.read_ix % self.read_frags.len()].max(1) };
        self.read_ix += 1;
        let n = frag.min(buf.len()).min(self.to_client.len());
        for b in buf.iter_mut().take(n) {
            *b = self.to_client.pop_front().unwrap();
        }
        self.bytes_moved += n as u64;
        self.last_activity = Instant::now();
        Ok(Some(n))
    }
}

#[derive(Clone)]
struct Transport(Arc<Mutex<Shared>>);

impl Read for Transport {
    fn read(&mut self, buf: &mut [u8]) -> std::io::Result<usize> {
        let mut s = self.0.lock().unwrap();
        s.strike_if_due();
        if s.read_error {
            return Err(std::io::Error::new(std::io::ErrorKind::ConnectionReset, "scripted read failure"));
        }
        match s.on_read(buf) {
            Ok(Some(n)) => Ok(n),
            Ok(None) => Err(std::io::Error::new(std::io::ErrorKind::WouldBlock, "no data")),
            Err(()) => Ok(0),
        }
    }
}

impl Write for Transport {
    fn write(&mut self, buf: &[u8]) -> std::io::Result<usize> {
        let mut s = self.0.lock().unwrap();
        s.strike_if_due();
        if s.write_error {
            return Err(std::io::Error::new(std::io::ErrorKind::BrokenPipe, "scripted write failure"));
        }
        match s.on_write(buf) {
            Some(n) => Ok(n),
            None => Err(std::io::Error::new(std::io::ErrorKind::WouldBlock, "busy")),
        }
    }
    fn flush(&mut self) -> std::io::Result<()> {
        Ok(())
    }
}

impl tokio::io::AsyncRead for Transport {
    fn poll_read(self: Pin<&mut Self>, cx: &mut Context<'_>, buf: &mut tokio::io::ReadBuf<'_>) -> Poll<std::io::Result<()>> {
        let mut s = self.0.lock().unwrap();
        s.strike_if_due();
        if s.read_error {
            return Poll::Ready(Err(std::io::Error::new(std::io::ErrorKind::ConnectionReset, "scripted read failure")));
        }
        let mut tmp = vec![0u8; buf.remaining().min(8192)];
        match s.on_read(&mut tmp) {
            Ok(Some(n)) => {
                buf.put_slice(&tmp[..n]);
                Poll::Ready(Ok(()))
            }
            Ok(None) => {
                s.reader_waker = Some(cx.waker().clone());
                Poll::Pending
            }
            Err(()) => Poll::Ready(Ok(())),
        }
    }
}

impl tokio::io::AsyncWrite for Transport {
    fn poll_write(self: Pin<&mut Self>, cx: &mut Context<'_>, buf: &[u8]) -> Poll<std::io::Result<usize>> {
        let mut s = self.0.lock().unwrap();
        s.strike_if_due();
        if s.write_error {
            return Poll::Ready(Err(std::io::Error::new(std::io::ErrorKind::BrokenPipe, "scripted write failure")));
        }
        match s.on_write(buf) {
            Some(n) => {
                if let Some(w) = s.reader_waker.take() {
                    w.wake();
                }
                Poll::Ready(Ok(n))
            }
            None => {
                cx.waker().wake_by_ref();
                Poll::Pending
            }
        }
    }
    fn poll_flush(self: Pin<&mut Self>, _cx: &mut Context<'_>) -> Poll<std::io::Result<()>> {
        Poll::Ready(Ok(()))
    }
    fn poll_shutdown(self: Pin<&mut Self>, _cx: &mut Context<'_>) -> Poll<std::io::Result<()>> {
        Poll::Ready(Ok(()))
    }
}

fn runtime() -> &'static tokio::runtime::Runtime {
    static RT: OnceLock<tokio::runtime::Runtime> = OnceLock::new();
    RT.get_or_init(|| tokio::runtime::Builder::new_multi_thread().worker_threads(6).enable_all().build().expect("tokio runtime"))
}

// ------------------------------------------------------------------------------------------------
// client runs
// ------------------------------------------------------------------------------------------------

#[derive(Clone, Debug, PartialEq, Eq)]
enum Outcome {
    OkPub0,
    OkPub1,
    OkPub2,
    OkSub(usize),
    OkUnsub(usize),
    Err(String),
}

struct OpRec {
    tag: u32,
    op: ROp,
    submitter: usize,
    /// None: no result available at the time of inspection
    outcome: Option<Outcome>,
    submitted_after_close_call: bool,
}

fn payload(tag: u32, size: usize) -> Vec<u8> {
    crate::sim::payload_for(tag, size)
}

fn pub_packet(tag: u32, qos: u8, size: usize) -> PublishPacket {
    PublishPacket::builder(format!("r/{}", tag % 3), crate::sim::qos_of(qos)).with_payload(payload(tag, size)).build()
}

fn sub_packet(tag: u32) -> SubscribePacket {
    SubscribePacket::builder().with_subscription_simple(format!("f/{}/0", tag), QualityOfService::AtLeastOnce).with_subscription_simple(format!("f/{}/1", tag), QualityOfService::AtMostOnce).build()
}

fn unsub_packet(tag: u32) -> UnsubscribePacket {
    UnsubscribePacket::builder().with_topic_filter(format!("f/{}/0", tag)).build()
}

fn conv_pub(r: PublishResult) -> Outcome {
    match r {
        Ok(PublishResponse::Qos0) => Outcome::OkPub0,
        Ok(PublishResponse::Qos1(_)) => Outcome::OkPub1,
        Ok(PublishResponse::Qos2(_)) => Outcome::OkPub2,
        Err(e) => Outcome::Err(format!("{}", e)),
    }
}

fn conv_sub(r: SubscribeResult) -> Outcome {
    match r {
        Ok(s) => Outcome::OkSub(s.reason_codes().len()),
        Err(e) => Outcome::Err(format!("{}", e)),
    }
}

fn conv_unsub(r: UnsubscribeResult) -> Outcome {
    match r {
        Ok(s) => Outcome::OkUnsub(s.reason_codes().len()),
        Err(e) => Outcome::Err(format!("{}", e)),
    }
}

struct Observed {
    connected: Arc<AtomicBool>,
    received: Arc<Mutex<Vec<u32>>>,
    events: Arc<Mutex<Vec<String>>>,
}

fn listener(obs: &Observed) -> Arc<ClientEventListenerCallback> {
    let connected = obs.connected.clone();
    let received = obs.received.clone();
    let events = obs.events.clone();
    Arc::new(move |ev: Arc<ClientEvent>| match &*ev {
        ClientEvent::ConnectionSuccess(_) => {
            connected.store(true, Ordering::SeqCst);
            events.lock().unwrap().push("success".into());
        }
        ClientEvent::PublishReceived(p) => {
            let pl = p.publish.payload().unwrap_or(&[]);
            if pl.len() >= 4 {
                received.lock().unwrap().push(u32::from_be_bytes([pl[0], pl[1], pl[2], pl[3]]));
            }
        }
        ClientEvent::ConnectionAttempt(_) => events.lock().unwrap().push("attempt".into()),
        ClientEvent::ConnectionFailure(_) => events.lock().unwrap().push("failure".into()),
        ClientEvent::Disconnection(_) => events.lock().unwrap().push("disconnection".into()),
        ClientEvent::Stopped(_) => events.lock().unwrap().push("stopped".into()),
        _ => {}
    })
}

fn client_options(v5: bool) -> (MqttClientOptions, ConnectOptions) {
    let mut cb = MqttClientOptions::builder();
    cb.with_protocol_mode(if v5 { ProtocolMode::Mqtt5 } else { ProtocolMode::Mqtt311 });
    cb.with_offline_queue_policy(OfflineQueuePolicy::PreserveAll);
    cb.with_connect_timeout(Duration::from_secs(600));
    cb.with_base_reconnect_period(Duration::from_secs(600));
    cb.with_max_reconnect_period(Duration::from_secs(600));
    let mut conn = ConnectOptions::builder();
    conn.with_keep_alive_interval_seconds(None);
    conn.with_client_id("real");
    (cb.build(), conn.build())
}

fn new_shared(c: &ClientCase) -> Arc<Mutex<Shared>> {
    let version = if c.v5 { rf::Version::V5 } else { rf::Version::V311 };
    let mut inbound = Vec::new();
    for (i, (qos, size)) in c.inbound.iter().enumerate() {
        let tag = 0x8000_0000u32 + i as u32;
        let pkt = rf::Packet::Publish(rf::Publish { qos: *qos % 3, topic: "in/x".into(), pid: if *qos % 3 > 0 { Some(100 + i as u16) } else { None }, payload: payload(tag, *size as usize), ..Default::default() });
        inbound.push(rf::encode(version, &pkt, &rf::EncodeOpts::default()));
    }
    Arc::new(Mutex::new(Shared {
        v5: c.v5,
        rx: Vec::new(),
        parse_off: 0,
        to_client: VecDeque::new(),
        read_frags: c.read_frags.iter().map(|x| *x as usize).collect(),
        read_ix: 0,
        write_plan: c.write_plan.clone(),
        write_ix: 0,
        block_left: 0,
        inbound,
        eof: false,
        reader_waker: None,
        bytes_moved: 0,
        last_activity: Instant::now(),
        write_calls: 0,
        partial_writes: 0,
        blocked_writes: 0,
        read_calls: 0,
        rx_malformed: None,
        fault: None,
        write_error: false,
        read_error: false,
        fault_struck: false,
    }))
}

struct RunResult {
    recs: Vec<OpRec>,
    connected: bool,
    loop_gone: bool,
    harness_note: Option<String>,
    received: Vec<u32>,
    shared: Arc<Mutex<Shared>>,
    stalled: bool,
}

/// waits until `done()` or until the transport has moved no byte for `idle` (a stall), or `cap` has passed
fn wait_progress(shared: &Arc<Mutex<Shared>>, idle: Duration, cap: Duration, mut done: impl FnMut() -> bool) -> (bool, bool) {
    let start = Instant::now();
    loop {
        if done() {
            return (true, false);
        }
        let last = shared.lock().unwrap().last_activity;
        if last.elapsed() > idle && start.elapsed() > idle {
            return (false, true);
        }
        if start.elapsed() > cap {
            return (false, false);
        }
        std::thread::sleep(Duration::from_millis(2));
    }
}

fn spin(n: u16) {
    for i in 0..n {
        std::hint::black_box(i);
        if i % 64 == 63 {
            std::thread::yield_now();
        }
    }
}

fn run_threaded(c: &ClientCase) -> RunResult {
    let shared = new_shared(c);
    let factory_shared = shared.clone();
    let used = Arc::new(AtomicBool::new(false));
    let used2 = used.clone();
    let factory: Arc<dyn Fn() -> GneissResult<Transport> + Send + Sync> = Arc::new(move || {
        if used2.swap(true, Ordering::SeqCst) {
            // only one connection per case; further attempts never come (reconnect period is 10 minutes)
            std::thread::sleep(Duration::from_millis(50));
        }
        Ok(Transport(factory_shared.clone()))
    });
    let (copts, conn) = client_options(c.v5);
    let client = new_threaded_client(copts, conn, ThreadedOptions::builder().build(), factory);
    let obs = Observed { connected: Arc::new(AtomicBool::new(false)), received: Arc::new(Mutex::new(Vec::new())), events: Arc::new(Mutex::new(Vec::new())) };
    let _ = client.start(Some(listener(&obs)));
    let connected = obs.connected.clone();
    let (ok, _) = wait_progress(&shared, Duration::from_secs(10), Duration::from_secs(30), || connected.load(Ordering::SeqCst));
    if !ok {
        let _ = client.close();
        return RunResult { recs: Vec::new(), connected: false, loop_gone: false, harness_note: Some("threaded client did not connect".into()), received: Vec::new(), shared, stalled: false };
    }

    enum Handle {
        P(SyncPublishResult),
        S(SyncSubscribeResult),
        U(SyncUnsubscribeResult),
    }
    let n = c.ops.len();
    let nsub = (c.submitters.max(1) as usize).min(4);
    let (before, spin_before_close, submitter_spin, racing) = match &c.close {
        CloseMode::None => (n, 0u16, 0u16, false),
        CloseMode::Racing { before, spin_before_close, submitter_spin } => ((*before as usize).min(n), *spin_before_close, *submitter_spin, true),
    };
    let close_called = Arc::new(AtomicBool::new(false));
    let handles: Arc<Mutex<Vec<(usize, Handle, bool)>>> = Arc::new(Mutex::new(Vec::new()));
    let submit = |client: &SyncClientHandle, ix: usize, op: &ROp, handles: &Arc<Mutex<Vec<(usize, Handle, bool)>>>, close_called: &Arc<AtomicBool>| {
        let tag = ix as u32 + 1;
        let after = close_called.load(Ordering::SeqCst);
        let h = match op {
            ROp::Pub { qos, size } => Handle::P(client.publish(pub_packet(tag, *qos, *size as usize), None)),
            ROp::Sub => Handle::S(client.subscribe(sub_packet(tag), None)),
            ROp::Unsub => Handle::U(client.unsubscribe(unsub_packet(tag), None)),
        };
        handles.lock().unwrap().push((ix, h, after));
    };
    // phase 1: operations before close, from one thread, in order
    for ix in 0..before {
        submit(&client, ix, &c.ops[ix], &handles, &close_called);
    }
    let mut stalled = false;
    if !racing {
        let h2 = handles.clone();
        let (_ok, st) = wait_progress(&shared, Duration::from_secs(10), Duration::from_secs(60), || {
            // peek without taking: SyncResultReceiver::try_recv takes the value, so count through a side table
            h2.lock().unwrap().is_empty()
        });
        let _ = st;
        // drain results with blocking-free polling
        let mut outcomes: Vec<Option<Outcome>> = (0..n).map(|_| None).collect();
        let (_done, st2) = wait_progress(&shared, Duration::from_secs(10), Duration::from_secs(60), || {
            let hs = handles.lock().unwrap();
            for (ix, h, _) in hs.iter() {
                if outcomes[*ix].is_none() {
                    outcomes[*ix] = match h {
                        Handle::P(r) => r.try_recv().map(conv_pub),
                        Handle::S(r) => r.try_recv().map(conv_sub),
                        Handle::U(r) => r.try_recv().map(conv_unsub),
                    };
                }
            }
            outcomes.iter().all(|o| o.is_some())
        });
        stalled = st2;
        // give the client a moment to flush the acknowledgements of inbound messages
        let expected_inbound = c.inbound.len();
        let rec2 = obs.received.clone();
        let _ = wait_progress(&shared, Duration::from_millis(300), Duration::from_secs(5), || rec2.lock().unwrap().len() >= expected_inbound && false);
        let _ = client.close();
        let (gone, _) = wait_progress(&shared, Duration::from_secs(5), Duration::from_secs(20), || client.start(None).is_err());
        let recs = (0..n).map(|ix| OpRec { tag: ix as u32 + 1, op: c.ops[ix].clone(), submitter: 0, outcome: outcomes[ix].clone(), submitted_after_close_call: false }).collect();
        let received = obs.received.lock().unwrap().clone();
        return RunResult { recs, connected: true, loop_gone: gone, harness_note: None, received, shared, stalled };
    }
    // phase 2 (racing): the remaining operations are submitted from several threads while close() is called
    let rest: Vec<usize> = (before..n).collect();
    let mut threads = Vec::new();
    for s in 0..nsub {
        let mine: Vec<usize> = rest.iter().copied().filter(|ix| ix % nsub == s).collect();
        let client = client.clone();
        let ops = c.ops.clone();
        let handles = handles.clone();
        let close_called = close_called.clone();
        threads.push(std::thread::spawn(move || {
            for ix in mine {
                spin(submitter_spin);
                let tag = ix as u32 + 1;
                let after = close_called.load(Ordering::SeqCst);
                let h = match &ops[ix] {
                    ROp::Pub { qos, size } => Handle::P(client.publish(pub_packet(tag, *qos, *size as usize), None)),
                    ROp::Sub => Handle::S(client.subscribe(sub_packet(tag), None)),
                    ROp::Unsub => Handle::U(client.unsubscribe(unsub_packet(tag), None)),
                };
                handles.lock().unwrap().push((ix, h, after));
            }
        }));
    }
    spin(spin_before_close);
    close_called.store(true, Ordering::SeqCst);
    let _ = client.close();
    for t in threads {
        let _ = t.join();
    }
    let (gone, _) = wait_progress(&shared, Duration::from_secs(5), Duration::from_secs(20), || client.start(None).is_err());
    // The loop has dropped its receiver (start() fails).  std's channel reports the disconnection to senders *before*
    // it destroys the messages that were still queued, so the results of discarded operations may arrive a few
    // microseconds later: the receivers get a bounded chance (no transport activity is needed for it, exactly like
    // the polling tasks of the tokio variant); a result that is still missing after that never comes
    let hs = handles.lock().unwrap();
    let mut outs: Vec<Option<Outcome>> = hs.iter().map(|_| None).collect();
    let grace = Instant::now();
    loop {
        for (k, (_, h, _)) in hs.iter().enumerate() {
            if outs[k].is_none() {
                outs[k] = match h {
                    Handle::P(r) => r.try_recv().map(conv_pub),
                    Handle::S(r) => r.try_recv().map(conv_sub),
                    Handle::U(r) => r.try_recv().map(conv_unsub),
                };
            }
        }
        if outs.iter().all(|o| o.is_some()) || grace.elapsed() > Duration::from_secs(10) {
            break;
        }
        std::thread::sleep(Duration::from_millis(1));
    }
    let mut recs: Vec<OpRec> = Vec::new();
    for (k, (ix, _, after)) in hs.iter().enumerate() {
        recs.push(OpRec { tag: *ix as u32 + 1, op: c.ops[*ix].clone(), submitter: ix % nsub, outcome: outs[k].clone(), submitted_after_close_call: *after });
    }
    recs.sort_by_key(|r| r.tag);
    let received = obs.received.lock().unwrap().clone();
    RunResult { recs, connected: true, loop_gone: gone, harness_note: None, received, shared: shared.clone(), stalled }
}

fn run_tokio(c: &ClientCase) -> RunResult {
    let rt = runtime();
    let shared = new_shared(c);
    let factory_shared = shared.clone();
    let used = Arc::new(AtomicBool::new(false));
    type Fut = Pin<Box<dyn std::future::Future<Output = GneissResult<Transport>> + Send>>;
    let factory: Box<dyn Fn() -> Fut + Send + Sync> = Box::new(move || {
        let s = factory_shared.clone();
        let again = used.swap(true, Ordering::SeqCst);
        Box::pin(async move {
            if again {
                tokio::time::sleep(Duration::from_millis(50)).await;
            }
            Ok(Transport(s))
        })
    });
    let (copts, conn) = client_options(c.v5);
    let client = {
        let _g = rt.enter();
        new_tokio_client(copts, conn, TokioOptions::builder(rt.handle().clone()).build(), factory)
    };
    let obs = Observed { connected: Arc::new(AtomicBool::new(false)), received: Arc::new(Mutex::new(Vec::new())), events: Arc::new(Mutex::new(Vec::new())) };
    let _ = client.start(Some(listener(&obs)));
    let connected = obs.connected.clone();
    let (ok, _) = wait_progress(&shared, Duration::from_secs(10), Duration::from_secs(30), || connected.load(Ordering::SeqCst));
    if !ok {
        let _ = client.close();
        return RunResult { recs: Vec::new(), connected: false, loop_gone: false, harness_note: Some("tokio client did not connect".into()), received: Vec::new(), shared, stalled: false };
    }
    let n = c.ops.len();
    let nsub = (c.submitters.max(1) as usize).min(4);
    let (before, spin_before_close, submitter_spin, racing) = match &c.close {
        CloseMode::None => (n, 0u16, 0u16, false),
        CloseMode::Racing { before, spin_before_close, submitter_spin } => ((*before as usize).min(n), *spin_before_close, *submitter_spin, true),
    };
    // every result future is driven by a task that stores the outcome; "ready at the instant the loop is gone" is then
    // observable as "the slot is filled shortly after": the task only needs one poll once the future is ready
    let outcomes: Arc<Mutex<Vec<Option<Outcome>>>> = Arc::new(Mutex::new((0..n).map(|_| None).collect()));
    let after_flags: Arc<Mutex<Vec<bool>>> = Arc::new(Mutex::new(vec![false; n]));
    let close_called = Arc::new(AtomicBool::new(false));
    let pending_tasks = Arc::new(AtomicU64::new(0));
    let submit = {
        let outcomes = outcomes.clone();
        let after_flags = after_flags.clone();
        let close_called = close_called.clone();
        let pending_tasks = pending_tasks.clone();
        let handle = rt.handle().clone();
        move |client: &AsyncClientHandle, ix: usize, op: &ROp| {
            let tag = ix as u32 + 1;
            after_flags.lock().unwrap()[ix] = close_called.load(Ordering::SeqCst);
            let outcomes = outcomes.clone();
            let pending = pending_tasks.clone();
            pending.fetch_add(1, Ordering::SeqCst);
            match op {
                ROp::Pub { qos, size } => {
                    let f = client.publish(pub_packet(tag, *qos, *size as usize), None);
                    handle.spawn(async move {
                        let r = conv_pub(f.await);
                        outcomes.lock().unwrap()[ix] = Some(r);
                        pending.fetch_sub(1, Ordering::SeqCst);
                    });
                }
                ROp::Sub => {
                    let f = client.subscribe(sub_packet(tag), None);
                    handle.spawn(async move {
                        let r = conv_sub(f.await);
                        outcomes.lock().unwrap()[ix] = Some(r);
                        pending.fetch_sub(1, Ordering::SeqCst);
                    });
                }
                ROp::Unsub => {
                    let f = client.unsubscribe(unsub_packet(tag), None);
                    handle.spawn(async move {
                        let r = conv_unsub(f.await);
                        outcomes.lock().unwrap()[ix] = Some(r);
                        pending.fetch_sub(1, Ordering::SeqCst);
                    });
                }
            }
        }
    };
    for ix in 0..before {
        submit(&client, ix, &c.ops[ix]);
    }
    let mut stalled = false;
    if !racing {
        let o2 = outcomes.clone();
        let (_done, st) = wait_progress(&shared, Duration::from_secs(10), Duration::from_secs(60), || o2.lock().unwrap().iter().all(|o| o.is_some()));
        stalled = st;
        let _ = wait_progress(&shared, Duration::from_millis(300), Duration::from_secs(5), || false);
        let _ = client.close();
        let (gone, _) = wait_progress(&shared, Duration::from_secs(5), Duration::from_secs(20), || client.start(None).is_err());
        let outs = outcomes.lock().unwrap().clone();
        let recs = (0..n).map(|ix| OpRec { tag: ix as u32 + 1, op: c.ops[ix].clone(), submitter: 0, outcome: outs[ix].clone(), submitted_after_close_call: false }).collect();
        let received = obs.received.lock().unwrap().clone();
        return RunResult { recs, connected: true, loop_gone: gone, harness_note: None, received, shared, stalled };
    }
    let rest: Vec<usize> = (before..n).collect();
    let mut threads = Vec::new();
    for s in 0..nsub {
        let mine: Vec<usize> = rest.iter().copied().filter(|ix| ix % nsub == s).collect();
        let client = client.clone();
        let ops = c.ops.clone();
        let submit = submit.clone();
        threads.push(std::thread::spawn(move || {
            for ix in mine {
                spin(submitter_spin);
                submit(&client, ix, &ops[ix]);
            }
        }));
    }
    spin(spin_before_close);
    close_called.store(true, Ordering::SeqCst);
    let _ = client.close();
    for t in threads {
        let _ = t.join();
    }
    let (gone, _) = wait_progress(&shared, Duration::from_secs(5), Duration::from_secs(20), || client.start(None).is_err());
    // the loop is gone: every future is ready now; give the polling tasks a bounded chance to run (no transport activity is needed)
    let o2 = outcomes.clone();
    let start = Instant::now();
    while start.elapsed() < Duration::from_secs(10) {
        if o2.lock().unwrap().iter().all(|o| o.is_some()) {
            break;
        }
        std::thread::sleep(Duration::from_millis(2));
    }
    let outs = outcomes.lock().unwrap().clone();
    let flags = after_flags.lock().unwrap().clone();
    let recs = (0..n).map(|ix| OpRec { tag: ix as u32 + 1, op: c.ops[ix].clone(), submitter: ix % nsub, outcome: outs[ix].clone(), submitted_after_close_call: flags[ix] }).collect();
    let received = obs.received.lock().unwrap().clone();
    RunResult { recs, connected: true, loop_gone: gone, harness_note: None, received, shared, stalled }
}

fn check_client(c: &ClientCase) -> CaseReport {
    let r = if c.tokio { run_tokio(c) } else { run_threaded(c) };
    let mut violations = Vec::new();
    let driver = if c.tokio { "tokio" } else { "threaded" };
    let mut labels: Vec<String> = vec![format!("driver:{}", driver)];
    if !r.connected {
        return CaseReport { labels, inconclusive: true, ..Default::default() };
    }
    let s = r.shared.lock().unwrap();
    let racing = !matches!(c.close, CloseMode::None);
    // (c) every operation has exactly one result
    if !r.loop_gone {
        violations.push(Violation::new("C13.close_never_completes", format!("{}: the event loop is still alive 20 s after close()", driver), String::new()));
    }
    for rec in &r.recs {
        if rec.outcome.is_none() {
            if racing {
                violations.push(Violation::new(
                    "C13.result_missing_after_close",
                    format!("{}: an operation submitted around close() never receives a result although the event loop has exited", driver),
                    format!("tag {} op {:?} submitted_after_close_call={}", rec.tag, rec.op, rec.submitted_after_close_call),
                ));
            } else if r.stalled {
                violations.push(Violation::new("C13.result_missing", format!("{}: an operation never completes although the broker answered everything it received (transport idle)", driver), format!("tag {} op {:?}; bytes received by transport {}", rec.tag, rec.op, s.rx.len())));
            }
            break;
        }
    }
    if !racing {
        for rec in &r.recs {
            let ok = match (&rec.op, &rec.outcome) {
                (ROp::Pub { qos: 0, .. }, Some(Outcome::OkPub0)) => true,
                (ROp::Pub { qos: 1, .. }, Some(Outcome::OkPub1)) => true,
                (ROp::Pub { qos: 2, .. }, Some(Outcome::OkPub2)) => true,
                (ROp::Sub, Some(Outcome::OkSub(2))) => true,
                (ROp::Unsub, Some(Outcome::OkUnsub(1))) => true,
                (_, None) => true, // reported above
                _ => false,
            };
            if !ok {
                violations.push(Violation::new("C13.wrong_result", format!("{}: an operation completes with an unexpected result on a healthy connection", driver), format!("tag {} op {:?} outcome {:?}", rec.tag, rec.op, rec.outcome)));
                break;
            }
        }
        // (a) the byte stream the transport received
        if let Some(m) = &s.rx_malformed {
            violations.push(Violation::new("C13.stream_corrupt", format!("{}: the bytes handed to the transport are not the packets the engine produced (reference decoder: {})", driver, m.chars().map(|ch| if ch.is_ascii_digit() { '#' } else { ch }).take(80).collect::<String>()), format!("at offset {} of {}", s.parse_off, s.rx.len())));
        } else {
            let version = if c.v5 { rf::Version::V5 } else { rf::Version::V311 };
            let mut off = 0;
            let mut seq: Vec<(u8, u32)> = Vec::new();
            let mut trailing = false;
            while off < s.rx.len() {
                match rf::decode(version, rf::Direction::ClientToServer, &s.rx[off..]) {
                    Ok((p, used)) => {
                        off += used;
                        if let Some(t) = crate::sim::tag_of_packet(&p) {
                            match &p {
                                rf::Packet::Publish(pp) => {
                                    // content intact
                                    let size = match c.ops.get((t as usize).wrapping_sub(1)) {
                                        Some(ROp::Pub { size, .. }) => Some(*size as usize),
                                        _ => None,
                                    };
                                    if let Some(sz) = size {
                                        if pp.payload != payload(t, sz) {
                                            violations.push(Violation::new("C13.payload_corrupt", format!("{}: a PUBLISH payload arrives altered", driver), format!("tag {}", t)));
                                        }
                                    }
                                    seq.push((3, t));
                                }
                                rf::Packet::Subscribe(_) => seq.push((8, t)),
                                rf::Packet::Unsubscribe(_) => seq.push((10, t)),
                                _ => {}
                            }
                        }
                    }
                    Err(rf::DecodeError::Incomplete) => {
                        trailing = true;
                        break;
                    }
                    Err(rf::DecodeError::Malformed(_)) => break,
                }
            }
            if trailing && !r.stalled {
                violations.push(Violation::new("C13.stream_truncated", format!("{}: the transport received an incomplete packet although every operation completed", driver), format!("{} bytes", s.rx.len())));
            }
            let expected: Vec<(u8, u32)> = c
                .ops
                .iter()
                .enumerate()
                .map(|(i, op)| {
                    (
                        match op {
                            ROp::Pub { .. } => 3u8,
                            ROp::Sub => 8,
                            ROp::Unsub => 10,
                        },
                        i as u32 + 1,
                    )
                })
                .collect();
            if seq != expected && !r.stalled {
                let sig = if seq.len() > expected.len() { "operations duplicated on the wire" } else if seq.len() < expected.len() { "operations missing from the wire" } else { "operations reordered on the wire" };
                violations.push(Violation::new("C13.stream_sequence", format!("{}: {}", driver, sig), format!("expected {:?} got {:?}", expected, seq)));
            }
        }
        // (b) inbound bytes reach the engine in order
        let exp_in: Vec<u32> = (0..c.inbound.len()).map(|i| 0x8000_0000u32 + i as u32).collect();
        // the tokio client runs every listener invocation as a task of its own, so the ORDER in which the application
        // sees events is up to the runtime; the bytes reach the engine in order either way. Order is asserted for the
        // threaded client (synchronous callbacks), exactly-once for both.
        let mut got_in = r.received.clone();
        if c.tokio {
            got_in.sort();
        }
        if got_in != exp_in {
            violations.push(Violation::new("C13.inbound_sequence", format!("{}: inbound messages are not surfaced exactly once in wire order", driver), format!("expected {:x?} got {:x?}", exp_in, r.received)));
        }
    }
    if s.partial_writes >= 3 {
        labels.push("partial_writes>=3".into());
    }
    if s.blocked_writes > 0 {
        labels.push("write_would_block".into());
    }
    if c.read_frags.iter().any(|f| *f <= 2) && !c.read_frags.is_empty() {
        labels.push("tiny_read_fragments".into());
    }
    if racing {
        labels.push("submit_around_close".into());
        if r.recs.iter().any(|x| matches!(&x.outcome, Some(Outcome::Err(_)))) {
            labels.push("failed_by_close".into());
        }
        if r.recs.iter().any(|x| x.submitted_after_close_call) {
            labels.push("submitted_after_close_call".into());
        }
    }
    if c.submitters > 1 && racing {
        labels.push("several_submitters".into());
    }
    if r.stalled {
        labels.push("stalled".into());
    }
    let nontrivial = s.partial_writes >= 3 || racing || (s.blocked_writes > 0 && !c.ops.is_empty());
    let digest = hash_str(&format!("{:?}", c));
    let sample = json!({"driver": driver, "v5": c.v5, "ops": c.ops.len(), "write_plan": format!("{:?}", c.write_plan), "read_fragments": format!("{:?}", c.read_frags), "close": format!("{:?}", c.close), "bytes_to_transport": s.rx.len(), "write_calls": s.write_calls, "partial_writes": s.partial_writes, "blocked_writes": s.blocked_writes, "outcomes": r.recs.iter().take(12).map(|x| format!("{:?}", x.outcome)).collect::<Vec<_>>()});
    CaseReport { violations, labels, nontrivial, digest, sample: Some(sample), counters: vec![("transport_write_calls".into(), s.write_calls), ("partial_writes".into(), s.partial_writes)], inconclusive: r.harness_note.is_some(), ..Default::default() }
}

// ------------------------------------------------------------------------------------------------
// transport faults and reconnects
// ------------------------------------------------------------------------------------------------

fn fault_client_options(v5: bool) -> (MqttClientOptions, ConnectOptions) {
    let mut cb = MqttClientOptions::builder();
    cb.with_protocol_mode(if v5 { ProtocolMode::Mqtt5 } else { ProtocolMode::Mqtt311 });
    cb.with_offline_queue_policy(OfflineQueuePolicy::PreserveAll);
    cb.with_connect_timeout(Duration::from_secs(600));
    cb.with_base_reconnect_period(Duration::from_millis(2));
    cb.with_max_reconnect_period(Duration::from_secs(1));
    cb.with_reconnect_period_jitter(ExponentialBackoffJitterType::None);
    let mut conn = ConnectOptions::builder();
    conn.with_keep_alive_interval_seconds(None);
    conn.with_client_id("faulty");
    (cb.build(), conn.build())
}

struct FaultRun {
    events: Vec<String>,
    conns: Vec<Arc<Mutex<Shared>>>,
    outcomes: Vec<Option<Outcome>>,
    loop_gone: bool,
    stalled: bool,
}

fn fault_new_conn(c: &FaultCase, conns: &Arc<Mutex<Vec<Arc<Mutex<Shared>>>>>) -> Arc<Mutex<Shared>> {
    let tmp = ClientCase { tokio: c.tokio, v5: c.v5, write_plan: c.write_plan.clone(), read_frags: c.read_frags.clone(), ops: Vec::new(), inbound: Vec::new(), submitters: 1, close: CloseMode::None };
    let sh = new_shared(&tmp);
    let mut list = conns.lock().unwrap();
    if let Some((f, k)) = c.faults.get(list.len()) {
        sh.lock().unwrap().fault = Some((f.clone(), *k as usize));
    }
    list.push(sh.clone());
    sh
}

/// waits until `done()`, or until no connection has moved a byte (and none was opened) for `idle`
fn fault_wait(conns: &Arc<Mutex<Vec<Arc<Mutex<Shared>>>>>, idle: Duration, cap: Duration, mut done: impl FnMut() -> bool) -> (bool, bool) {
    let start = Instant::now();
    let mut last_sig = (0usize, 0u64);
    let mut last_change = Instant::now();
    loop {
        if done() {
            return (true, false);
        }
        let sig = {
            let l = conns.lock().unwrap();
            (l.len(), l.iter().map(|s| s.lock().unwrap().bytes_moved).sum::<u64>())
        };
        if sig != last_sig {
            last_sig = sig;
            last_change = Instant::now();
        }
        if last_change.elapsed() > idle {
            return (false, true);
        }
        if start.elapsed() > cap {
            return (false, false);
        }
        std::thread::sleep(Duration::from_millis(2));
    }
}

fn run_faulty_threaded(c: &FaultCase) -> FaultRun {
    let conns: Arc<Mutex<Vec<Arc<Mutex<Shared>>>>> = Arc::new(Mutex::new(Vec::new()));
    let conns2 = conns.clone();
    let c2 = c.clone();
    let factory: Arc<dyn Fn() -> GneissResult<Transport> + Send + Sync> = Arc::new(move || Ok(Transport(fault_new_conn(&c2, &conns2))));
    let (copts, conn) = fault_client_options(c.v5);
    let client = new_threaded_client(copts, conn, ThreadedOptions::builder().build(), factory);
    let obs = Observed { connected: Arc::new(AtomicBool::new(false)), received: Arc::new(Mutex::new(Vec::new())), events: Arc::new(Mutex::new(Vec::new())) };
    let _ = client.start(Some(listener(&obs)));
    enum Handle {
        P(SyncPublishResult),
        S(SyncSubscribeResult),
        U(SyncUnsubscribeResult),
    }
    let n = c.ops.len();
    let mut handles = Vec::new();
    for (ix, op) in c.ops.iter().enumerate() {
        let tag = ix as u32 + 1;
        handles.push(match op {
            ROp::Pub { qos, size } => Handle::P(client.publish(pub_packet(tag, *qos, *size as usize), None)),
            ROp::Sub => Handle::S(client.subscribe(sub_packet(tag), None)),
            ROp::Unsub => Handle::U(client.unsubscribe(unsub_packet(tag), None)),
        });
    }
    let mut outcomes: Vec<Option<Outcome>> = (0..n).map(|_| None).collect();
    let (_done, stalled) = fault_wait(&conns, Duration::from_secs(10), Duration::from_secs(90), || {
        for (ix, h) in handles.iter().enumerate() {
            if outcomes[ix].is_none() {
                outcomes[ix] = match h {
                    Handle::P(r) => r.try_recv().map(conv_pub),
                    Handle::S(r) => r.try_recv().map(conv_sub),
                    Handle::U(r) => r.try_recv().map(conv_unsub),
                };
            }
        }
        outcomes.iter().all(|o| o.is_some())
    });
    let _ = client.close();
    let (gone, _) = fault_wait(&conns, Duration::from_secs(5), Duration::from_secs(20), || client.start(None).is_err());
    let list = conns.lock().unwrap().clone();
    let events = obs.events.lock().unwrap().clone();
    FaultRun { events, conns: list, outcomes, loop_gone: gone, stalled }
}

fn run_faulty_tokio(c: &FaultCase) -> FaultRun {
    let rt = runtime();
    let conns: Arc<Mutex<Vec<Arc<Mutex<Shared>>>>> = Arc::new(Mutex::new(Vec::new()));
    let conns2 = conns.clone();
    let c2 = c.clone();
    type Fut = Pin<Box<dyn std::future::Future<Output = GneissResult<Transport>> + Send>>;
    let factory: Box<dyn Fn() -> Fut + Send + Sync> = Box::new(move || {
        let sh = fault_new_conn(&c2, &conns2);
        Box::pin(async move { Ok(Transport(sh)) })
    });
    let (copts, conn) = fault_client_options(c.v5);
    let client = {
        let _g = rt.enter();
        new_tokio_client(copts, conn, TokioOptions::builder(rt.handle().clone()).build(), factory)
    };
    let obs = Observed { connected: Arc::new(AtomicBool::new(false)), received: Arc::new(Mutex::new(Vec::new())), events: Arc::new(Mutex::new(Vec::new())) };
    let _ = client.start(Some(listener(&obs)));
    let n = c.ops.len();
    let outcomes: Arc<Mutex<Vec<Option<Outcome>>>> = Arc::new(Mutex::new((0..n).map(|_| None).collect()));
    for (ix, op) in c.ops.iter().enumerate() {
        let tag = ix as u32 + 1;
        let outcomes = outcomes.clone();
        match op {
            ROp::Pub { qos, size } => {
                let f = client.publish(pub_packet(tag, *qos, *size as usize), None);
                rt.spawn(async move {
                    let r = conv_pub(f.await);
                    outcomes.lock().unwrap()[ix] = Some(r);
                });
            }
            ROp::Sub => {
                let f = client.subscribe(sub_packet(tag), None);
                rt.spawn(async move {
                    let r = conv_sub(f.await);
                    outcomes.lock().unwrap()[ix] = Some(r);
                });
            }
            ROp::Unsub => {
                let f = client.unsubscribe(unsub_packet(tag), None);
                rt.spawn(async move {
                    let r = conv_unsub(f.await);
                    outcomes.lock().unwrap()[ix] = Some(r);
                });
            }
        }
    }
    let o2 = outcomes.clone();
    let (_done, stalled) = fault_wait(&conns, Duration::from_secs(10), Duration::from_secs(90), || o2.lock().unwrap().iter().all(|o| o.is_some()));
    let _ = client.close();
    let (gone, _) = fault_wait(&conns, Duration::from_secs(5), Duration::from_secs(20), || client.start(None).is_err());
    let outs = outcomes.lock().unwrap().clone();
    let list = conns.lock().unwrap().clone();
    // the tokio client runs every listener invocation as a task of its own: give the last ones a moment
    std::thread::sleep(Duration::from_millis(20));
    let events = obs.events.lock().unwrap().clone();
    FaultRun { events, conns: list, outcomes: outs, loop_gone: gone, stalled }
}

fn check_faulty(c: &FaultCase) -> CaseReport {
    let r = if c.tokio { run_faulty_tokio(c) } else { run_faulty_threaded(c) };
    let driver = if c.tokio { "tokio" } else { "threaded" };
    let mut violations = Vec::new();
    let mut labels: Vec<String> = vec![format!("driver:{}", driver), "transport_faults".into()];
    let version = if c.v5 { rf::Version::V5 } else { rf::Version::V311 };
    if r.conns.is_empty() {
        return CaseReport { labels, inconclusive: true, ..Default::default() };
    }
    if !r.loop_gone {
        violations.push(Violation::new("C13.close_never_completes", format!("{}: the event loop is still alive 20 s after close()", driver), String::new()));
    }
    // the connection that was never given a fault is healthy: with a responsive broker behind it and the
    // preserve-everything offline policy every operation completes successfully there
    let healthy_reached = r.conns.len() > c.faults.len();
    let mut missing = 0;
    for (ix, o) in r.outcomes.iter().enumerate() {
        match (o, &c.ops[ix]) {
            (None, _) => missing += 1,
            (Some(Outcome::OkPub0), ROp::Pub { qos: 0, .. }) | (Some(Outcome::OkPub1), ROp::Pub { qos: 1, .. }) | (Some(Outcome::OkPub2), ROp::Pub { qos: 2, .. }) | (Some(Outcome::OkSub(2)), ROp::Sub) | (Some(Outcome::OkUnsub(1)), ROp::Unsub) => {}
            (Some(other), op) => {
                violations.push(Violation::new("C13.wrong_result_after_faults", format!("{}: an operation that the offline policy preserves does not complete successfully after transport faults and a reconnect", driver), format!("tag {} op {:?} outcome {:?} faults {:?}", ix + 1, op, other, c.faults)));
                break;
            }
        }
    }
    if missing > 0 && r.stalled {
        violations.push(Violation::new("C13.result_missing_after_faults", format!("{}: operations never complete although the transport is idle and a healthy connection with a responsive broker was available", driver), format!("{} of {} unresolved; connections {} faults {:?}", missing, c.ops.len(), r.conns.len(), c.faults)));
    }
    // lifecycle events of the real client (second witness for the event-stream clause of C12, reported under C13's
    // rig): counts for both drivers, order only for the threaded client (the tokio client runs every listener
    // invocation as a task of its own, so the order in which the application sees events is up to the runtime)
    {
        let count = |k: &str| r.events.iter().filter(|e| e.as_str() == k).count();
        let (att, suc, fai, dis) = (count("attempt"), count("success"), count("failure"), count("disconnection"));
        if suc + fai > att || dis > suc || att > r.conns.len() + 1 {
            violations.push(Violation::new("C13.lifecycle_counts", format!("{}: lifecycle events do not add up (every attempt has at most one outcome, every disconnection follows a success)", driver), format!("attempts {} successes {} failures {} disconnections {} transports opened {}; {:?}", att, suc, fai, dis, r.conns.len(), r.events)));
        }
        if !c.tokio {
            // 0 idle, 1 attempting, 2 up
            let mut st = 0;
            for (i, e) in r.events.iter().enumerate() {
                let ok = match (st, e.as_str()) {
                    (0, "attempt") => {
                        st = 1;
                        true
                    }
                    (1, "failure") => {
                        st = 0;
                        true
                    }
                    (1, "success") => {
                        st = 2;
                        true
                    }
                    (2, "disconnection") => {
                        st = 0;
                        true
                    }
                    (0, "stopped") => true,
                    _ => false,
                };
                if !ok {
                    violations.push(Violation::new("C13.lifecycle_order", "threaded: the event stream is not (attempt (failure | success disconnection))*", format!("event #{} in {:?}", i, r.events)));
                    break;
                }
            }
        }
    }
    // per connection: what the transport received
    let mut seen_complete: BTreeSet<u32> = BTreeSet::new();
    let mut struck_after_connack = false;
    let mut struck_mid_packet = false;
    for (ci, sh) in r.conns.iter().enumerate() {
        let s = sh.lock().unwrap();
        let faulted = ci < c.faults.len();
        if let Some(m) = &s.rx_malformed {
            violations.push(Violation::new("C13.stream_corrupt", format!("{}: the bytes handed to the transport are not the packets the engine produced (reference decoder: {})", driver, m.chars().map(|ch| if ch.is_ascii_digit() { '#' } else { ch }).take(80).collect::<String>()), format!("connection {} at offset {} of {}", ci, s.parse_off, s.rx.len())));
            continue;
        }
        let mut off = 0;
        let mut first = true;
        let mut tags_here: BTreeSet<(u8, u32)> = BTreeSet::new();
        let mut trailing = false;
        while off < s.rx.len() {
            match rf::decode(version, rf::Direction::ClientToServer, &s.rx[off..]) {
                Ok((p, used)) => {
                    off += used;
                    if first && !matches!(p, rf::Packet::Connect(_)) {
                        violations.push(Violation::new("C13.connection_does_not_start_with_connect", format!("{}: a new connection's byte stream does not start with the CONNECT the engine produced for it (stale bytes of an earlier connection?)", driver), format!("connection {} first packet {:?}", ci, std::mem::discriminant(&p))));
                    }
                    if !first && matches!(p, rf::Packet::Connect(_)) {
                        violations.push(Violation::new("C13.stream_sequence", format!("{}: CONNECT repeated within one connection", driver), format!("connection {}", ci)));
                    }
                    first = false;
                    if let Some(t) = crate::sim::tag_of_packet(&p) {
                        let code = match &p {
                            rf::Packet::Publish(pp) => {
                                if let Some(ROp::Pub { size, .. }) = c.ops.get((t as usize).wrapping_sub(1)) {
                                    if pp.payload != payload(t, *size as usize) {
                                        violations.push(Violation::new("C13.payload_corrupt", format!("{}: a PUBLISH payload arrives altered", driver), format!("tag {} connection {}", t, ci)));
                                    }
                                }
                                3u8
                            }
                            rf::Packet::Subscribe(_) => 8,
                            rf::Packet::Unsubscribe(_) => 10,
                            _ => 0,
                        };
                        if code != 0 {
                            if !tags_here.insert((code, t)) {
                                violations.push(Violation::new("C13.stream_sequence", format!("{}: operations duplicated on the wire", driver), format!("tag {} twice on connection {}", t, ci)));
                            }
                            seen_complete.insert(t);
                        }
                    }
                }
                Err(rf::DecodeError::Incomplete) => {
                    trailing = true;
                    break;
                }
                Err(rf::DecodeError::Malformed(m)) => {
                    violations.push(Violation::new("C13.stream_corrupt", format!("{}: the bytes handed to the transport are not the packets the engine produced (reference decoder: {})", driver, m.chars().map(|ch| if ch.is_ascii_digit() { '#' } else { ch }).take(80).collect::<String>()), format!("connection {} at offset {} of {}", ci, off, s.rx.len())));
                    break;
                }
            }
        }
        if trailing && !faulted && !r.stalled && missing == 0 {
            violations.push(Violation::new("C13.stream_truncated", format!("{}: the transport received an incomplete packet although every operation completed", driver), format!("connection {} {} bytes", ci, s.rx.len())));
        }
        if faulted && s.fault_struck {
            if trailing {
                struck_mid_packet = true;
            }
            if tags_here.len() > 0 || s.parse_off > 0 && s.rx.len() > 40 {
                struck_after_connack = true;
            }
        }
    }
    // nothing lost: an operation reported successful was received completely on some connection
    if violations.is_empty() {
        for (ix, o) in r.outcomes.iter().enumerate() {
            if matches!(o, Some(Outcome::OkPub0 | Outcome::OkPub1 | Outcome::OkPub2 | Outcome::OkSub(_) | Outcome::OkUnsub(_))) && !seen_complete.contains(&(ix as u32 + 1)) {
                violations.push(Violation::new("C13.reported_but_never_sent", format!("{}: an operation is reported successful although the transport never received its packet completely", driver), format!("tag {} op {:?}", ix + 1, c.ops[ix])));
                break;
            }
        }
    }
    if r.conns.len() > c.faults.len() + 1 && violations.is_empty() {
        violations.push(Violation::new("C13.unexpected_reconnect", format!("{}: the client dropped a connection whose transport never failed", driver), format!("{} connections for {} scripted faults", r.conns.len(), c.faults.len())));
    }
    if struck_after_connack {
        labels.push("fault_after_handshake".into());
    }
    if struck_mid_packet {
        labels.push("fault_mid_packet".into());
    }
    if r.conns.len() >= 3 {
        labels.push("connections>=3".into());
    }
    if healthy_reached {
        labels.push("healthy_connection_reached".into());
    }
    if r.stalled {
        labels.push("stalled".into());
    }
    let nontrivial = struck_after_connack || struck_mid_packet || r.conns.len() >= 3;
    let digest = hash_str(&format!("{:?}", c));
    let sample = json!({"kind": "transport_faults", "driver": driver, "v5": c.v5, "ops": c.ops.len(), "faults": format!("{:?}", c.faults), "connections": r.conns.len(), "bytes_per_connection": r.conns.iter().map(|s| s.lock().unwrap().rx.len()).collect::<Vec<_>>(), "outcomes": r.outcomes.iter().take(12).map(|x| format!("{:?}", x)).collect::<Vec<_>>()});
    CaseReport { violations, labels, nontrivial, digest, sample: Some(sample), inconclusive: missing > 0 && !r.stalled, ..Default::default() }
}

// ------------------------------------------------------------------------------------------------
// real reconnect waits (second witness for C19: the wait the DRIVER really makes, not the one the client computes)
// ------------------------------------------------------------------------------------------------

/// A real client whose connection factory refuses every connection and records the instant of every attempt, while
/// the application keeps submitting operations every `op_interval_ms` (the drivers must not let user traffic stretch
/// or restart the back-off wait).  Without jitter the k-th wait is min(base*2^k, max) exactly, so the gap between
/// attempts k and k+1 must not be shorter than 0.8x and not longer than 3x + 250 ms of it.  The run is judged only
/// if the harness itself was scheduled promptly (a 1 ms ticker never overslept by more than 120 ms); otherwise, or if
/// the observation window runs out on an unresponsive machine, the case is inconclusive.
pub fn reconnect_gap_witness(tokio_driver: bool, base_ms: u64, op_interval_ms: u64) -> CaseReport {
    let driver = if tokio_driver { "tokio" } else { "threaded" };
    let attempts: Arc<Mutex<Vec<Instant>>> = Arc::new(Mutex::new(Vec::new()));
    let mut cb = MqttClientOptions::builder();
    cb.with_offline_queue_policy(OfflineQueuePolicy::PreserveAll);
    cb.with_connect_timeout(Duration::from_secs(600));
    cb.with_base_reconnect_period(Duration::from_millis(base_ms));
    cb.with_max_reconnect_period(Duration::from_secs(1));
    cb.with_reconnect_period_jitter(ExponentialBackoffJitterType::None);
    let mut conn = ConnectOptions::builder();
    conn.with_keep_alive_interval_seconds(None);
    conn.with_client_id("gaps");
    let waits: Vec<u64> = (0..4u32).map(|k| (base_ms << k).min(1000)).collect();
    let window = Duration::from_millis(waits.iter().sum::<u64>() * 3 + 1500);
    let stop = Arc::new(AtomicBool::new(false));
    // responsiveness monitor
    let worst_oversleep = Arc::new(AtomicU64::new(0));
    let mon = {
        let stop = stop.clone();
        let worst = worst_oversleep.clone();
        std::thread::spawn(move || {
            while !stop.load(Ordering::SeqCst) {
                let t = Instant::now();
                std::thread::sleep(Duration::from_millis(1));
                let over = t.elapsed().as_millis() as u64;
                worst.fetch_max(over, Ordering::SeqCst);
            }
        })
    };
    let refuse = || GneissError::new_std_io_error(std::io::Error::new(std::io::ErrorKind::ConnectionRefused, "scripted refusal"));
    let mut submitted = 0u64;
    let started = Instant::now();
    let enough = |a: &Arc<Mutex<Vec<Instant>>>| a.lock().unwrap().len() >= 5;
    if tokio_driver {
        let rt = runtime();
        let a2 = attempts.clone();
        type Fut = Pin<Box<dyn std::future::Future<Output = GneissResult<Transport>> + Send>>;
        let factory: Box<dyn Fn() -> Fut + Send + Sync> = Box::new(move || {
            a2.lock().unwrap().push(Instant::now());
            Box::pin(async move { Err(GneissError::new_std_io_error(std::io::Error::new(std::io::ErrorKind::ConnectionRefused, "scripted refusal"))) })
        });
        let client = {
            let _g = rt.enter();
            new_tokio_client(cb.build(), conn.build(), TokioOptions::builder(rt.handle().clone()).build(), factory)
        };
        let _ = client.start(None);
        while started.elapsed() < window && !enough(&attempts) {
            let f = client.publish(pub_packet(1, 0, 4), None);
            drop(f);
            submitted += 1;
            std::thread::sleep(Duration::from_millis(op_interval_ms));
        }
        let _ = client.close();
    } else {
        let a2 = attempts.clone();
        let factory: Arc<dyn Fn() -> GneissResult<Transport> + Send + Sync> = Arc::new(move || {
            a2.lock().unwrap().push(Instant::now());
            Err(GneissError::new_std_io_error(std::io::Error::new(std::io::ErrorKind::ConnectionRefused, "scripted refusal")))
        });
        let client = new_threaded_client(cb.build(), conn.build(), ThreadedOptions::builder().build(), factory);
        let _ = client.start(None);
        while started.elapsed() < window && !enough(&attempts) {
            let _ = client.publish(pub_packet(1, 0, 4), None);
            submitted += 1;
            std::thread::sleep(Duration::from_millis(op_interval_ms));
        }
        let _ = client.close();
    }
    let _ = refuse;
    stop.store(true, Ordering::SeqCst);
    let _ = mon.join();
    let at = attempts.lock().unwrap().clone();
    let worst = worst_oversleep.load(Ordering::SeqCst);
    let responsive = worst <= 120;
    let gaps: Vec<u64> = at.windows(2).map(|w| (w[1] - w[0]).as_millis() as u64).collect();
    let mut violations = Vec::new();
    if responsive {
        for (k, w) in waits.iter().enumerate() {
            match gaps.get(k) {
                Some(g) => {
                    if *g > w * 3 + 250 {
                        violations.push(Violation::new("C19.real_wait_exceeds_bound", format!("{}: the driver waits far longer before a reconnect attempt than min(base*2^k, max) while the application keeps submitting operations", driver), format!("attempt {} -> {}: waited {} ms, expected {} ms (base {} ms, an operation every {} ms); gaps {:?}", k, k + 1, g, w, base_ms, op_interval_ms, gaps)));
                        break;
                    }
                    if (*g as f64) < (*w as f64) * 0.8 {
                        violations.push(Violation::new("C19.real_wait_too_short", format!("{}: the driver makes a reconnect attempt before the back-off wait has elapsed", driver), format!("attempt {} -> {}: waited {} ms, expected {} ms; gaps {:?}", k, k + 1, g, w, gaps)));
                        break;
                    }
                }
                None => {
                    // the attempt did not come within the whole observation window (3x the sum of the waits + 1.5 s)
                    violations.push(Violation::new("C19.real_wait_exceeds_bound", format!("{}: the driver waits far longer before a reconnect attempt than min(base*2^k, max) while the application keeps submitting operations", driver), format!("attempt {} never came within {:?}: expected wait {} ms (base {} ms, an operation every {} ms); gaps {:?}", k + 1, window, w, base_ms, op_interval_ms, gaps)));
                    break;
                }
            }
        }
    }
    let labels = vec![format!("real_reconnect_waits:{}", driver), if responsive { "harness_responsive".to_string() } else { "harness_thread_descheduled".to_string() }];
    let sample = json!({"kind": "real reconnect waits", "driver": driver, "base_ms": base_ms, "operation_every_ms": op_interval_ms, "operations_submitted": submitted, "expected_waits_ms": waits, "observed_gaps_ms": gaps, "worst_ticker_oversleep_ms": worst});
    if std::env::var("VERIF_DEBUG_WITNESS").is_ok() {
        eprintln!("witness: {}", sample);
    }
    CaseReport { violations, labels, nontrivial: responsive && gaps.len() >= 3, digest: hash_str(&format!("gaps-{}-{}-{}", driver, base_ms, op_interval_ms)), sample: Some(sample), inconclusive: !responsive, ..Default::default() }
}

// ------------------------------------------------------------------------------------------------
// websocket adapter
// ------------------------------------------------------------------------------------------------

struct WsIo {
    input: VecDeque<u8>,
    frags: Vec<usize>,
    ix: usize,
    would_block_every: usize,
    calls: usize,
    out: Vec<u8>,
    write_plan: Vec<WStep>,
    write_ix: usize,
    block_left: u8,
}

#[derive(Clone)]
struct WsStream(Arc<Mutex<WsIo>>);

impl Read for WsStream {
    fn read(&mut self, buf: &mut [u8]) -> std::io::Result<usize> {
        let mut s = self.0.lock().unwrap();
        s.calls += 1;
        if s.input.is_empty() || (s.would_block_every > 0 && s.calls % s.would_block_every == 0) {
            return Err(std::io::Error::new(std::io::ErrorKind::WouldBlock, "no data"));
        }
        let frag = if s.frags.is_empty() { 65536 } else { s.frags[s.ix % s.frags.len()].max(1) };
        s.ix += 1;
        let n = frag.min(buf.len()).min(s.input.len());
        for b in buf.iter_mut().take(n) {
            *b = s.input.pop_front().unwrap();
        }
        Ok(n)
    }
}

impl Write for WsStream {
    fn write(&mut self, buf: &[u8]) -> std::io::Result<usize> {
        let mut s = self.0.lock().unwrap();
        if buf.is_empty() {
            return Ok(0);
        }
        if s.write_plan.is_empty() {
            s.out.extend_from_slice(buf);
            return Ok(buf.len());
        }
        let step = s.write_plan[s.write_ix % s.write_plan.len()].clone();
        match step {
            WStep::Block(k) => {
                if s.block_left == 0 {
                    s.block_left = k.max(1);
                }
                s.block_left -= 1;
                if s.block_left == 0 {
                    s.write_ix += 1;
                }
                Err(std::io::Error::new(std::io::ErrorKind::WouldBlock, "busy"))
            }
            WStep::Accept(n) => {
                s.write_ix += 1;
                let n = (n.max(1) as usize).min(buf.len());
                s.out.extend_from_slice(&buf[..n]);
                Ok(n)
            }
        }
    }
    fn flush(&mut self) -> std::io::Result<()> {
        Ok(())
    }
}

fn ws_frame(opcode: u8, payload: &[u8]) -> Vec<u8> {
    let mut f = vec![0x80 | opcode];
    if payload.len() < 126 {
        f.push(payload.len() as u8);
    } else if payload.len() < 65536 {
        f.push(126);
        f.extend_from_slice(&(payload.len() as u16).to_be_bytes());
    } else {
        f.push(127);
        f.extend_from_slice(&(payload.len() as u64).to_be_bytes());
    }
    f.extend_from_slice(payload);
    f
}

fn msg_bytes(ix: usize, len: usize, text: bool) -> Vec<u8> {
    (0..len).map(|i| if text { b'a' + ((i + ix) % 26) as u8 } else { (i as u32).wrapping_mul(7).wrapping_add(ix as u32 * 13) as u8 }).collect()
}

fn check_ws_read(c: &WsReadCase) -> CaseReport {
    let mut violations = Vec::new();
    let mut input = Vec::new();
    let mut expected = Vec::new();
    for (i, (len, text)) in c.messages.iter().enumerate() {
        let body = msg_bytes(i, *len as usize, *text);
        input.extend(ws_frame(if *text { 1 } else { 2 }, &body));
        expected.extend_from_slice(&body);
        if c.ping_after.get(i).copied().unwrap_or(false) {
            input.extend(ws_frame(9, b"hi"));
        }
    }
    let io = Arc::new(Mutex::new(WsIo { input: input.into(), frags: c.frags.iter().map(|x| *x as usize).collect(), ix: 0, would_block_every: c.would_block_every as usize, calls: 0, out: Vec::new(), write_plan: Vec::new(), write_ix: 0, block_left: 0 }));
    let ws = tungstenite::protocol::WebSocket::from_raw_socket(WsStream(io.clone()), tungstenite::protocol::Role::Client, None);
    let mut wrapped = gneiss_mqtt::verif::verif_wrap_websocket(ws);
    let mut got: Vec<u8> = Vec::new();
    let mut buf = vec![0u8; (c.read_buf as usize).max(1)];
    let mut idle = 0;
    let mut guard = 0;
    let mut err: Option<String> = None;
    let res = crate::panichook::guarded(|| {
        while guard < 2_000_000 {
            guard += 1;
            match wrapped.read(&mut buf) {
                Ok(0) => {
                    err = Some("read returned Ok(0) (end of stream) although the peer never closed".into());
                    break;
                }
                Ok(n) => {
                    idle = 0;
                    got.extend_from_slice(&buf[..n]);
                }
                Err(e) if e.kind() == std::io::ErrorKind::WouldBlock => {
                    idle += 1;
                    let drained = io.lock().unwrap().input.is_empty();
                    if drained && idle > 3 {
                        break;
                    }
                    if idle > 100_000 {
                        break;
                    }
                }
                Err(e) => {
                    err = Some(format!("read failed: {}", e));
                    break;
                }
            }
        }
    });
    if let Err((msg, loc)) = res {
        violations.push(Violation::new("C13.ws_panic", "the websocket stream adapter panics while reading", format!("{} at {}", msg, loc)));
    }
    if let Some(e) = err {
        violations.push(Violation::new("C13.ws_read_error", format!("websocket adapter: {}", e.chars().map(|ch| if ch.is_ascii_digit() { '#' } else { ch }).take(80).collect::<String>()), e));
    }
    if got != expected && violations.is_empty() {
        let pos = got.iter().zip(expected.iter()).take_while(|(a, b)| a == b).count();
        let sig = if c.messages.iter().any(|(l, _)| *l > c.read_buf) && got.len() == expected.len() {
            "websocket adapter: a message larger than the read buffer is delivered with repeated / wrong bytes"
        } else if got.len() < expected.len() {
            "websocket adapter: bytes are lost when several messages are available for one read"
        } else {
            "websocket adapter: the byte stream is not the concatenation of the message payloads"
        };
        violations.push(Violation::new("C13.ws_read_stream", sig, format!("read buffer {} messages {:?}: first difference at {} (got {} bytes, expected {})", c.read_buf, c.messages.iter().map(|m| m.0).collect::<Vec<_>>(), pos, got.len(), expected.len())));
    }
    let mut labels = vec!["ws_read".to_string()];
    if c.messages.iter().any(|(l, _)| *l > c.read_buf) {
        labels.push("message_larger_than_read_buffer".into());
    }
    let small = c.messages.iter().filter(|(l, _)| *l < c.read_buf).count();
    if small >= 2 {
        labels.push("several_messages_per_read".into());
    }
    if c.frags.iter().any(|f| *f == 1) {
        labels.push("one_byte_arrival".into());
    }
    let nontrivial = labels.len() > 1;
    CaseReport { violations, labels, nontrivial, digest: hash_str(&format!("{:?}", c)), sample: Some(json!({"kind": "ws_read", "messages": c.messages, "read_buffer": c.read_buf, "fragments": c.frags, "would_block_every": c.would_block_every})), ..Default::default() }
}

fn check_ws_write(c: &WsWriteCase) -> CaseReport {
    let mut violations = Vec::new();
    let io = Arc::new(Mutex::new(WsIo { input: VecDeque::new(), frags: vec![], ix: 0, would_block_every: 0, calls: 0, out: Vec::new(), write_plan: c.write_plan.clone(), write_ix: 0, block_left: 0 }));
    let ws = tungstenite::protocol::WebSocket::from_raw_socket(WsStream(io.clone()), tungstenite::protocol::Role::Client, None);
    let mut wrapped = gneiss_mqtt::verif::verif_wrap_websocket(ws);
    let mut expected: Vec<u8> = Vec::new();
    let mut blocked = 0u32;
    // the harness's own retry bounds were exhausted: the case says nothing about the adapter
    let mut gave_up = false;
    let mut flooded = false;
    let flood_limit: usize = 4 * c.chunks.iter().map(|l| *l as usize + 16).sum::<usize>() + 65536;
    let res = crate::panichook::guarded(|| {
        for (i, len) in c.chunks.iter().enumerate() {
            let data = msg_bytes(i, *len as usize, false);
            let mut off = 0;
            let mut tries = 0;
            // exactly what the threaded driver does: WouldBlock / Interrupted => try the same bytes again later
            while off < data.len() {
                if tries >= 2_000_000 {
                    gave_up = true;
                    break;
                }
                // an adapter that queues the message again at every retry floods the peer: once the peer holds far more
                // than was ever written there is nothing left to learn from retrying (the verdict below sees the surplus)
                if tries % 64 == 63 && io.lock().unwrap().out.len() > flood_limit {
                    flooded = true;
                    break;
                }
                tries += 1;
                match wrapped.write(&data[off..]) {
                    Ok(n) => off += n,
                    Err(e) if e.kind() == std::io::ErrorKind::WouldBlock || e.kind() == std::io::ErrorKind::Interrupted => {
                        blocked += 1;
                    }
                    Err(_) => break,
                }
            }
            expected.extend_from_slice(&data[..off]);
            if flooded {
                break;
            }
            let mut f = 0;
            loop {
                if f >= 2_000_000 {
                    gave_up = true;
                    break;
                }
                if f % 64 == 63 && io.lock().unwrap().out.len() > flood_limit {
                    flooded = true;
                    break;
                }
                f += 1;
                match wrapped.flush() {
                    Ok(()) => break,
                    Err(e) if e.kind() == std::io::ErrorKind::WouldBlock => continue,
                    Err(_) => break,
                }
            }
        }
    });
    if let Err((msg, loc)) = res {
        violations.push(Violation::new("C13.ws_panic", "the websocket stream adapter panics while writing", format!("{} at {}", msg, loc)));
    }
    // parse the frames the peer received
    let out = io.lock().unwrap().out.clone();
    let mut got: Vec<u8> = Vec::new();
    let mut off = 0;
    let mut bad = false;
    while off + 2 <= out.len() {
        let b0 = out[off];
        let b1 = out[off + 1];
        let masked = b1 & 0x80 != 0;
        let mut len = (b1 & 0x7f) as usize;
        let mut p = off + 2;
        if len == 126 {
            if p + 2 > out.len() {
                bad = true;
                break;
            }
            len = u16::from_be_bytes([out[p], out[p + 1]]) as usize;
            p += 2;
        } else if len == 127 {
            if p + 8 > out.len() {
                bad = true;
                break;
            }
            len = u64::from_be_bytes(out[p..p + 8].try_into().unwrap()) as usize;
            p += 8;
        }
        let mut mask = [0u8; 4];
        if masked {
            if p + 4 > out.len() {
                bad = true;
                break;
            }
            mask.copy_from_slice(&out[p..p + 4]);
            p += 4;
        }
        if p + len > out.len() {
            bad = true;
            break;
        }
        if b0 & 0x0f == 2 || b0 & 0x0f == 1 || b0 & 0x0f == 0 {
            for (i, b) in out[p..p + len].iter().enumerate() {
                got.push(b ^ mask[i % 4]);
            }
        }
        off = p + len;
    }
    if gave_up {
        // nothing is asserted
    } else if bad || off != out.len() {
        violations.push(Violation::new("C13.ws_write_frames", "websocket adapter: the peer receives a truncated frame although every write was reported complete", format!("{} of {} bytes parsed", off, out.len())));
    } else if got != expected {
        let sig = if got.len() > expected.len() { "websocket adapter: bytes are duplicated on the wire when the transport would block" } else { "websocket adapter: bytes reported as written never reach the peer" };
        violations.push(Violation::new("C13.ws_write_stream", sig, format!("caller wrote {} bytes, peer received {} payload bytes; chunks {:?} plan {:?}", expected.len(), got.len(), c.chunks, c.write_plan)));
    }
    let mut labels = vec!["ws_write".to_string()];
    if blocked > 0 {
        labels.push("ws_write_would_block".into());
    }
    let nontrivial = blocked > 0 || c.chunks.len() >= 2;
    CaseReport { violations, labels, nontrivial, digest: hash_str(&format!("{:?}", c)), sample: Some(json!({"kind": "ws_write", "chunks": c.chunks, "plan": format!("{:?}", c.write_plan), "would_block_results": blocked})), inconclusive: gave_up, ..Default::default() }
}

// ------------------------------------------------------------------------------------------------

pub struct C13;

fn wstep() -> BoxedStrategy<WStep> {
    prop_oneof![3 => prop_oneof![Just(1u16), Just(2u16), Just(3u16), Just(7u16), 1u16..200, Just(u16::MAX)].prop_map(WStep::Accept), 1 => (1u8..4).prop_map(WStep::Block)].boxed()
}

fn rop() -> BoxedStrategy<ROp> {
    prop_oneof![6 => (0u8..3, prop_oneof![3 => 0u16..40, 1 => 40u16..600, 1 => 4000u16..9000]).prop_map(|(qos, size)| ROp::Pub { qos, size }), 1 => Just(ROp::Sub), 1 => Just(ROp::Unsub)].boxed()
}

fn client_case() -> BoxedStrategy<ClientCase> {
    (any::<bool>(), any::<bool>(), vec(wstep(), 1..6), vec(prop_oneof![Just(1u16), Just(2u16), Just(5u16), 1u16..300, Just(4096u16)], 0..5), vec(rop(), 1..14), vec((0u8..3, 0u8..30), 0..4), 1u8..4, prop_oneof![2 => Just(CloseMode::None), 3 => (0u8..10, prop_oneof![Just(0u16), 0u16..2000, Just(20000u16)], prop_oneof![Just(0u16), 0u16..500]).prop_map(|(before, spin_before_close, submitter_spin)| CloseMode::Racing { before, spin_before_close, submitter_spin })])
        .prop_map(|(tokio, v5, write_plan, read_frags, ops, inbound, submitters, close)| {
            // a plan consisting only of Block steps would never accept a byte
            let mut write_plan = write_plan;
            if !write_plan.iter().any(|s| matches!(s, WStep::Accept(_))) {
                write_plan.push(WStep::Accept(5));
            }
            ClientCase { tokio, v5, write_plan, read_frags, ops, inbound, submitters, close }
        })
        .boxed()
}

fn fault_case() -> BoxedStrategy<FaultCase> {
    let fault = (prop_oneof![Just(Fault::WriteErr), Just(Fault::ReadEof), Just(Fault::ReadErr)], prop_oneof![2 => 0u16..30, 3 => 30u16..200, 2 => 200u16..3000, 1 => 3000u16..20000]);
    (any::<bool>(), any::<bool>(), vec(wstep(), 0..5), vec(prop_oneof![Just(1u16), Just(2u16), Just(5u16), 1u16..300, Just(4096u16)], 0..4), vec(rop(), 1..12), vec(fault, 1..4))
        .prop_map(|(tokio, v5, mut write_plan, read_frags, ops, faults)| {
            if !write_plan.is_empty() && !write_plan.iter().any(|s| matches!(s, WStep::Accept(_))) {
                write_plan.push(WStep::Accept(5));
            }
            FaultCase { tokio, v5, write_plan, read_frags, ops, faults }
        })
        .boxed()
}

fn ws_read_case() -> BoxedStrategy<WsReadCase> {
    (vec((prop_oneof![Just(1u32), Just(125u32), Just(126u32), Just(4095u32), Just(4096u32), Just(4097u32), Just(10_000u32), Just(70_000u32), 1u32..300], prop::bool::weighted(0.15)), 1..6), vec(prop::bool::weighted(0.2), 0..6), vec(prop_oneof![Just(1u16), Just(2u16), Just(13u16), 1u16..5000, Just(u16::MAX)], 0..4), prop_oneof![3 => Just(0u8), 1 => 2u8..7], prop_oneof![Just(1u32), Just(7u32), Just(100u32), Just(4096u32), Just(5000u32)])
        .prop_map(|(messages, ping_after, frags, would_block_every, read_buf)| WsReadCase { messages, ping_after, frags, would_block_every, read_buf })
        .boxed()
}

fn ws_write_case() -> BoxedStrategy<WsWriteCase> {
    (vec(prop_oneof![Just(1u32), Just(125u32), Just(126u32), Just(4096u32), 1u32..3000], 1..6), vec(wstep(), 0..5)).prop_map(|(chunks, mut write_plan)| {
        if !write_plan.is_empty() && !write_plan.iter().any(|s| matches!(s, WStep::Accept(_))) {
            write_plan.push(WStep::Accept(9));
        }
        WsWriteCase { chunks, write_plan }
    })
    .boxed()
}

impl Property for C13 {
    type Case = RCase;

    fn id(&self) -> &'static str {
        "C13"
    }

    fn strategy(&self, _tier: Tier) -> BoxedStrategy<RCase> {
        prop_oneof![5 => client_case().prop_map(RCase::Client), 3 => fault_case().prop_map(RCase::Faulty), 2 => ws_read_case().prop_map(RCase::WsRead), 2 => ws_write_case().prop_map(RCase::WsWrite)].boxed()
    }

    fn check(&self, case: &RCase) -> CaseReport {
        match case {
            RCase::Client(c) => check_client(c),
            RCase::WsRead(c) => check_ws_read(c),
            RCase::WsWrite(c) => check_ws_write(c),
            RCase::Faulty(c) => check_faulty(c),
        }
    }

    fn cases_per_shard(&self, tier: Tier) -> u32 {
        match tier {
            Tier::Quick => 60,
            Tier::Thorough => 1500,
        }
    }

    fn rule_text(&self) -> String {
        "(1) the real tokio and threaded clients (public new_tokio_client / new_threaded_client) on an in-memory transport whose behaviour is a generated script: each write accepts 1..n bytes or returns Pending / WouldBlock k times, each read returns a fragment of 1..m bytes, the reference broker lives inside the transport; 1-13 operations (QoS0/1/2 publishes up to 9 kB, subscribe, unsubscribe) and 0-3 inbound publishes; either all operations complete and the received byte stream is parsed, or close() races submissions from 1-3 threads with generated spin delays; (1b) the same clients with a fresh transport per connection where the first 1-3 connections fail after k accepted bytes (write error / end of stream / read error; k in 0..20000, so inside the CONNECT, between packets or mid-packet) and the client reconnects (2 ms period, preserve-all offline policy): per connection the received bytes parse into complete packets starting with exactly one CONNECT, only faulted connections may end mid-packet, every operation completes successfully and was received completely somewhere, no connection is dropped without a transport fault; (2) the threaded WebSocket stream adapter over hand-framed server messages of sizes {1,125,126,4095,4096,4097,10000,70000,...}, several per read, one byte at a time, WouldBlock between frames, ping frames in between, read buffers {1,7,100,4096,5000}; (3) the adapter's write side over a transport that accepts partially or would block; oracles: the transport receives exactly the submitted operations once, in order, content intact; inbound messages surface once in wire order; every operation has exactly one result, in particular once the event loop has exited after close(); adapter reads == concatenation of payloads; adapter writes reach the peer exactly once; non-trivial = >= 3 partial writes, a WouldBlock, submissions racing close(), a transport fault after the handshake or mid-packet, >= 3 connections, a message larger than the read buffer or several messages per read; distinct = hash of the case".to_string()
    }

    fn assumptions(&self) -> Vec<String> {
        vec![
            "thread / task interleavings are sampled (spin delays, several submitter threads), not enumerated".into(),
            "no wall-clock timeout is a verdict about progress: 'no result' counts only once the event loop has provably exited (a further start() fails) and the receivers have had 10 s to be filled by the destruction of the queued operations, or after the transport has been idle for 10 s with nothing left to answer".into(),
            "the tokio WebSocket path (third-party stream-ws adapter) is not covered; only the repository's own threaded adapter is".into(),
        ]
    }
}
