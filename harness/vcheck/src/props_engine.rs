//! Engine-level properties (C01, C04-C07, C09-C11, C15, C17, C18): generator profile + monitors + labels.

use crate::gen::{sim_case_strategy, Profile};
use crate::model::*;
use crate::mon::{self, Index};
use crate::runner::{hash_str, CaseReport, Property, Tier, Violation};
use crate::sim::Sim;
use proptest::strategy::{BoxedStrategy, Strategy};
use refmqtt as rf;
use serde_json::json;

pub struct EngineProp {
    pub id: &'static str,
    pub profile: fn(Tier) -> Profile,
    pub monitors: fn(&Index) -> Vec<Violation>,
    pub nontrivial: fn(&Index, &[String]) -> bool,
    pub quick_cases: u32,
    pub thorough_cases: u32,
    pub rule: &'static str,
    pub directed: fn() -> Vec<(String, SimCase)>,
    pub fixup: fn(&mut SimCase),
    /// optional second generator profile mixed in with weight 1:3
    pub alt_profile: Option<fn(Tier) -> Profile>,
}

pub fn dump_trace(tr: &Trace) {
    if std::env::var("VERIF_TRACE").is_ok() {
        for (i, e) in tr.evs.iter().enumerate() {
            match e {
                Ev::Emit { ix } => {
                    let em = &tr.emitted[*ix];
                    println!("{:4} Emit conn={} t={} call={} spans={} tag={:?} {:?}", i, em.conn, em.t, em.call, em.calls_spanned, em.tag, em.pkt);
                }
                other => println!("{:4} {:?}", i, other),
            }
        }
    }
}

/// labels shared by all engine properties, computed from the trace only
pub fn common_labels(ix: &Index) -> Vec<String> {
    let tr = ix.tr;
    let mut l: Vec<String> = tr.labels.clone();
    let mut add = |s: &str| {
        if !l.iter().any(|x| x == s) {
            l.push(s.to_string());
        }
    };
    if ix.conns.len() >= 2 {
        add("reconnect");
    }
    if ix.conns.len() >= 3 {
        add("reconnect>=2");
    }
    if ix.conns.values().any(|c| c.session_present == Some(true)) {
        add("session_resumed");
    }
    if ix.conns.values().filter(|c| c.session_present == Some(false)).count() >= 2 {
        add("session_lost_again");
    }
    {
        let rms: Vec<Option<u16>> = ix.conns.values().filter_map(|c| c.connack.as_ref().filter(|k| k.reason == 0).map(|k| k.receive_maximum)).collect();
        if rms.windows(2).any(|w| w[0].unwrap_or(65535) > w[1].unwrap_or(65535)) {
            add("receive_maximum_lowered_on_reconnect");
        }
        let lim: Vec<_> = ix.conns.values().filter_map(|c| c.connack.as_ref().filter(|k| k.reason == 0).map(|k| (k.maximum_qos, k.maximum_packet_size, k.topic_alias_maximum, k.retain_available))).collect();
        if lim.windows(2).any(|w| w[0] != w[1]) {
            add("server_limits_changed_on_reconnect");
        }
    }
    if tr.adversarial_used {
        add("adversarial");
    }
    if tr.unasked_service_used {
        add("unasked_service");
    }
    if ix.reset_ev.is_some() {
        add("reset");
        if ix.tags.values().any(|r| matches!(r.dones.first(), Some((e, _, _, _)) if Some(*e) > ix.reset_ev)) {
            add("reset_with_unresolved");
        }
    }
    if tr.emitted.iter().any(|e| e.calls_spanned >= 2) {
        add("packet_spans_service_calls");
    }
    if tr.emitted.iter().any(|e| e.calls_spanned >= 3 && matches!(e.pkt, rf::Packet::Connect(_))) {
        add("connect_spans>=3");
    }
    // close positions
    for (cid, c) in &ix.conns {
        let cev = match c.close_ev {
            Some(x) => x,
            None => continue,
        };
        if c.emitted_len > c.delivered_len {
            add("close_with_unflushed_bytes");
        }
        let trailing = c.pkts.last().map(|&p| tr.emitted[p].end).unwrap_or(0);
        if c.emitted_len > trailing {
            add("close_with_half_encoded_packet");
        }
        for r in ix.tags.values() {
            if r.submit_ev < cev && !r.resolved_before(cev) {
                let sent_here = r.emits.iter().any(|&x| tr.emitted[x].conn == *cid);
                if sent_here {
                    add("close_with_op_awaiting_ack");
                } else if r.submit_ev > c.open_ev || !r.emits.is_empty() {
                    add("close_with_op_queued");
                }
                if !r.pubrels.is_empty() && r.pubrels.iter().any(|&x| tr.emitted[x].conn == *cid) {
                    add("close_awaiting_pubcomp");
                }
            }
        }
    }
    if tr.emitted.iter().any(|e| matches!(&e.pkt, rf::Packet::Publish(p) if p.dup)) {
        add("dup_retransmission");
    }
    for r in ix.tags.values() {
        match r.dones.first().map(|d| &d.2) {
            Some(Done::Err(EK::AckTimeout, _)) => add("ack_timeout_fired"),
            Some(Done::Err(EK::OfflineQueuePolicyFailed, _)) => add("offline_policy_failure"),
            Some(Done::Err(EK::PacketValidation, _)) => add("validation_failure"),
            Some(Done::Err(EK::MaxInterruptedRetriesExceeded, _)) => add("retries_exceeded"),
            Some(Done::Pubrec { .. }) => add("failing_pubrec"),
            Some(Done::Pubcomp { .. }) => add("qos2_complete"),
            _ => {}
        }
    }
    if tr.evs.iter().any(|e| matches!(e, Ev::Call { result: Err(_), kind: CallKind::Incoming, .. })) {
        add("incoming_error");
    }
    if tr.evs.iter().any(|e| matches!(e, Ev::Call { result: Err(_), kind: CallKind::Service, .. })) {
        add("service_error");
    }
    if tr.evs.iter().any(|e| matches!(e, Ev::Call { post_error: true, .. })) {
        add("event_after_error");
    }
    if tr.evs.iter().any(|e| matches!(e, Ev::Panic { .. })) {
        add("panic");
    }
    if ix.drain_quiescent == Some(true) {
        add("drained");
    }
    if ix.drain_quiescent == Some(false) {
        add("drain_incomplete");
    }
    if tr.emitted.iter().any(|e| matches!(e.pkt, rf::Packet::Pingreq)) {
        add("pingreq");
    }
    {
        let pids: Vec<u16> = tr
            .emitted
            .iter()
            .filter_map(|e| match &e.pkt {
                rf::Packet::Publish(p) if p.qos > 0 => p.pid,
                rf::Packet::Subscribe(s) => Some(s.pid),
                rf::Packet::Unsubscribe(u) => Some(u.pid),
                _ => None,
            })
            .collect();
        if pids.iter().any(|p| *p >= 65520) && pids.iter().any(|p| *p <= 64) {
            add("packet_id_wraparound");
        }
    }
    if tr.evs.iter().any(|e| matches!(e, Ev::Surfaced { what: Surf::Publish { .. }, .. })) {
        add("inbound_publish");
    }
    l
}

pub fn digest_of(ix: &Index) -> u64 {
    // abstract history: sequence of (event kind, small payload) without times
    let mut s = String::new();
    for e in &ix.tr.evs {
        match e {
            Ev::Submit { kind, state, .. } => s.push_str(&format!("S{:?}{:?};", kind, state)),
            Ev::Done { done, .. } => s.push_str(match done {
                Done::Err(k, _) => match k {
                    EK::AckTimeout => "Dt;",
                    EK::OfflineQueuePolicyFailed => "Do;",
                    EK::ClientClosed => "Dc;",
                    EK::PacketValidation => "Dv;",
                    _ => "De;",
                },
                _ => "D+;",
            }),
            Ev::Open { .. } => s.push_str("O;"),
            Ev::Close { delivered, emitted, .. } => s.push_str(if emitted > delivered { "Cu;" } else { "C;" }),
            Ev::Reset { .. } => s.push_str("R;"),
            Ev::Call { kind, result, .. } => {
                if result.is_err() {
                    s.push_str(&format!("E{:?};", kind))
                }
            }
            Ev::Panic { .. } => s.push_str("P!;"),
            Ev::Emit { ix: i } => {
                let e = &ix.tr.emitted[*i];
                s.push_str(&format!("e{}{};", e.pkt.type_code(), e.calls_spanned.min(3)))
            }
            Ev::SrvSend { desc, .. } => s.push_str(match desc {
                SrvDesc::Connack { success: true, session_present: true, .. } => "kS;",
                SrvDesc::Connack { success: true, .. } => "kN;",
                SrvDesc::Connack { .. } => "kF;",
                SrvDesc::Ack { .. } => "a;",
                SrvDesc::Publish { .. } => "p;",
                SrvDesc::Pubrel { .. } => "r;",
                SrvDesc::Pingresp => "g;",
                SrvDesc::Disconnect => "d;",
                SrvDesc::Adversarial(_) => "x;",
            }),
            _ => {}
        }
    }
    hash_str(&s)
}

fn sample_of(case: &SimCase, ix: &Index) -> serde_json::Value {
    json!({
        "config": {"v5": case.cfg.v5, "offline_policy": case.cfg.offline, "one_at_a_time": case.cfg.one_at_a_time, "retries": case.cfg.retries, "buffer_capacity": case.cfg.buf_cap, "resolver": format!("{:?}", case.cfg.resolver), "policy": format!("{:?}", case.cfg.policy)},
        "ops": case.ops.iter().take(40).map(|o| format!("{:?}", o)).collect::<Vec<_>>(),
        "connections": ix.conns.len(),
        "operations_submitted": ix.tags.len(),
        "client_packets_on_wire": ix.tr.emitted.iter().take(30).map(|e| format!("c{}:{}{}", e.conn, e.pkt.type_name(), e.tag.map(|t| format!("#{}", t)).unwrap_or_default())).collect::<Vec<_>>(),
    })
}

impl Property for EngineProp {
    type Case = SimCase;

    fn id(&self) -> &'static str {
        self.id
    }

    fn strategy(&self, tier: Tier) -> BoxedStrategy<SimCase> {
        let p = (self.profile)(tier);
        let fix = self.fixup;
        let main = sim_case_strategy(&p);
        let combined: BoxedStrategy<SimCase> = match self.alt_profile {
            Some(alt) => {
                let a = sim_case_strategy(&alt(tier));
                proptest::strategy::Union::new_weighted(vec![(3, main), (1, a)]).boxed()
            }
            None => main,
        };
        combined
            .prop_map(move |mut c| {
                fix(&mut c);
                c
            })
            .boxed()
    }

    fn fuzz_case(&self, data: &[u8]) -> Option<SimCase> {
        if data.len() < 2 {
            return None;
        }
        // first byte: which of the property's generator profiles (same 3:1 mix as the strategy)
        let p = match self.alt_profile {
            Some(alt) if data[0] % 4 == 3 => alt(Tier::Thorough),
            _ => (self.profile)(Tier::Thorough),
        };
        let mut c = crate::bytegen::sim_case_from(&data[1..], &p);
        (self.fixup)(&mut c);
        Some(c)
    }

    fn check(&self, case: &SimCase) -> CaseReport {
        let tr = Sim::run(case);
        dump_trace(&tr);
        let ix = Index::build(&tr, &case.cfg);
        let mut violations = (self.monitors)(&ix);
        // bytes the reference decoder rejects are reported wherever they are seen
        if self.id != "C02" {
            violations.extend(mon::m02_wire(&ix).into_iter().map(|mut v| {
                v.rule = format!("{}:{}", self.id, v.rule);
                v
            }));
        }
        let labels = common_labels(&ix);
        let nontrivial = (self.nontrivial)(&ix, &labels);
        if ix.drain_step_bound_hit && std::env::var("VERIF_SHOW_INCONCLUSIVE").is_ok() {
            println!("INCONCLUSIVE {}", serde_json::to_string(case).unwrap_or_default());
        }
        CaseReport {
            violations,
            nontrivial,
            digest: digest_of(&ix),
            excluded_known: 0,
            sample: Some(sample_of(case, &ix)),
            counters: vec![("remapped_ops".to_string(), tr.remapped), ("steer_hits".to_string(), tr.steer_hits.len() as u64), ("client_packets".to_string(), tr.emitted.len() as u64), ("operations".to_string(), ix.tags.len() as u64)],
            inconclusive: ix.drain_step_bound_hit,
            labels,
        }
    }

    fn cases_per_shard(&self, tier: Tier) -> u32 {
        match tier {
            Tier::Quick => self.quick_cases,
            Tier::Thorough => self.thorough_cases,
        }
    }

    fn rule_text(&self) -> String {
        self.rule.to_string()
    }

    fn assumptions(&self) -> Vec<String> {
        vec![
            "the protocol engine is driven through the add-only `verif` facade with a virtual clock; events are generated only in orders a network driver can produce (plus explicitly flagged unsolicited service calls where the property's quantifier allows them)".to_string(),
            "every byte the client emits is parsed by the independent reference codec refmqtt (written from the OASIS texts)".to_string(),
            "the reference broker is compliant unless the case is marked adversarial; its session/alias/in-flight model is part of the trusted base".to_string(),
        ]
    }

    fn directed(&self) -> Vec<(String, SimCase)> {
        (self.directed)()
    }
}

fn has(labels: &[String], l: &str) -> bool {
    labels.iter().any(|x| x == l)
}

fn no_fix(_: &mut SimCase) {}

/// 3.1.1 clients without a client id cannot resume sessions; keep engine histories inside what a 3.1.1 server accepts
/// (the CONNECT itself is judged by C02).
fn common_fix(c: &mut SimCase) {
    if !c.cfg.v5 && c.cfg.client_id.is_none() {
        c.cfg.client_id = Some("c311".to_string());
    }
}

fn no_directed() -> Vec<(String, SimCase)> {
    Vec::new()
}

// ------------------------------------------------------------------------------------------------

fn p01(t: Tier) -> Profile {
    let mut p = Profile::default();
    p.w_reset = 1;
    p.w_adversary = 4;
    p.policy_adversarial = true;
    p.allow_unasked = true;
    p.w_service_unasked = 3;
    p.timeouts = true;
    p.retries = true;
    p.max_ops = if t == Tier::Quick { 60 } else { 300 };
    p
}

fn m01_all(ix: &Index) -> Vec<Violation> {
    mon::m01(ix)
}

fn nt01(ix: &Index, l: &[String]) -> bool {
    !ix.tags.is_empty() && (has(l, "close_with_op_queued") || has(l, "close_with_half_encoded_packet") || has(l, "close_with_unflushed_bytes") || has(l, "close_with_op_awaiting_ack") || has(l, "adversarial") || has(l, "ack_timeout_fired") || has(l, "reset_with_unresolved"))
}

pub fn c01() -> EngineProp {
    EngineProp {
        id: "C01",
        profile: p01,
        monitors: m01_all,
        nontrivial: nt01,
        quick_cases: 8000,
        thorough_cases: 40_000,
        rule: "any-driver EngineSim histories (user submissions, open/close, server packets incl. adversarial acks, write completions, service with generated buffer capacity, clock advances, reset) over all offline/drain/retry/version configurations; non-trivial = at least one accepted operation AND (a close while an operation was queued / half encoded / unflushed / awaiting its ack, or an adversarial/duplicated ack, or an ack timeout, or a reset with unresolved operations); distinct = different hash of the abstracted event history",
        directed: no_directed,
        fixup: common_fix,
        alt_profile: None,
    }
}

// ------------------------------------------------------------------------------------------------

fn p04(t: Tier) -> Profile {
    let mut p = Profile::default();
    p.qos_weights = [0, 3, 5];
    p.w_sub = 1;
    p.w_unsub = 1;
    p.w_close = 7;
    p.w_open = 7;
    p.w_steer = 8;
    p.steer_positions = vec![Pos::UserOpHalfEncoded, Pos::PublishUnflushed, Pos::AwaitingPuback, Pos::AwaitingPubrec, Pos::PubrelQueued, Pos::PubrelHalfEncoded, Pos::AwaitingPubcomp, Pos::UserOpQueued];
    p.steer_thens = vec![Then::Close, Then::Close, Then::Close, Then::Respond];
    p.w_srv_publish = 1;
    p.max_ops = if t == Tier::Quick { 60 } else { 400 };
    p
}

fn m04_all(ix: &Index) -> Vec<Violation> {
    mon::m04(ix)
}

fn nt04(ix: &Index, l: &[String]) -> bool {
    has(l, "reconnect") && ix.tags.values().any(|r| matches!(r.kind, Some(Kind::Pub1 | Kind::Pub2))) && (has(l, "close_with_op_awaiting_ack") || has(l, "close_with_half_encoded_packet") || has(l, "close_with_unflushed_bytes") || has(l, "close_with_op_queued") || has(l, "close_awaiting_pubcomp"))
}

pub fn c04() -> EngineProp {
    EngineProp {
        id: "C04",
        profile: p04,
        monitors: m04_all,
        nontrivial: nt04,
        quick_cases: 8000,
        thorough_cases: 40_000,
        rule: "QoS1/2-heavy EngineSim histories with state-directed closes at every listed position (queued, half encoded, unflushed, awaiting PUBACK/PUBREC/PUBCOMP, PUBREL queued / half encoded) followed by reconnects with session present / absent / failing CONNACK; non-trivial = a QoS>=1 publish interrupted at one of those positions and followed by a reconnect; distinct = abstracted event history hash",
        directed: no_directed,
        fixup: common_fix,
        alt_profile: None,
    }
}

// ------------------------------------------------------------------------------------------------

fn p05(t: Tier) -> Profile {
    let mut p = Profile::default();
    p.w_srv_publish = 16;
    p.w_srv_pubrel = 8;
    p.w_pub = 5;
    p.w_chunk = 2;
    p.w_auto = 6;
    p.max_ops = if t == Tier::Quick { 60 } else { 400 };
    p
}

fn m05_all(ix: &Index) -> Vec<Violation> {
    mon::m05(ix)
}

fn nt05(ix: &Index, _l: &[String]) -> bool {
    // a duplicate QoS2 id before its PUBREL, or >= 3 inbound acknowledged packets on one connection
    let tr = ix.tr;
    let mut seen: std::collections::BTreeSet<(usize, u16)> = Default::default();
    let mut dup_q2 = false;
    let mut per_conn: std::collections::BTreeMap<usize, usize> = Default::default();
    for e in &tr.evs {
        if let Ev::SrvSend { conn, desc, .. } = e {
            match desc {
                SrvDesc::Publish { qos: 2, pid, .. } => {
                    if !seen.insert((0, *pid)) {
                        dup_q2 = true;
                    }
                    *per_conn.entry(*conn).or_default() += 1;
                }
                SrvDesc::Publish { qos: 1, .. } => *per_conn.entry(*conn).or_default() += 1,
                SrvDesc::Pubrel { pid } => {
                    seen.remove(&(0, *pid));
                    *per_conn.entry(*conn).or_default() += 1;
                }
                _ => {}
            }
        }
    }
    dup_q2 || per_conn.values().any(|n| *n >= 3)
}

pub fn c05() -> EngineProp {
    EngineProp {
        id: "C05",
        profile: p05,
        monitors: m05_all,
        nontrivial: nt05,
        quick_cases: 8000,
        thorough_cases: 40_000,
        rule: "inbound-heavy EngineSim histories: server PUBLISH (QoS0/1/2, DUP or not, identifiers drawn from 6 values so they repeat) and PUBREL (known and unknown ids) interleaved with outbound traffic, small buffers, closes and reconnects with/without session; non-trivial = a QoS2 identifier repeated before its PUBREL, or >= 3 acknowledged inbound packets on one connection; distinct = abstracted event history hash",
        directed: no_directed,
        fixup: common_fix,
        alt_profile: None,
    }
}

// ------------------------------------------------------------------------------------------------

fn p06(t: Tier) -> Profile {
    let mut p = Profile::default();
    p.timeouts = true;
    p.dynamic_limits = true;
    p.retries = true;
    p.w_sub = 6;
    p.w_unsub = 5;
    p.max_ops = if t == Tier::Quick { 70 } else { 400 };
    p
}

fn m06_all(ix: &Index) -> Vec<Violation> {
    mon::m06(ix)
}

fn nt06(ix: &Index, l: &[String]) -> bool {
    let ids: std::collections::BTreeSet<u16> = ix
        .tr
        .emitted
        .iter()
        .filter_map(|e| match &e.pkt {
            rf::Packet::Publish(p) => p.pid,
            rf::Packet::Subscribe(s) => Some(s.pid),
            rf::Packet::Unsubscribe(u) => Some(u.pid),
            _ => None,
        })
        .collect();
    ids.len() >= 3 && (has(l, "validation_failure") || has(l, "ack_timeout_fired") || has(l, "retries_exceeded") || has(l, "offline_policy_failure") || has(l, "reconnect"))
}

pub fn c06() -> EngineProp {
    EngineProp {
        id: "C06",
        profile: p06,
        monitors: m06_all,
        nontrivial: nt06,
        quick_cases: 8000,
        thorough_cases: 30_000,
        rule: "EngineSim histories mixing subscribe/unsubscribe/QoS1/QoS2 with all ack orders, ack timeouts, operations failing last-chance validation after an id was bound (packet size, QoS, retain limits from CONNACK), closes at every position and session outcomes; the extra step runs long histories that cross the 65535->1 wrap with occupied identifiers; non-trivial = >= 3 distinct identifiers on the wire AND an identifier released through a failure path or a reconnect; distinct = abstracted event history hash",
        directed: no_directed,
        fixup: common_fix,
        alt_profile: None,
    }
}

// ------------------------------------------------------------------------------------------------

fn p07(t: Tier) -> Profile {
    let mut p = Profile::default();
    p.w_open = 10;
    p.w_close = 6;
    p.w_connack = 10;
    p.w_user_disconnect = 3;
    p.w_adversary = 3;
    p.policy_adversarial = true;
    p.w_steer = 6;
    p.steer_positions = vec![Pos::ConnectQueued, Pos::ConnectHalfEncoded, Pos::ConnectUnflushed, Pos::UserOpQueued, Pos::AwaitingPuback];
    p.steer_thens = vec![Then::Nothing, Then::Close, Then::Respond];
    p.w_advance = 8;
    p.dynamic_limits = true;
    p.keep_alive = true;
    p.max_ops = if t == Tier::Quick { 50 } else { 250 };
    p
}

fn m07_all(ix: &Index) -> Vec<Violation> {
    mon::m07(ix)
}

fn nt07(ix: &Index, l: &[String]) -> bool {
    let during_handshake = ix.tr.evs.iter().any(|e| matches!(e, Ev::Submit { state: EState::PendingConnack, .. }));
    has(l, "connect_spans>=3") || during_handshake || ix.conns.len() >= 3
}

pub fn c07() -> EngineProp {
    EngineProp {
        id: "C07",
        profile: p07,
        monitors: m07_all,
        nontrivial: nt07,
        quick_cases: 8000,
        thorough_cases: 30_000,
        rule: "EngineSim histories of up to several connections with outcomes success (+assigned client id) / failing CONNACK / silence until the deadline / protocol garbage, user operations and DISCONNECT requests at any moment of the handshake, buffer capacities 4..4096, unsolicited and repeated CONNACKs; non-trivial = CONNECT spanning >= 3 service calls, or a user event during the handshake, or >= 3 connections; distinct = abstracted event history hash",
        directed: no_directed,
        fixup: common_fix,
        alt_profile: None,
    }
}

// ------------------------------------------------------------------------------------------------

fn p09(t: Tier) -> Profile {
    let mut p = Profile::default();
    p.qos_weights = [1, 4, 4];
    p.receive_max_small = true;
    p.one_at_a_time_bias = true;
    p.w_pub = 22;
    p.w_respond = 12;
    p.w_auto = 3;
    p.max_ops = if t == Tier::Quick { 70 } else { 400 };
    p
}

fn m09_all(ix: &Index) -> Vec<Violation> {
    mon::m09(ix)
}

fn nt09(ix: &Index, l: &[String]) -> bool {
    // bound reached at least once, or slow start with >= 2 interrupted operations
    let tr = ix.tr;
    for c in ix.conns.values() {
        let rm = c.connack.as_ref().and_then(|k| k.receive_maximum).unwrap_or(65535) as usize;
        let n = c.pkts.iter().filter(|&&p| matches!(&tr.emitted[p].pkt, rf::Packet::Publish(pp) if pp.qos > 0)).count();
        if rm <= 10 && n >= rm {
            return true;
        }
    }
    ix.cfg.one_at_a_time && has(l, "close_with_op_awaiting_ack") && has(l, "reconnect")
}

pub fn c09() -> EngineProp {
    EngineProp {
        id: "C09",
        profile: p09,
        monitors: m09_all,
        nontrivial: nt09,
        quick_cases: 8000,
        thorough_cases: 40_000,
        rule: "QoS1/2-heavy EngineSim histories with receive-maximum in {1,2,3,10,65535,absent}, reordered and delayed acks, resubmission bursts after reconnect, both drain policies; non-trivial = at least receive-maximum QoS>0 publishes sent on one connection (bound reachable), or one-at-a-time policy with an operation interrupted while awaiting its ack and a reconnect; distinct = abstracted event history hash",
        directed: no_directed,
        fixup: common_fix,
        alt_profile: None,
    }
}

// ------------------------------------------------------------------------------------------------

fn p10(t: Tier) -> Profile {
    let mut p = Profile::default();
    p.w_pub = 26;
    p.w_sub = 6;
    p.w_unsub = 5;
    p.receive_max_small = true;
    p.w_steer = 6;
    p.steer_positions = vec![Pos::UserOpHalfEncoded, Pos::AwaitingPuback, Pos::AwaitingPubrec, Pos::PublishUnflushed, Pos::UserOpQueued];
    p.steer_thens = vec![Then::Close];
    p.max_ops = if t == Tier::Quick { 80 } else { 500 };
    p
}

fn m10_all(ix: &Index) -> Vec<Violation> {
    mon::m10(ix)
}

fn nt10(ix: &Index, _l: &[String]) -> bool {
    let tr = ix.tr;
    ix.conns.values().any(|c| {
        let mut dup = std::collections::BTreeSet::new();
        let mut fresh = std::collections::BTreeSet::new();
        for &p in &c.pkts {
            let e = &tr.emitted[p];
            match &e.pkt {
                rf::Packet::Publish(pp) => {
                    if let Some(t) = e.tag {
                        if pp.dup {
                            dup.insert(t);
                        } else {
                            fresh.insert(t);
                        }
                    }
                }
                rf::Packet::Subscribe(_) | rf::Packet::Unsubscribe(_) => {
                    if let Some(t) = e.tag {
                        fresh.insert(t);
                    }
                }
                _ => {}
            }
        }
        dup.len() >= 2 && fresh.len() >= 2 || (dup.len() >= 1 && fresh.len() >= 3)
    })
}

pub fn c10() -> EngineProp {
    EngineProp {
        id: "C10",
        profile: p10,
        monitors: m10_all,
        nontrivial: nt10,
        quick_cases: 8000,
        thorough_cases: 40_000,
        rule: "EngineSim histories with long queues of mixed operations submitted while offline or throttled, closes with a duplicate publish half encoded and others in flight, session outcomes, offline policies and receive-maximum stalls; non-trivial = a connection carrying >= 2 retransmissions and >= 2 fresh operations (or >=1 and >=3); distinct = abstracted event history hash",
        directed: no_directed,
        fixup: common_fix,
        alt_profile: None,
    }
}

// ------------------------------------------------------------------------------------------------

fn p11(t: Tier) -> Profile {
    let mut p = Profile::default();
    p.policy_adversarial = true;
    p.w_adversary = 10;
    p.w_srv_publish = 5;
    p.w_srv_pubrel = 2;
    p.w_srv_disconnect = 1;
    p.aliases = true;
    p.timeouts = true;
    p.keep_alive = true;
    p.w_chunk = 2;
    p.w_steer = 6;
    p.steer_positions = vec![Pos::ConnectQueued, Pos::ConnectHalfEncoded, Pos::ConnectUnflushed, Pos::UserOpHalfEncoded, Pos::PubrelHalfEncoded, Pos::PublishUnflushed, Pos::AwaitingPubcomp, Pos::AwaitingPuback];
    p.steer_thens = vec![Then::ForceConnack, Then::FireAckTimeout, Then::Respond, Then::Close];
    p.max_ops = if t == Tier::Quick { 60 } else { 300 };
    p
}

fn m11_all(ix: &Index) -> Vec<Violation> {
    let mut v = mon::m11(ix, true);
    // survival: operations come through a connection error intact
    v.extend(mon::m01(ix).into_iter().filter(|x| x.rule == "C01.unresolved" || x.rule == "C01.resolved_twice").map(|mut x| {
        x.rule = format!("C11.survival:{}", x.rule);
        x
    }));
    v
}

fn nt11(_ix: &Index, l: &[String]) -> bool {
    has(l, "incoming_error") || has(l, "service_error") || has(l, "event_after_error") || has(l, "ack_timeout_fired") || l.iter().any(|x| x.starts_with("steer:Connect"))
}

pub fn c11() -> EngineProp {
    EngineProp {
        id: "C11",
        profile: p11,
        monitors: m11_all,
        nontrivial: nt11,
        quick_cases: 8000,
        thorough_cases: 50_000,
        rule: "driver-producible EngineSim histories against an adversarial broker (wrong-type / unknown-id / duplicate acks, reason-count mismatch, AUTH, second CONNACK, garbage, truncated packets, bad aliases, oversize packets, CONNACK before the CONNECT was flushed) with extreme configuration values (0 / 1 ms / huge timeouts, keep-alive 0/1/65535, capacity 4), plus compliant-broker cases for the converse clause; oracle: no entry point panics, after an error nothing is emitted / accepted / surfaced until close, every certain protocol violation is reported as an error, a compliant server is never blamed, connection-closed handling itself never fails; non-trivial = an error path taken, or an event delivered after an error, or an ack timeout fired, or a steered CONNACK during CONNECT transmission; distinct = abstracted event history hash",
        directed: no_directed,
        fixup: common_fix,
        alt_profile: Some(p11c),
    }
}

fn p11c(t: Tier) -> Profile {
    // compliant broker: converse clause
    let mut p = p11(t);
    p.policy_adversarial = false;
    p.w_adversary = 0;
    p.steer_thens = vec![Then::Respond, Then::Close, Then::Nothing];
    p
}

pub fn c11_converse_profile(t: Tier) -> Profile {
    p11c(t)
}

// ------------------------------------------------------------------------------------------------

fn p15(t: Tier) -> Profile {
    let mut p = Profile::default();
    p.w_close = 8;
    p.w_open = 7;
    p.w_pub = 16;
    p.w_sub = 6;
    p.w_unsub = 5;
    p.w_user_disconnect = 2;
    p.qos_weights = [3, 3, 3];
    p.w_steer = 6;
    p.steer_thens = vec![Then::Close];
    p.max_ops = if t == Tier::Quick { 60 } else { 300 };
    p
}

fn m15_all(ix: &Index) -> Vec<Violation> {
    mon::m15(ix)
}

fn nt15(ix: &Index, _l: &[String]) -> bool {
    if ix.cfg.offline == 0 {
        return false;
    }
    let mut rejected_alive = false;
    let mut preserved_alive = false;
    for c in ix.conns.values() {
        if let Some(cev) = c.close_ev {
            for r in ix.tags.values() {
                if let Some(k) = r.kind {
                    if r.submit_ev < cev && !r.resolved_before(cev) {
                        if mon::keeps(ix.cfg.offline, k) {
                            preserved_alive = true;
                        } else {
                            rejected_alive = true;
                        }
                    }
                }
            }
        }
    }
    let offline_submit = ix.tags.values().any(|r| r.submit_state != Some(EState::Connected));
    (rejected_alive && (preserved_alive || ix.cfg.offline == 3)) || (offline_submit && rejected_alive)
}

pub fn c15() -> EngineProp {
    EngineProp {
        id: "C15",
        profile: p15,
        monitors: m15_all,
        nontrivial: nt15,
        quick_cases: 8000,
        thorough_cases: 40_000,
        rule: "EngineSim histories over the four offline policies x all operation kinds x every position at the moment of disconnection (state-directed closes) x session present/absent x submissions in every non-connected engine state, ending with a drain phase against a responsive broker; non-trivial = policy != PreserveAll with an operation of a rejected kind alive across a disconnection together with a preserved one (or PreserveNothing), or submitted while offline; distinct = abstracted event history hash",
        directed: no_directed,
        fixup: common_fix,
        alt_profile: None,
    }
}

// ------------------------------------------------------------------------------------------------

fn p17(t: Tier) -> Profile {
    let mut p = Profile::default();
    p.aliases = true;
    p.dynamic_limits = true;
    p.w_pub = 26;
    p.w_sub = 1;
    p.w_unsub = 1;
    p.w_srv_publish = 10;
    p.policy_adversarial = true;
    p.w_adversary = 2;
    p.qos_weights = [4, 3, 2];
    p.max_ops = if t == Tier::Quick { 70 } else { 300 };
    p
}

fn m17_all(ix: &Index) -> Vec<Violation> {
    mon::m17(ix)
}

fn nt17(ix: &Index, l: &[String]) -> bool {
    let tr = ix.tr;
    let skip = tr.emitted.iter().any(|e| matches!(&e.pkt, rf::Packet::Publish(p) if p.topic.is_empty() && p.topic_alias.is_some()));
    let aliased = tr.emitted.iter().filter(|e| matches!(&e.pkt, rf::Packet::Publish(p) if p.topic_alias.is_some())).count();
    let inbound_alias = tr.evs.iter().any(|e| matches!(e, Ev::SrvSend { desc: SrvDesc::Publish { alias: Some(_), .. }, .. }));
    skip || (aliased >= 2 && has(l, "validation_failure")) || inbound_alias
}

pub fn c17() -> EngineProp {
    EngineProp {
        id: "C17",
        profile: p17,
        monitors: m17_all,
        nontrivial: nt17,
        quick_cases: 8000,
        thorough_cases: 40_000,
        rule: "publish-heavy EngineSim histories over 5 topics with the null / manual / LRU(1,2,10) resolvers, server alias maximum in {absent,0,1,2,8}, operations failing last-chance validation or interrupted after alias resolution, reconnects; inbound alias/topic sequences incl. rebinding and unknown / zero / out-of-range aliases; non-trivial = an outbound PUBLISH with empty topic + alias, or >= 2 aliased publishes with a validation failure between, or an inbound aliased PUBLISH; distinct = abstracted event history hash",
        directed: no_directed,
        fixup: common_fix,
        alt_profile: None,
    }
}

// ------------------------------------------------------------------------------------------------

fn p18(t: Tier) -> Profile {
    let mut p = Profile::default();
    p.timeouts = true;
    p.retries = true;
    p.qos_weights = [1, 4, 4];
    p.w_advance = 14;
    p.w_close = 7;
    p.w_open = 7;
    p.w_steer = 6;
    p.steer_thens = vec![Then::Close, Then::FireAckTimeout, Then::Respond];
    p.big_payloads = true;
    p.max_ops = if t == Tier::Quick { 60 } else { 300 };
    p
}

fn m18_all(ix: &Index) -> Vec<Violation> {
    mon::m18(ix, true)
}

fn nt18(ix: &Index, l: &[String]) -> bool {
    let interrupted_twice = ix.tags.values().any(|r| {
        let conns: std::collections::BTreeSet<usize> = r.emits.iter().chain(r.pubrels.iter()).map(|&x| ix.tr.emitted[x].conn).collect();
        conns.len() >= 2
    });
    has(l, "ack_timeout_fired") || has(l, "retries_exceeded") || (ix.cfg.retries.is_some() && interrupted_twice)
}

pub fn c18() -> EngineProp {
    EngineProp {
        id: "C18",
        profile: p18,
        monitors: m18_all,
        nontrivial: nt18,
        quick_cases: 2000,
        thorough_cases: 8_000,
        rule: "EngineSim histories with ack timeouts in {none,0,1,50,1000 ms}, clock advances of 0/1/49/50/51/999/1000/1500 ms and jumps to / just before / past the reported next-service time, multi-write packets, QoS2 handshakes, retry limits N in {0,1,2,5} and sequences of closes interleaved with partial progress; non-trivial = an ack timeout fired, or the retry limit was hit, or an operation was transmitted on >= 2 connections under a retry limit; distinct = abstracted event history hash",
        directed: no_directed,
        fixup: common_fix,
        alt_profile: None,
    }
}

#[allow(dead_code)]
pub fn unused() {
    let _ = no_fix;
}
