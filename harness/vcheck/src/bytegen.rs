//! Byte-driven twin of `gen.rs` for the coverage-guided tier.
//!
//! proptest's pass-through generator cannot be used for this: every `prop_oneof!` forks the generator once per
//! skipped alternative and each fork halves the remaining input, so any input is exhausted after a handful of
//! choices (and rand's rejection sampling then spins on the zero filler).  This module therefore decodes a
//! libFuzzer input directly: every choice consumes one or two bytes of the input, so a local mutation of the
//! input is a local change of the case (one field of one operation, one inserted or deleted operation).
//!
//! The decoder produces exactly the value domains of `gen.rs` (same sets, same profile switches and weights) -
//! it is a second generator for the same case space, not a wider one: every case it builds could have been
//! drawn by the proptest strategy, so the oracles' input assumptions hold unchanged.

use crate::gen::Profile;
use crate::model::*;

pub struct Cur<'a> {
    data: &'a [u8],
    off: usize,
}

impl<'a> Cur<'a> {
    pub fn new(data: &'a [u8]) -> Cur<'a> {
        Cur { data, off: 0 }
    }
    pub fn exhausted(&self) -> bool {
        self.off >= self.data.len()
    }
    pub fn byte(&mut self) -> u8 {
        let b = self.data.get(self.off).copied().unwrap_or(0);
        self.off += 1;
        b
    }
    pub fn u16(&mut self) -> u16 {
        let a = self.byte() as u16;
        let b = self.byte() as u16;
        a | (b << 8)
    }
    /// uniform-ish index below n (n >= 1)
    pub fn below(&mut self, n: usize) -> usize {
        if n <= 1 {
            return 0;
        }
        if n <= 256 {
            self.byte() as usize % n
        } else {
            self.u16() as usize % n
        }
    }
    /// true with probability about p
    pub fn prob(&mut self, p: f64) -> bool {
        let b = self.byte() as f64;
        b < p * 256.0
    }
    /// index drawn according to integer weights (zero weights are never chosen); returns None if all are zero
    pub fn weighted(&mut self, weights: &[u32]) -> Option<usize> {
        let total: u64 = weights.iter().map(|w| *w as u64).sum();
        if total == 0 {
            return None;
        }
        let v = if total <= 256 { self.byte() as u64 } else { self.u16() as u64 } % total;
        let mut acc = 0u64;
        for (i, w) in weights.iter().enumerate() {
            acc += *w as u64;
            if v < acc {
                return Some(i);
            }
        }
        None
    }
    pub fn pick<T: Clone>(&mut self, items: &[T]) -> T {
        items[self.below(items.len())].clone()
    }
    pub fn wpick<T: Clone>(&mut self, items: &[(u32, T)]) -> T {
        let ws: Vec<u32> = items.iter().map(|(w, _)| *w).collect();
        let i = self.weighted(&ws).unwrap_or(0);
        items[i].1.clone()
    }
}

fn timeout(c: &mut Cur, enabled: bool) -> Option<u32> {
    if enabled {
        c.wpick(&[(12, None), (4, Some(0u32)), (4, Some(1u32)), (8, Some(50u32)), (4, Some(1000u32)), (1, Some(u32::MAX))])
    } else {
        None
    }
}

fn size(c: &mut Cur, big: bool) -> u16 {
    if big {
        match c.weighted(&[4, 2, 2, 1]).unwrap_or(0) {
            0 => c.below(40) as u16,
            1 => 40 + c.below(360) as u16,
            2 => 4000 + (c.u16() % 5000),
            _ => 9000 + (c.u16() % 11000),
        }
    } else {
        match c.weighted(&[5, 2]).unwrap_or(0) {
            0 => c.below(24) as u16,
            _ => 24 + c.below(176) as u16,
        }
    }
}

pub fn op_from(c: &mut Cur, p: &Profile) -> Op {
    let weights = [
        p.w_pub,
        p.w_sub,
        p.w_unsub,
        p.w_user_disconnect,
        p.w_open,
        p.w_close,
        p.w_reset,
        p.w_service,
        p.w_service_unasked,
        p.w_flush,
        p.w_connack,
        p.w_respond,
        p.w_respond_all,
        p.w_srv_publish,
        p.w_srv_pubrel,
        p.w_srv_disconnect,
        p.w_adversary,
        p.w_advance,
        p.w_auto,
        p.w_chunk,
        p.w_steer,
    ];
    let arm = c.weighted(&weights).unwrap_or(7);
    match arm {
        0 => {
            let qos = c.weighted(&p.qos_weights).unwrap_or(0) as u8;
            let topic = c.below(5) as u8;
            let size = size(c, p.big_payloads);
            let retain = c.prob(if p.dynamic_limits { 0.3 } else { 0.05 });
            let timeout_ms = timeout(c, p.timeouts);
            let alias = if p.aliases && c.prob(0.6) { Some(c.below(6) as u16) } else { None };
            Op::Pub { qos, topic, size, retain, timeout_ms, alias }
        }
        1 => {
            let n = 1 + c.below(3) as u8;
            let timeout_ms = timeout(c, p.timeouts);
            let wild = c.prob(if p.dynamic_limits { 0.4 } else { 0.1 });
            let shared = c.prob(if p.dynamic_limits { 0.3 } else { 0.05 });
            Op::Sub { n, timeout_ms, wild, shared, sub_id: false }
        }
        2 => {
            let n = 1 + c.below(3) as u8;
            let timeout_ms = timeout(c, p.timeouts);
            Op::Unsub { n, timeout_ms }
        }
        3 => Op::UserDisconnect,
        4 => Op::Open { deadline_ms: c.wpick(&[(4, 30_000u32), (1, 0), (1, 1), (1, 500)]) },
        5 => Op::Close,
        6 => Op::Reset,
        7 => Op::Service,
        8 => Op::ServiceUnasked,
        9 => {
            let part = match c.weighted(&[3, 2, 1]).unwrap_or(0) {
                0 => 65535u16,
                1 => c.u16(),
                _ => 0,
            };
            Op::Flush { part }
        }
        10 => {
            let kind = match c.weighted(&[6, 2, 1]).unwrap_or(0) {
                0 => ConnackKind::Ok,
                1 => ConnackKind::OkSessionLost,
                _ => ConnackKind::Fail(c.below(21) as u8),
            };
            Op::Connack { kind }
        }
        11 => {
            let ix = c.u16();
            let how = c.wpick(&[(6, RespondHow::Normal), (1, RespondHow::FailReason), (1, RespondHow::ExplicitForm)]);
            Op::Respond { ix, how }
        }
        12 => Op::RespondAll,
        13 => {
            let qos = c.below(3) as u8;
            let pid = c.below(4) as u8;
            let dup = c.prob(0.2);
            let topic = c.below(3) as u8;
            let alias = if p.aliases && c.prob(0.5) { Some(c.below(5) as u16) } else { None };
            let skip_topic = c.prob(0.4);
            let size = c.below(20) as u8;
            Op::SrvPublish { qos, pid, dup, topic, alias, skip_topic, size }
        }
        14 => Op::SrvPubrel { pid: c.below(4) as u8 },
        15 => Op::SrvDisconnect,
        16 => {
            let kinds = [Adv::WrongTypeAck, Adv::UnknownIdAck, Adv::DuplicateAck, Adv::ReasonCountMismatch, Adv::Auth, Adv::SecondConnack, Adv::Garbage, Adv::Truncated, Adv::UnsolicitedPingresp, Adv::PublishPidZero, Adv::BadAlias, Adv::PubcompBeforePubrel, Adv::ServerDisconnectBeforeConnack, Adv::OversizedPacket, Adv::ClientOnlyPacket];
            let kind = c.pick(&kinds);
            Op::Adversary { kind, ix: c.u16() }
        }
        17 => {
            let kind = match c.weighted(&[3, 3, 1, 1]).unwrap_or(0) {
                0 => AdvKind::Ms(c.pick(&[0u32, 1, 49, 50, 51, 999, 1000, 1500, 30_000])),
                1 => AdvKind::ToNextService,
                2 => AdvKind::BeforeNextService,
                _ => AdvKind::PastNextService(c.pick(&[1u32, 700, 5000])),
            };
            Op::Advance { kind }
        }
        18 => Op::Auto { steps: 1 + c.below(11) as u8 },
        19 => Op::Chunk { size: c.pick(&[1u16, 2, 3, 7, 4096]) },
        _ => {
            if p.steer_positions.is_empty() || p.steer_thens.is_empty() {
                Op::Service
            } else {
                Op::Steer { pos: c.pick(&p.steer_positions), then: c.pick(&p.steer_thens) }
            }
        }
    }
}

fn connack_template_from(c: &mut Cur, p: &Profile) -> ConnackTemplate {
    let receive_max = if p.receive_max_small { c.wpick(&[(3, Some(1u16)), (2, Some(2)), (2, Some(3)), (1, Some(10)), (1, Some(65535)), (1, None)]) } else { c.wpick(&[(5, None), (1, Some(2u16)), (1, Some(10)), (1, Some(65535))]) };
    let dynamic = p.dynamic_limits;
    let max_qos = if dynamic { c.wpick(&[(3, None), (1, Some(0u8)), (1, Some(1))]) } else { None };
    let retain_available = if dynamic { c.wpick(&[(2, None), (1, Some(true)), (1, Some(false))]) } else { None };
    let max_packet = if dynamic { c.wpick(&[(3, None), (1, Some(40u32)), (1, Some(64)), (1, Some(300)), (1, Some(268_435_455))]) } else { None };
    let alias_max = if p.aliases { c.wpick(&[(1, None), (1, Some(0u16)), (2, Some(1)), (2, Some(2)), (1, Some(8))]) } else { c.wpick(&[(4, None), (1, Some(3u16))]) };
    let server_keep_alive = if p.keep_alive { c.wpick(&[(2, None), (1, Some(0u16)), (1, Some(1)), (1, Some(2)), (1, Some(3)), (1, Some(7)), (1, Some(65535))]) } else { None };
    let mut avail = |c: &mut Cur| if dynamic { c.wpick(&[(2, None), (1, Some(true)), (1, Some(false))]) } else { None };
    let wildcard_available = avail(c);
    let subid_available = avail(c);
    let shared_available = avail(c);
    let session_expiry = if c.prob(0.2) { Some(c.pick(&[0u32, 100])) } else { None };
    let assign_client_id = c.prob(0.8);
    ConnackTemplate { receive_max, max_qos, retain_available, max_packet, alias_max, server_keep_alive, wildcard_available, subid_available, shared_available, session_expiry, assign_client_id }
}

pub fn cfg_from(c: &mut Cur, p: &Profile) -> SimCfg {
    let buf_cap = if p.small_buffers { c.wpick(&[(3, 4usize), (2, 5), (2, 7), (2, 16), (2, 64), (3, 4096)]) } else { c.wpick(&[(1, 16usize), (1, 64), (4, 4096)]) };
    let keep_alive = if p.keep_alive { c.pick(&[None, Some(0u16), Some(1), Some(2), Some(3), Some(5), Some(60), Some(65535)]) } else { c.wpick(&[(4, None), (1, Some(0u16)), (1, Some(1200))]) };
    let ping_timeout_ms = c.wpick(&[(1, 0u64), (1, 1), (2, 400), (3, 10_000), (1, 100_000_000)]);
    let resolver = if p.aliases { c.wpick(&[(1, Resolver::Null), (3, Resolver::Manual), (2, Resolver::Lru(1)), (3, Resolver::Lru(2)), (1, Resolver::Lru(10))]) } else { c.wpick(&[(5, Resolver::Null), (1, Resolver::Lru(2))]) };
    let retries = if p.retries { c.wpick(&[(1, None), (2, Some(0u32)), (2, Some(1)), (2, Some(2)), (1, Some(5))]) } else { c.wpick(&[(4, None), (1, Some(1u32))]) };
    let one_at_a_time = c.prob(if p.one_at_a_time_bias { 0.7 } else { 0.25 });
    let client_id = c.wpick(&[(3, Some("c".to_string())), (1, None), (1, Some("client-\u{e9}\u{4e16}".to_string()))]);
    let client_alias_max = if p.aliases { c.wpick(&[(1, None), (1, Some(0u16)), (2, Some(2)), (1, Some(8))]) } else { c.wpick(&[(3, None), (1, Some(2u16))]) };
    let v5 = c.prob(0.6);
    let offline = c.below(4) as u8;
    let rejoin = c.below(3) as u8;
    let first_pid = match c.weighted(&[13, 3, 2]).unwrap_or(0) {
        0 => 0u16,
        1 => 65533 + c.below(3) as u16,
        _ => 65520 + c.below(16) as u16,
    };
    let client_max_packet = if c.prob(0.15) { Some(c.pick(&[50u32, 200, 268_435_455])) } else { None };
    let session_expiry = if c.prob(0.3) { Some(c.pick(&[0u32, 3600])) } else { None };
    let connack = connack_template_from(c, p);
    let connack_alt = if c.prob(0.4) { Some(connack_template_from(c, p)) } else { None };
    let session_loss_every = c.wpick(&[(5, 0u8), (2, 2u8), (1, 3u8)]);
    let mut cfg = SimCfg {
        v5,
        offline,
        one_at_a_time,
        retries,
        rejoin,
        keep_alive,
        ping_timeout_ms,
        client_id,
        client_alias_max,
        client_max_packet,
        session_expiry,
        resolver,
        buf_cap,
        connack,
        policy: if p.policy_adversarial { BrokerPolicy::Adversarial } else { BrokerPolicy::Compliant },
        allow_unasked_service: p.allow_unasked,
        drain: p.drain,
        first_pid,
        connack_alt,
        session_loss_every,
    };
    if !cfg.v5 {
        // MQTT 3.1.1 has no CONNACK properties (same normalisation as gen::cfg_strategy)
        cfg.connack = ConnackTemplate { assign_client_id: false, ..ConnackTemplate::default() };
        cfg.connack_alt = None;
        cfg.client_alias_max = None;
        cfg.client_max_packet = None;
        cfg.session_expiry = None;
    }
    cfg
}

/// configuration from a fixed-size header region, operations from the rest (one operation after the other until
/// the input is used up or the profile's history bound is reached)
pub fn sim_case_from(data: &[u8], p: &Profile) -> SimCase {
    const CFG_BYTES: usize = 64;
    let (head, tail) = if data.len() > CFG_BYTES { data.split_at(CFG_BYTES) } else { (data, &data[0..0]) };
    let mut hc = Cur::new(head);
    let cfg = cfg_from(&mut hc, p);
    let mut c = Cur::new(tail);
    let mut ops = Vec::new();
    let bound = p.max_ops.saturating_sub(1);
    while !c.exhausted() && ops.len() < bound {
        ops.push(op_from(&mut c, p));
    }
    SimCase { cfg, ops }
}
