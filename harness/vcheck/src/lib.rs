//! vcheck: property-based checks of gneiss-mqtt (library part: generators, simulators, monitors, runner).
#![allow(dead_code, unused_variables, clippy::all)]

pub mod abs;
pub mod bytegen;
pub mod c02;
pub mod c03;
pub mod c16;
pub mod clientsim;
pub mod faithful;
pub mod fuzzrun;
pub mod gen;
pub mod model;
pub mod mon;
pub mod panichook;
pub mod props_engine;
pub mod real;
pub mod runner;
pub mod sim;
