//! proptest strategies for simulator cases.  Every random choice lives here, so cases shrink and replay.

use crate::model::*;
use proptest::collection::vec;
use proptest::option;
use proptest::prelude::*;

/// Relative weights of the operation families; each property biases the alphabet towards what it needs.
#[derive(Clone, Debug)]
pub struct Profile {
    pub w_pub: u32,
    pub w_sub: u32,
    pub w_unsub: u32,
    pub w_user_disconnect: u32,
    pub w_open: u32,
    pub w_close: u32,
    pub w_reset: u32,
    pub w_service: u32,
    pub w_service_unasked: u32,
    pub w_flush: u32,
    pub w_connack: u32,
    pub w_respond: u32,
    pub w_respond_all: u32,
    pub w_srv_publish: u32,
    pub w_srv_pubrel: u32,
    pub w_srv_disconnect: u32,
    pub w_adversary: u32,
    pub w_advance: u32,
    pub w_auto: u32,
    pub w_chunk: u32,
    pub w_steer: u32,
    pub max_ops: usize,
    pub qos_weights: [u32; 3],
    pub timeouts: bool,
    pub big_payloads: bool,
    pub aliases: bool,
    pub small_buffers: bool,
    pub policy_adversarial: bool,
    pub allow_unasked: bool,
    pub keep_alive: bool,
    pub dynamic_limits: bool,
    pub steer_positions: Vec<Pos>,
    pub steer_thens: Vec<Then>,
    pub one_at_a_time_bias: bool,
    pub receive_max_small: bool,
    pub retries: bool,
    pub drain: bool,
}

impl Default for Profile {
    fn default() -> Self {
        Profile {
            w_pub: 14,
            w_sub: 4,
            w_unsub: 3,
            w_user_disconnect: 1,
            w_open: 6,
            w_close: 5,
            w_reset: 0,
            w_service: 16,
            w_service_unasked: 0,
            w_flush: 14,
            w_connack: 6,
            w_respond: 14,
            w_respond_all: 3,
            w_srv_publish: 3,
            w_srv_pubrel: 1,
            w_srv_disconnect: 0,
            w_adversary: 0,
            w_advance: 6,
            w_auto: 5,
            w_chunk: 1,
            w_steer: 4,
            max_ops: 60,
            qos_weights: [2, 3, 3],
            timeouts: false,
            big_payloads: false,
            aliases: false,
            small_buffers: true,
            policy_adversarial: false,
            allow_unasked: false,
            keep_alive: false,
            dynamic_limits: false,
            steer_positions: vec![Pos::UserOpHalfEncoded, Pos::PublishUnflushed, Pos::AwaitingPuback, Pos::AwaitingPubrec, Pos::PubrelQueued, Pos::PubrelHalfEncoded, Pos::AwaitingPubcomp, Pos::SubAwaitingAck, Pos::UserOpQueued],
            steer_thens: vec![Then::Close, Then::Close, Then::Respond, Then::Nothing],
            one_at_a_time_bias: false,
            receive_max_small: false,
            retries: false,
            drain: true,
        }
    }
}

fn pick<T: Clone + std::fmt::Debug + 'static>(items: Vec<T>) -> BoxedStrategy<T> {
    let n = items.len();
    (0..n).prop_map(move |i| items[i].clone()).boxed()
}

fn timeout_strategy(enabled: bool) -> BoxedStrategy<Option<u32>> {
    if enabled {
        prop_oneof![12 => Just(None), 4 => Just(Some(0u32)), 4 => Just(Some(1u32)), 8 => Just(Some(50u32)), 4 => Just(Some(1000u32)), 1 => Just(Some(u32::MAX))].boxed()
    } else {
        Just(None).boxed()
    }
}

fn size_strategy(big: bool) -> BoxedStrategy<u16> {
    if big {
        prop_oneof![4 => 0u16..40, 2 => 40u16..400, 2 => 4000u16..9000, 1 => 9000u16..20000].boxed()
    } else {
        prop_oneof![5 => 0u16..24, 2 => 24u16..200].boxed()
    }
}

pub fn op_strategy(p: &Profile) -> BoxedStrategy<Op> {
    let qw = p.qos_weights;
    let qos = prop_oneof![qw[0] => Just(0u8), qw[1] => Just(1u8), qw[2] => Just(2u8)];
    let alias = if p.aliases { option::weighted(0.6, 0u16..6).boxed() } else { Just(None).boxed() };
    let publish = (qos, 0u8..5, size_strategy(p.big_payloads), prop::bool::weighted(if p.dynamic_limits { 0.3 } else { 0.05 }), timeout_strategy(p.timeouts), alias)
        .prop_map(|(qos, topic, size, retain, timeout_ms, alias)| Op::Pub { qos, topic, size, retain, timeout_ms, alias });
    let sub = (1u8..4, timeout_strategy(p.timeouts), prop::bool::weighted(if p.dynamic_limits { 0.4 } else { 0.1 }), prop::bool::weighted(if p.dynamic_limits { 0.3 } else { 0.05 }), prop::bool::weighted(0.0))
        .prop_map(|(n, timeout_ms, wild, shared, sub_id)| Op::Sub { n, timeout_ms, wild, shared, sub_id });
    let unsub = (1u8..4, timeout_strategy(p.timeouts)).prop_map(|(n, timeout_ms)| Op::Unsub { n, timeout_ms });
    let open = prop_oneof![4 => Just(30_000u32), 1 => Just(0u32), 1 => Just(1u32), 1 => Just(500u32)].prop_map(|deadline_ms| Op::Open { deadline_ms });
    let flush = prop_oneof![3 => Just(65535u16), 2 => any::<u16>(), 1 => Just(0u16)].prop_map(|part| Op::Flush { part });
    let connack = prop_oneof![6 => Just(ConnackKind::Ok), 2 => Just(ConnackKind::OkSessionLost), 1 => (0u8..21).prop_map(ConnackKind::Fail)].prop_map(|kind| Op::Connack { kind });
    let respond = (any::<u16>(), prop_oneof![6 => Just(RespondHow::Normal), 1 => Just(RespondHow::FailReason), 1 => Just(RespondHow::ExplicitForm)]).prop_map(|(ix, how)| Op::Respond { ix, how });
    let srv_publish = (0u8..3, 0u8..4, prop::bool::weighted(0.2), 0u8..3, if p.aliases { option::weighted(0.5, 0u16..5).boxed() } else { Just(None).boxed() }, prop::bool::weighted(0.4), 0u8..20)
        .prop_map(|(qos, pid, dup, topic, alias, skip_topic, size)| Op::SrvPublish { qos, pid, dup, topic, alias, skip_topic, size });
    let srv_pubrel = (0u8..4).prop_map(|pid| Op::SrvPubrel { pid });
    let adv_kinds = vec![Adv::WrongTypeAck, Adv::UnknownIdAck, Adv::DuplicateAck, Adv::ReasonCountMismatch, Adv::Auth, Adv::SecondConnack, Adv::Garbage, Adv::Truncated, Adv::UnsolicitedPingresp, Adv::PublishPidZero, Adv::BadAlias, Adv::PubcompBeforePubrel, Adv::ServerDisconnectBeforeConnack, Adv::OversizedPacket, Adv::ClientOnlyPacket];
    let adversary = (pick(adv_kinds), any::<u16>()).prop_map(|(kind, ix)| Op::Adversary { kind, ix });
    let advance = prop_oneof![
        3 => prop_oneof![Just(0u32), Just(1u32), Just(49u32), Just(50u32), Just(51u32), Just(999u32), Just(1000u32), Just(1500u32), Just(30_000u32)].prop_map(AdvKind::Ms),
        3 => Just(AdvKind::ToNextService),
        1 => Just(AdvKind::BeforeNextService),
        1 => prop_oneof![Just(1u32), Just(700u32), Just(5000u32)].prop_map(AdvKind::PastNextService),
    ]
    .prop_map(|kind| Op::Advance { kind });
    let auto = (1u8..12).prop_map(|steps| Op::Auto { steps });
    let chunk = prop_oneof![Just(1u16), Just(2u16), Just(3u16), Just(7u16), Just(4096u16)].prop_map(|size| Op::Chunk { size });
    let steer = (pick(p.steer_positions.clone()), pick(p.steer_thens.clone())).prop_map(|(pos, then)| Op::Steer { pos, then });

    let mut arms: Vec<(u32, BoxedStrategy<Op>)> = vec![
        (p.w_pub, publish.boxed()),
        (p.w_sub, sub.boxed()),
        (p.w_unsub, unsub.boxed()),
        (p.w_user_disconnect, Just(Op::UserDisconnect).boxed()),
        (p.w_open, open.boxed()),
        (p.w_close, Just(Op::Close).boxed()),
        (p.w_reset, Just(Op::Reset).boxed()),
        (p.w_service, Just(Op::Service).boxed()),
        (p.w_service_unasked, Just(Op::ServiceUnasked).boxed()),
        (p.w_flush, flush.boxed()),
        (p.w_connack, connack.boxed()),
        (p.w_respond, respond.boxed()),
        (p.w_respond_all, Just(Op::RespondAll).boxed()),
        (p.w_srv_publish, srv_publish.boxed()),
        (p.w_srv_pubrel, srv_pubrel.boxed()),
        (p.w_srv_disconnect, Just(Op::SrvDisconnect).boxed()),
        (p.w_adversary, adversary.boxed()),
        (p.w_advance, advance.boxed()),
        (p.w_auto, auto.boxed()),
        (p.w_chunk, chunk.boxed()),
        (p.w_steer, steer.boxed()),
    ];
    arms.retain(|(w, _)| *w > 0);
    proptest::strategy::Union::new_weighted(arms).boxed()
}

pub fn connack_template_strategy(p: &Profile) -> BoxedStrategy<ConnackTemplate> {
    let rm = if p.receive_max_small {
        prop_oneof![3 => Just(Some(1u16)), 2 => Just(Some(2u16)), 2 => Just(Some(3u16)), 1 => Just(Some(10u16)), 1 => Just(Some(65535u16)), 1 => Just(None)].boxed()
    } else {
        prop_oneof![5 => Just(None), 1 => Just(Some(2u16)), 1 => Just(Some(10u16)), 1 => Just(Some(65535u16))].boxed()
    };
    let dynamic = p.dynamic_limits;
    let max_qos = if dynamic { prop_oneof![3 => Just(None), 1 => Just(Some(0u8)), 1 => Just(Some(1u8))].boxed() } else { Just(None).boxed() };
    let retain = if dynamic { prop_oneof![2 => Just(None), 1 => Just(Some(true)), 1 => Just(Some(false))].boxed() } else { Just(None).boxed() };
    let max_packet = if dynamic { prop_oneof![3 => Just(None), 1 => Just(Some(40u32)), 1 => Just(Some(64u32)), 1 => Just(Some(300u32)), 1 => Just(Some(268_435_455u32))].boxed() } else { Just(None).boxed() };
    let alias_max = if p.aliases { prop_oneof![1 => Just(None), 1 => Just(Some(0u16)), 2 => Just(Some(1u16)), 2 => Just(Some(2u16)), 1 => Just(Some(8u16))].boxed() } else { prop_oneof![4 => Just(None), 1 => Just(Some(3u16))].boxed() };
    let ska = if p.keep_alive { prop_oneof![2 => Just(None), 1 => Just(Some(0u16)), 1 => Just(Some(1u16)), 1 => Just(Some(2u16)), 1 => Just(Some(3u16)), 1 => Just(Some(7u16)), 1 => Just(Some(65535u16))].boxed() } else { Just(None).boxed() };
    let avail = move || if dynamic { prop_oneof![2 => Just(None), 1 => Just(Some(true)), 1 => Just(Some(false))].boxed() } else { Just(None).boxed() };
    (rm, max_qos, retain, max_packet, alias_max, ska, avail(), avail(), avail(), option::weighted(0.2, prop_oneof![Just(0u32), Just(100u32)]), prop::bool::weighted(0.8))
        .prop_map(|(receive_max, max_qos, retain_available, max_packet, alias_max, server_keep_alive, wildcard_available, subid_available, shared_available, session_expiry, assign_client_id)| ConnackTemplate {
            receive_max,
            max_qos,
            retain_available,
            max_packet,
            alias_max,
            server_keep_alive,
            wildcard_available,
            subid_available,
            shared_available,
            session_expiry,
            assign_client_id,
        })
        .boxed()
}

pub fn cfg_strategy(p: &Profile) -> BoxedStrategy<SimCfg> {
    let buf = if p.small_buffers {
        prop_oneof![3 => Just(4usize), 2 => Just(5usize), 2 => Just(7usize), 2 => Just(16usize), 2 => Just(64usize), 3 => Just(4096usize)].boxed()
    } else {
        prop_oneof![1 => Just(16usize), 1 => Just(64usize), 4 => Just(4096usize)].boxed()
    };
    let keep_alive = if p.keep_alive {
        prop_oneof![Just(None), Just(Some(0u16)), Just(Some(1u16)), Just(Some(2u16)), Just(Some(3u16)), Just(Some(5u16)), Just(Some(60u16)), Just(Some(65535u16))].boxed()
    } else {
        prop_oneof![4 => Just(None), 1 => Just(Some(0u16)), 1 => Just(Some(1200u16))].boxed()
    };
    let ping_timeout = prop_oneof![1 => Just(0u64), 1 => Just(1u64), 2 => Just(400u64), 3 => Just(10_000u64), 1 => Just(100_000_000u64)];
    let resolver = if p.aliases { prop_oneof![1 => Just(Resolver::Null), 3 => Just(Resolver::Manual), 2 => Just(Resolver::Lru(1)), 3 => Just(Resolver::Lru(2)), 1 => Just(Resolver::Lru(10))].boxed() } else { prop_oneof![5 => Just(Resolver::Null), 1 => Just(Resolver::Lru(2))].boxed() };
    let retries = if p.retries { prop_oneof![1 => Just(None), 2 => Just(Some(0u32)), 2 => Just(Some(1u32)), 2 => Just(Some(2u32)), 1 => Just(Some(5u32))].boxed() } else { prop_oneof![4 => Just(None), 1 => Just(Some(1u32))].boxed() };
    let one = if p.one_at_a_time_bias { prop::bool::weighted(0.7).boxed() } else { prop::bool::weighted(0.25).boxed() };
    let client_id = prop_oneof![3 => Just(Some("c".to_string())), 1 => Just(None), 1 => Just(Some("client-\u{e9}\u{4e16}".to_string()))];
    let adversarial = p.policy_adversarial;
    let allow_unasked = p.allow_unasked;
    let drain = p.drain;
    let client_alias = if p.aliases { prop_oneof![1 => Just(None), 1 => Just(Some(0u16)), 2 => Just(Some(2u16)), 1 => Just(Some(8u16))].boxed() } else { prop_oneof![3 => Just(None), 1 => Just(Some(2u16))].boxed() };
    (
        (prop::bool::weighted(0.6), 0u8..4, one, retries, 0u8..3, keep_alive, ping_timeout),
        (client_id, client_alias, prop_oneof![13 => Just(0u16), 3 => 65533u16..=65535, 2 => 65520u16..=65535], option::weighted(0.15, prop_oneof![Just(50u32), Just(200u32), Just(268_435_455u32)]), option::weighted(0.3, prop_oneof![Just(0u32), Just(3600u32)]), resolver, buf, connack_template_strategy(p), option::weighted(0.4, connack_template_strategy(p)), prop_oneof![5 => Just(0u8), 2 => Just(2u8), 1 => Just(3u8)]),
    )
        .prop_map(move |((v5, offline, one_at_a_time, retries, rejoin, keep_alive, ping_timeout_ms), (client_id, client_alias_max, first_pid, client_max_packet, session_expiry, resolver, buf_cap, connack, connack_alt, session_loss_every))| {
            let mut cfg = SimCfg {
                v5,
                offline,
                one_at_a_time,
                retries,
                rejoin,
                keep_alive,
                ping_timeout_ms,
                client_id,
                client_alias_max,
                client_max_packet,
                session_expiry,
                resolver,
                buf_cap,
                connack,
                policy: if adversarial { BrokerPolicy::Adversarial } else { BrokerPolicy::Compliant },
                allow_unasked_service: allow_unasked,
                drain,
                first_pid,
                connack_alt,
                session_loss_every,
            };
            if !cfg.v5 {
                // MQTT 3.1.1 has no CONNACK properties
                cfg.connack = ConnackTemplate { assign_client_id: false, ..ConnackTemplate::default() };
                cfg.connack_alt = None;
                cfg.client_alias_max = None;
                cfg.client_max_packet = None;
                cfg.session_expiry = None;
            }
            cfg
        })
        .boxed()
}

pub fn sim_case_strategy(p: &Profile) -> BoxedStrategy<SimCase> {
    (cfg_strategy(p), vec(op_strategy(p), 0..p.max_ops)).prop_map(|(cfg, ops)| SimCase { cfg, ops }).boxed()
}
