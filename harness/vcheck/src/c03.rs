//! C03 - inbound decoding is faithful, chunking-invariant and robust to hostile bytes.

use crate::panichook::guarded;
use crate::runner::{hash_bytes, hash_str, CaseReport, Property, Tier, Violation};
use gneiss_mqtt::client::config::ProtocolMode;
use gneiss_mqtt::mqtt::*;
use gneiss_mqtt::verif as gv;
use proptest::collection::vec;
use proptest::option;
use proptest::prelude::*;
use refmqtt as rf;
use serde::{Deserialize, Serialize};
use serde_json::json;

#[derive(Clone, Debug, Serialize, Deserialize, PartialEq, Eq)]
pub struct C03Case {
    pub v5: bool,
    /// the byte stream a server sends (hex)
    pub stream: String,
    /// read sizes of the additional generated partition (the fixed partitions are always tried)
    pub cuts: Vec<u16>,
    /// maximum packet size in force (0 = none)
    pub max_size: u32,
    /// what the generator did, for labels only
    pub note: String,
}

pub struct C03;

pub fn unhex(s: &str) -> Vec<u8> {
    (0..s.len() / 2).filter_map(|i| u8::from_str_radix(&s[2 * i..2 * i + 2], 16).ok()).collect()
}

pub fn hex(b: &[u8]) -> String {
    b.iter().map(|x| format!("{:02x}", x)).collect()
}

// ------------------------------------------------------------------------------------------------
// generator: abstract server packets -> reference encoder -> (optional) mutation
// ------------------------------------------------------------------------------------------------

fn ustr() -> BoxedStrategy<String> {
    prop_oneof![
        4 => "[a-z0-9/ ]{0,12}",
        1 => Just(String::new()),
        1 => "[\u{80}-\u{7ff}\u{800}-\u{d7ff}\u{e000}-\u{fffd}\u{10000}-\u{10fffd}]{1,6}",
        1 => "[a-z]{120,135}",
    ]
    .boxed()
}

fn topic() -> BoxedStrategy<String> {
    prop_oneof![4 => "[a-z0-9]{1,6}(/[a-z0-9]{0,5}){0,4}", 1 => "[\u{e9}\u{4e16}a-z]{1,5}/[a-z]{1,3}"].boxed()
}

fn props() -> BoxedStrategy<Vec<(String, String)>> {
    prop_oneof![4 => Just(Vec::new()), 2 => vec((ustr(), ustr()), 1..4), 1 => vec((ustr(), ustr()), 4..12)].boxed()
}

fn bin() -> BoxedStrategy<Vec<u8>> {
    prop_oneof![3 => vec(any::<u8>(), 0..16), 1 => vec(any::<u8>(), 120..140), 1 => Just(Vec::new())].boxed()
}

fn pidgen() -> BoxedStrategy<u16> {
    prop_oneof![Just(1u16), Just(255u16), Just(256u16), Just(65535u16), 1u16..=65535].boxed()
}

fn reason(type_code: u8) -> BoxedStrategy<u8> {
    let codes: Vec<u8> = rf::legal_reason_codes(type_code, rf::Direction::ServerToClient).to_vec();
    let n = codes.len().max(1);
    (0..n).prop_map(move |i| codes.get(i).copied().unwrap_or(0)).boxed()
}

fn ack(type_code: u8) -> BoxedStrategy<rf::Ack> {
    (pidgen(), reason(type_code), option::weighted(0.3, ustr()), props()).prop_map(|(pid, reason, reason_string, user_props)| rf::Ack { pid, reason, reason_string, user_props }).boxed()
}

fn connack(v5: bool) -> BoxedStrategy<rf::Connack> {
    if !v5 {
        return (any::<bool>(), 0u8..6).prop_map(|(sp, rc)| rf::Connack { session_present: sp && rc == 0, reason: rc, ..Default::default() }).boxed();
    }
    (
        (any::<bool>(), reason(2), option::weighted(0.3, any::<u32>()), option::weighted(0.3, 1u16..=65535), option::weighted(0.3, 0u8..2), option::weighted(0.3, any::<bool>()), option::weighted(0.3, 1u32..=u32::MAX), option::weighted(0.3, ustr()), option::weighted(0.3, any::<u16>()), option::weighted(0.3, ustr())),
        (props(), option::weighted(0.3, any::<bool>()), option::weighted(0.3, any::<bool>()), option::weighted(0.3, any::<bool>()), option::weighted(0.3, any::<u16>()), option::weighted(0.2, ustr()), option::weighted(0.2, ustr()), option::weighted(0.2, ustr()), option::weighted(0.2, bin())),
    )
        .prop_map(|((sp, rc, se, rm, mq, ra, mps, aci, tam, rs), (up, wsa, sia, ssa, ska, ri, sr, am, ad))| rf::Connack {
            session_present: sp && rc == 0,
            reason: rc,
            session_expiry: se,
            receive_maximum: rm,
            maximum_qos: mq,
            retain_available: ra,
            maximum_packet_size: mps,
            assigned_client_id: aci,
            topic_alias_maximum: tam,
            reason_string: rs,
            user_props: up,
            wildcard_subscription_available: wsa,
            subscription_identifiers_available: sia,
            shared_subscription_available: ssa,
            server_keep_alive: ska,
            response_information: ri,
            server_reference: sr,
            auth_method: am.clone(),
            auth_data: if am.is_some() { ad } else { None },
        })
        .boxed()
}

fn publish(v5: bool) -> BoxedStrategy<rf::Publish> {
    (
        (0u8..3, any::<bool>(), any::<bool>(), topic(), pidgen(), prop_oneof![3 => vec(any::<u8>(), 0..24), 1 => vec(any::<u8>(), 100..300), 1 => Just(Vec::new())]),
        (option::weighted(0.3, 0u8..2), option::weighted(0.3, any::<u32>()), option::weighted(0.3, 1u16..=65535), option::weighted(0.3, topic()), option::weighted(0.3, bin()), vec(prop_oneof![Just(1u32), Just(127u32), Just(128u32), Just(268_435_455u32), 1u32..268_435_455], 0..3), option::weighted(0.3, ustr()), props(), any::<bool>()),
    )
        .prop_map(move |((qos, dup, retain, topic, pid, payload), (pf, me, ta, rt, cd, sids, ct, up, empty_topic))| {
            let mut p = rf::Publish { dup: dup && qos > 0, qos, retain, topic, pid: if qos > 0 { Some(pid) } else { None }, payload, ..Default::default() };
            if v5 {
                p.payload_format = pf;
                p.message_expiry = me;
                p.topic_alias = ta;
                p.response_topic = rt;
                p.correlation_data = cd;
                p.subscription_ids = sids;
                p.content_type = ct;
                p.user_props = up;
                if empty_topic && ta.is_some() {
                    p.topic = String::new();
                }
            }
            p
        })
        .boxed()
}

fn server_packet(v5: bool) -> BoxedStrategy<rf::Packet> {
    let suback = (pidgen(), option::weighted(0.3, ustr()), props(), vec(if v5 { reason(9) } else { prop_oneof![Just(0u8), Just(1u8), Just(2u8), Just(0x80u8)].boxed() }, 1..6)).prop_map(|(pid, reason_string, user_props, reasons)| rf::Suback { pid, reason_string, user_props, reasons });
    let unsuback = (pidgen(), option::weighted(0.3, ustr()), props(), vec(reason(11), 1..6)).prop_map(move |(pid, reason_string, user_props, reasons)| rf::Unsuback { pid, reason_string, user_props, reasons: if v5 { reasons } else { vec![] } });
    let mut arms: Vec<(u32, BoxedStrategy<rf::Packet>)> = vec![
        (3, connack(v5).prop_map(rf::Packet::Connack).boxed()),
        (6, publish(v5).prop_map(rf::Packet::Publish).boxed()),
        (2, ack(4).prop_map(rf::Packet::Puback).boxed()),
        (2, ack(5).prop_map(rf::Packet::Pubrec).boxed()),
        (2, ack(6).prop_map(rf::Packet::Pubrel).boxed()),
        (2, ack(7).prop_map(rf::Packet::Pubcomp).boxed()),
        (3, suback.prop_map(rf::Packet::Suback).boxed()),
        (3, unsuback.prop_map(rf::Packet::Unsuback).boxed()),
        (1, Just(rf::Packet::Pingresp).boxed()),
    ];
    if v5 {
        let disconnect = (reason(14), option::weighted(0.3, ustr()), option::weighted(0.3, ustr()), props()).prop_map(|(reason, reason_string, server_reference, user_props)| rf::Disconnect { reason, session_expiry: None, reason_string, server_reference, user_props });
        arms.push((3, disconnect.prop_map(rf::Packet::Disconnect).boxed()));
        let auth = (reason(15), option::weighted(0.8, ustr()), option::weighted(0.3, bin()), option::weighted(0.3, ustr()), props()).prop_map(|(reason, m, d, rs, up)| rf::Auth { reason, auth_method: m, auth_data: d, reason_string: rs, user_props: up });
        arms.push((1, auth.prop_map(rf::Packet::Auth).boxed()));
    }
    proptest::strategy::Union::new_weighted(arms).boxed()
}

#[derive(Clone, Debug)]
enum Mutation {
    None,
    BitFlip(u16, u8),
    Truncate(u16),
    LenPlus(i8),
    InsertByte(u16, u8),
    DeleteByte(u16),
    DupRange(u16, u8),
    OverlongVli,
    FiveByteVli,
    Splice(u16),
    Random(Vec<u8>),
    InvalidUtf8(u16),
    /// a run of `n` continuation bytes (+ a final byte) inserted `off` bytes into the first packet's body, the remaining
    /// length adjusted so that the framing stays consistent: an over-long variable byte integer wherever the decoder
    /// expects one inside the body (property length, subscription identifier)
    BodyVliRun(u8, u8),
}

fn mutation() -> BoxedStrategy<Mutation> {
    prop_oneof![
        10 => Just(Mutation::None),
        3 => (any::<u16>(), 0u8..8).prop_map(|(p, b)| Mutation::BitFlip(p, b)),
        2 => any::<u16>().prop_map(Mutation::Truncate),
        2 => prop_oneof![Just(1i8), Just(-1i8), Just(2i8), Just(-2i8), Just(100i8)].prop_map(Mutation::LenPlus),
        1 => (any::<u16>(), any::<u8>()).prop_map(|(p, b)| Mutation::InsertByte(p, b)),
        1 => any::<u16>().prop_map(Mutation::DeleteByte),
        1 => (any::<u16>(), 1u8..12).prop_map(|(p, n)| Mutation::DupRange(p, n)),
        1 => Just(Mutation::OverlongVli),
        1 => Just(Mutation::FiveByteVli),
        1 => any::<u16>().prop_map(Mutation::Splice),
        2 => vec(any::<u8>(), 1..40).prop_map(Mutation::Random),
        1 => any::<u16>().prop_map(Mutation::InvalidUtf8),
        2 => (0u8..8, prop_oneof![Just(3u8), Just(4u8), Just(5u8), Just(6u8), Just(9u8), Just(12u8)]).prop_map(|(off, n)| Mutation::BodyVliRun(off, n)),
    ]
    .boxed()
}

fn idx(p: u16, len: usize) -> usize {
    if len == 0 {
        0
    } else {
        ((p as usize) * len) >> 16
    }
}

fn apply_mutation(stream: &mut Vec<u8>, m: &Mutation) -> &'static str {
    match m {
        Mutation::None => "wellformed",
        Mutation::BitFlip(p, b) => {
            if !stream.is_empty() {
                let i = idx(*p, stream.len());
                stream[i] ^= 1 << b;
            }
            "bitflip"
        }
        Mutation::Truncate(p) => {
            let i = idx(*p, stream.len());
            stream.truncate(i);
            "truncated"
        }
        Mutation::LenPlus(d) => {
            if stream.len() >= 2 && stream[1] < 0x80 {
                stream[1] = (stream[1] as i16 + *d as i16).clamp(0, 127) as u8;
            }
            "length_field_changed"
        }
        Mutation::InsertByte(p, b) => {
            let i = idx(*p, stream.len() + 1).min(stream.len());
            stream.insert(i, *b);
            "byte_inserted"
        }
        Mutation::DeleteByte(p) => {
            if !stream.is_empty() {
                let i = idx(*p, stream.len());
                stream.remove(i);
            }
            "byte_deleted"
        }
        Mutation::DupRange(p, n) => {
            if !stream.is_empty() {
                let i = idx(*p, stream.len());
                let end = (i + *n as usize).min(stream.len());
                let part: Vec<u8> = stream[i..end].to_vec();
                for (k, b) in part.into_iter().enumerate() {
                    stream.insert(end + k, b);
                }
            }
            "range_duplicated"
        }
        Mutation::OverlongVli => {
            // re-encode the first packet's remaining length non-minimally (0x80 | low, 0x00 ...)
            if stream.len() >= 2 && stream[1] < 0x80 {
                let v = stream[1];
                stream[1] = v | 0x80;
                stream.insert(2, 0x00);
            }
            "overlong_vli"
        }
        Mutation::FiveByteVli => {
            if stream.len() >= 2 {
                stream.splice(1..2, [0xff, 0xff, 0xff, 0xff, 0x01]);
            }
            "five_byte_vli"
        }
        Mutation::Splice(p) => {
            if stream.len() > 2 {
                let i = idx(*p, stream.len());
                let tail: Vec<u8> = stream[i..].to_vec();
                let head: Vec<u8> = stream[..stream.len() - i.min(stream.len())].to_vec();
                let mut s = tail;
                s.extend(head);
                *stream = s;
            }
            "spliced"
        }
        Mutation::Random(b) => {
            *stream = b.clone();
            "random_bytes"
        }
        Mutation::InvalidUtf8(p) => {
            // overwrite a byte with 0xC0 (never valid in UTF-8) somewhere after the header
            if stream.len() > 4 {
                let i = 2 + idx(*p, stream.len() - 2);
                stream[i] = 0xC0;
            }
            "invalid_utf8_byte"
        }
        Mutation::BodyVliRun(off, n) => {
            // only for a first packet with a one-byte remaining length that stays one byte
            if stream.len() >= 2 && (stream[1] as usize) + (*n as usize) + 1 < 0x80 && stream.len() >= 2 + stream[1] as usize {
                let body_len = stream[1] as usize;
                let at = 2 + (*off as usize).min(body_len);
                let mut run: Vec<u8> = (0..*n).map(|i| 0x80 | (i.wrapping_mul(37).wrapping_add(1) & 0x7f)).collect();
                run.push(0x01);
                stream[1] += *n + 1;
                stream.splice(at..at, run);
            }
            "overlong_vli_in_body"
        }
    }
}

fn case_strategy() -> BoxedStrategy<C03Case> {
    any::<bool>()
        .prop_flat_map(|v5| {
            (
                Just(v5),
                vec((server_packet(v5), any::<u64>(), any::<bool>(), any::<bool>()), 1..6),
                mutation(),
                vec(prop_oneof![Just(1u16), Just(2u16), Just(3u16), 1u16..40], 0..12),
                prop_oneof![6 => Just(0u8), 1 => Just(1u8), 1 => Just(2u8), 1 => Just(3u8), 1 => Just(4u8), 1 => Just(5u8)],
            )
        })
        .prop_map(|(v5, packets, m, cuts, max_mode)| {
            let version = if v5 { rf::Version::V5 } else { rf::Version::V311 };
            let mut stream = Vec::new();
            let mut first_len = 0usize;
            for (i, (p, seed, er, ep)) in packets.iter().enumerate() {
                let opts = rf::EncodeOpts { prop_order_seed: if seed % 3 == 0 { 0 } else { *seed }, explicit_reason: *er, explicit_prop_len: *ep };
                let b = rf::encode(version, p, &opts);
                if i == 0 {
                    first_len = b.len();
                }
                stream.extend(b);
            }
            let kind = apply_mutation(&mut stream, &m);
            let max_size = match max_mode {
                0 => 0u32,
                1 => 2,
                2 => first_len as u32,
                3 => first_len.saturating_sub(1) as u32,
                4 => 268_435_455,
                _ => (first_len as u32) + 1,
            };
            C03Case { v5, stream: hex(&stream), cuts, max_size, note: format!("{}:{}pkts", kind, packets.len()) }
        })
        .boxed()
}

// ------------------------------------------------------------------------------------------------
// conversion of gneiss' decoded packets into the reference model
// ------------------------------------------------------------------------------------------------

fn up(p: Option<&[UserProperty]>) -> Vec<(String, String)> {
    p.map(|v| v.iter().map(|u| (u.name().to_string(), u.value().to_string())).collect()).unwrap_or_default()
}

fn qn(q: QualityOfService) -> u8 {
    crate::sim::qos_num(q)
}

/// MQTT 3.1.1 CONNACK return code for the reason code gneiss reports (inverse of the documented correspondence)
fn connack311_code(rc: u8) -> Option<u8> {
    match rc {
        0x00 => Some(0),
        0x84 => Some(1),
        0x85 => Some(2),
        0x88 => Some(3),
        0x86 => Some(4),
        0x87 => Some(5),
        _ => None,
    }
}

pub fn to_rf(p: &gv::InPacket, v5: bool) -> rf::Packet {
    match p {
        gv::InPacket::Connack(c) => {
            let rc = c.reason_code() as u8;
            rf::Packet::Connack(rf::Connack {
                session_present: c.session_present(),
                reason: if v5 { rc } else { connack311_code(rc).unwrap_or(0xFF) },
                session_expiry: c.session_expiry_interval(),
                receive_maximum: c.receive_maximum(),
                maximum_qos: c.maximum_qos().map(qn),
                retain_available: c.retain_available(),
                maximum_packet_size: c.maximum_packet_size(),
                assigned_client_id: c.assigned_client_identifier().map(|s| s.to_string()),
                topic_alias_maximum: c.topic_alias_maximum(),
                reason_string: c.reason_string().map(|s| s.to_string()),
                user_props: up(c.user_properties()),
                wildcard_subscription_available: c.wildcard_subscriptions_available(),
                subscription_identifiers_available: c.subscription_identifiers_available(),
                shared_subscription_available: c.shared_subscriptions_available(),
                server_keep_alive: c.server_keep_alive(),
                response_information: c.response_information().map(|s| s.to_string()),
                server_reference: c.server_reference().map(|s| s.to_string()),
                auth_method: c.authentication_method().map(|s| s.to_string()),
                auth_data: c.authentication_data().map(|d| d.to_vec()),
            })
        }
        gv::InPacket::Publish(p) => rf::Packet::Publish(rf::Publish {
            dup: p.duplicate(),
            qos: qn(p.qos()),
            retain: p.retain(),
            topic: p.topic().to_string(),
            pid: if qn(p.qos()) > 0 { Some(gv::publish_packet_id(p)) } else { None },
            payload: p.payload().map(|x| x.to_vec()).unwrap_or_default(),
            payload_format: p.payload_format().map(|f| f as u8),
            message_expiry: p.message_expiry_interval_seconds(),
            topic_alias: gv::publish_topic_alias(p),
            response_topic: p.response_topic().map(|s| s.to_string()),
            correlation_data: p.correlation_data().map(|d| d.to_vec()),
            subscription_ids: p.subscription_identifiers().map(|v| v.to_vec()).unwrap_or_default(),
            content_type: p.content_type().map(|s| s.to_string()),
            user_props: up(p.user_properties()),
        }),
        gv::InPacket::Puback(a) => rf::Packet::Puback(rf::Ack { pid: gv::puback_packet_id(a), reason: a.reason_code() as u8, reason_string: a.reason_string().map(|s| s.to_string()), user_props: up(a.user_properties()) }),
        gv::InPacket::Pubrec(a) => rf::Packet::Pubrec(rf::Ack { pid: gv::pubrec_packet_id(a), reason: a.reason_code() as u8, reason_string: a.reason_string().map(|s| s.to_string()), user_props: up(a.user_properties()) }),
        gv::InPacket::Pubrel(a) => rf::Packet::Pubrel(rf::Ack { pid: gv::pubrel_packet_id(a), reason: a.reason_code() as u8, reason_string: a.reason_string().map(|s| s.to_string()), user_props: up(a.user_properties()) }),
        gv::InPacket::Pubcomp(a) => rf::Packet::Pubcomp(rf::Ack { pid: gv::pubcomp_packet_id(a), reason: a.reason_code() as u8, reason_string: a.reason_string().map(|s| s.to_string()), user_props: up(a.user_properties()) }),
        gv::InPacket::Suback(s) => rf::Packet::Suback(rf::Suback { pid: gv::suback_packet_id(s), reason_string: s.reason_string().map(|x| x.to_string()), user_props: up(s.user_properties()), reasons: s.reason_codes().iter().map(|r| *r as u8).collect() }),
        gv::InPacket::Unsuback(s) => rf::Packet::Unsuback(rf::Unsuback { pid: gv::unsuback_packet_id(s), reason_string: s.reason_string().map(|x| x.to_string()), user_props: up(s.user_properties()), reasons: s.reason_codes().iter().map(|r| *r as u8).collect() }),
        gv::InPacket::Pingresp => rf::Packet::Pingresp,
        gv::InPacket::Disconnect(d) => rf::Packet::Disconnect(rf::Disconnect { reason: d.reason_code() as u8, session_expiry: d.session_expiry_interval_seconds(), reason_string: d.reason_string().map(|s| s.to_string()), server_reference: d.server_reference().map(|s| s.to_string()), user_props: up(d.user_properties()) }),
        gv::InPacket::Auth(a) => rf::Packet::Auth(rf::Auth { reason: a.reason_code, auth_method: a.authentication_method.clone(), auth_data: a.authentication_data.clone(), reason_string: a.reason_string.clone(), user_props: a.user_properties.as_ref().map(|v| v.iter().map(|u| (u.name().to_string(), u.value().to_string())).collect()).unwrap_or_default() }),
        gv::InPacket::Other(_) => rf::Packet::Pingreq,
    }
}

fn split(stream: &[u8], sizes: &[usize]) -> Vec<Vec<u8>> {
    let mut out = Vec::new();
    let mut off = 0;
    let mut i = 0;
    while off < stream.len() {
        let n = if sizes.is_empty() { stream.len() } else { sizes[i % sizes.len()].max(1) };
        let end = (off + n).min(stream.len());
        out.push(stream[off..end].to_vec());
        off = end;
        i += 1;
    }
    out
}

struct Run {
    packets: Vec<rf::Packet>,
    error: Option<String>,
    /// number of stream bytes that had been delivered when the error was returned
    err_after_bytes: usize,
}

fn run_gneiss(v5: bool, max_size: u32, chunks: &[Vec<u8>]) -> Result<Run, (String, String)> {
    let refs: Vec<&[u8]> = chunks.iter().map(|c| c.as_slice()).collect();
    let mode = if v5 { ProtocolMode::Mqtt5 } else { ProtocolMode::Mqtt311 };
    let outcome = guarded(|| gv::decode_stream(mode, max_size, &refs))?;
    let err_after_bytes = match &outcome.error {
        Some((_, ix)) => chunks[..=*ix].iter().map(|c| c.len()).sum(),
        None => 0,
    };
    Ok(Run { packets: outcome.packets.iter().map(|p| to_rf(p, v5)).collect(), error: outcome.error.map(|(e, _)| format!("{}", e)), err_after_bytes })
}

impl Property for C03 {
    type Case = C03Case;

    fn id(&self) -> &'static str {
        "C03"
    }

    fn strategy(&self, _tier: Tier) -> BoxedStrategy<C03Case> {
        case_strategy()
    }

    /// the fuzzer's bytes ARE the server's byte stream, after a 4-byte header that picks the protocol version, the
    /// maximum packet size in force and the extra partition
    fn fuzz_case(&self, data: &[u8]) -> Option<C03Case> {
        if data.len() < 5 {
            return None;
        }
        let v5 = data[0] & 1 == 0;
        let stream = &data[4..];
        let max_size = match data[1] % 8 {
            0 | 1 | 2 => 0u32,
            3 => 2,
            4 => stream.len() as u32,
            5 => (stream.len() as u32).saturating_sub(1),
            6 => 268_435_455,
            _ => 1 + data[2] as u32,
        };
        let ncuts = (data[2] % 8) as usize;
        let mut cuts = Vec::new();
        for i in 0..ncuts {
            cuts.push(1 + (data[3].wrapping_mul(31).wrapping_add((i as u8).wrapping_mul(data[2] | 1)) % 23) as u16);
        }
        Some(C03Case { v5, stream: hex(stream), cuts, max_size, note: "rawfuzz:?pkts".into() })
    }

    /// reference-encoded (and mutated) streams from the proptest strategy as starting inputs
    fn fuzz_seed_corpus(&self, seed: u64) -> Vec<Vec<u8>> {
        use proptest::strategy::ValueTree;
        use proptest::test_runner::{Config, RngSeed, TestRunner};
        let mut runner = TestRunner::new(Config { failure_persistence: None, rng_seed: RngSeed::Fixed(seed ^ 0xC03), ..Config::default() });
        let strategy = case_strategy();
        let mut out = Vec::new();
        for i in 0..400u32 {
            if let Ok(t) = strategy.new_tree(&mut runner) {
                let c = t.current();
                let stream = unhex(&c.stream);
                if stream.is_empty() || stream.len() > 3000 {
                    continue;
                }
                let mut v = vec![if c.v5 { 0u8 } else { 1u8 }, (i % 8) as u8, (i % 5) as u8, (i % 251) as u8];
                v.extend_from_slice(&stream);
                out.push(v);
            }
        }
        out
    }

    fn check(&self, case: &C03Case) -> CaseReport {
        let stream = unhex(&case.stream);
        let version = if case.v5 { rf::Version::V5 } else { rf::Version::V311 };
        let mut violations = Vec::new();
        let mut labels = vec![case.note.split(':').next().unwrap_or("").to_string(), if case.v5 { "v5".into() } else { "v311".into() }];

        // reference verdict: packets decoded before the first problem
        let mut ref_pkts: Vec<(rf::Packet, usize, usize)> = Vec::new(); // packet, start, end
        let mut off = 0;
        let mut ref_malformed: Option<String> = None;
        let mut ref_incomplete = false;
        while off < stream.len() {
            match rf::decode(version, rf::Direction::ServerToClient, &stream[off..]) {
                Ok((p, used)) => {
                    ref_pkts.push((p, off, off + used));
                    off += used;
                }
                Err(rf::DecodeError::Incomplete) => {
                    ref_incomplete = true;
                    break;
                }
                Err(rf::DecodeError::Malformed(m)) => {
                    ref_malformed = Some(m);
                    break;
                }
            }
        }
        // size limit: index of the first packet (by fixed header) that exceeds the maximum
        let mut oversize_at: Option<(usize, usize)> = None; // (packet start, header end)
        let mut framing_known = true;
        if case.max_size > 0 {
            let mut o = 0;
            while o < stream.len() {
                // lenient framing (non-minimal length encodings count with the bytes they occupy)
                let mut rl: u64 = 0;
                let mut hl = 1usize;
                let mut done = false;
                while o + hl < stream.len() && hl <= 4 {
                    let b = stream[o + hl];
                    rl |= ((b & 0x7f) as u64) << (7 * (hl - 1));
                    hl += 1;
                    if b & 0x80 == 0 {
                        done = true;
                        break;
                    }
                }
                if !done {
                    framing_known = false;
                    break;
                }
                let total = hl as u64 + rl;
                if total > case.max_size as u64 {
                    oversize_at = Some((o, o + hl));
                    break;
                }
                o += total as usize;
            }
        }

        // partitions: whole, 1-byte, 2-byte, split after the first byte (inside the fixed header), generated
        let mut partitions: Vec<(String, Vec<Vec<u8>>)> = vec![
            ("whole".to_string(), split(&stream, &[])),
            ("1-byte".to_string(), split(&stream, &[1])),
            ("2-byte".to_string(), split(&stream, &[2])),
            ("header-split".to_string(), split(&stream, &[1, 1, 3, 7, 64])),
        ];
        if !case.cuts.is_empty() {
            partitions.push(("generated".to_string(), split(&stream, &case.cuts.iter().map(|c| *c as usize).collect::<Vec<_>>())));
        }
        let mut runs: Vec<(String, Run)> = Vec::new();
        for (name, chunks) in &partitions {
            match run_gneiss(case.v5, case.max_size, chunks) {
                Ok(r) => runs.push((name.clone(), r)),
                Err((msg, loc)) => {
                    violations.push(Violation::new("C03.panic", format!("decoder panics: {}", msg.chars().map(|c| if c.is_ascii_digit() { '#' } else { c }).take(80).collect::<String>()), format!("partition {} : {} at {}", name, msg, loc)));
                }
            }
        }
        if !violations.is_empty() || runs.is_empty() {
            return CaseReport { violations, labels, nontrivial: true, digest: hash_bytes(&stream), ..Default::default() };
        }

        // chunking invariance
        let base = &runs[0].1;
        for (name, r) in &runs[1..] {
            if r.packets != base.packets || r.error.is_some() != base.error.is_some() {
                violations.push(Violation::new(
                    "C03.chunking",
                    "packets or verdict depend on how the byte stream is split into reads",
                    format!("whole: {} packets, error {:?}; {}: {} packets, error {:?}", base.packets.len(), base.error, name, r.packets.len(), r.error),
                ));
                break;
            }
        }

        // faithful decoding of everything the reference accepts (unless the size limit applies first)
        let limit_pkts = match oversize_at {
            Some((start, _)) => ref_pkts.iter().filter(|(_, _, e)| *e <= start).count(),
            None => ref_pkts.len(),
        };
        for (i, (rp, _, _)) in ref_pkts.iter().take(limit_pkts).enumerate() {
            match base.packets.get(i) {
                Some(gp) => {
                    if gp != rp {
                        violations.push(Violation::new("C03.content", format!("{} {} decoded to different content", if case.v5 { "v5" } else { "v311" }, rp.type_name()), format!("expected {:?} got {:?}", rp, gp)));
                        break;
                    }
                }
                None => {
                    let why = base.error.clone().unwrap_or_else(|| "decoder waits for more data".to_string());
                    let sig_detail: String = why.chars().map(|c| if c.is_ascii_digit() { '#' } else { c }).take(90).collect();
                    violations.push(Violation::new("C03.rejects_wellformed", format!("a well-formed {} {} is not decoded: {}", if case.v5 { "v5" } else { "v311" }, rp.type_name(), sig_detail), format!("packet #{} {:?}: {}", i, rp, why)));
                    break;
                }
            }
        }

        // early rejection by size: delivering only the fixed header of the oversize packet must already fail
        if let Some((start, hdr_end)) = oversize_at {
            labels.push("oversize_packet".to_string());
            let prefix = stream[..hdr_end].to_vec();
            match run_gneiss(case.v5, case.max_size, &[prefix]) {
                Ok(r) => {
                    let earlier_error = r.error.is_some();
                    if !earlier_error {
                        violations.push(Violation::new("C03.size_check_late", "a packet larger than the maximum packet size is not rejected when its fixed header is complete", format!("max {} packet starts at {} header ends at {}", case.max_size, start, hdr_end)));
                    }
                }
                Err((msg, loc)) => violations.push(Violation::new("C03.panic", "decoder panics on a fixed header".to_string(), format!("{} at {}", msg, loc))),
            }
        } else if case.max_size > 0 && framing_known {
            // nothing exceeds the limit: no size error may be raised
            if let Some(e) = &base.error {
                if e.contains("exceeds negotiated maximum") {
                    violations.push(Violation::new("C03.size_check_false_positive", "a packet within the maximum packet size was rejected for its size", format!("max {} : {}", case.max_size, e)));
                }
            }
        }

        let wellformed = ref_malformed.is_none() && !ref_incomplete;
        if wellformed {
            labels.push("reference_accepts_all".to_string());
        }
        if ref_malformed.is_some() {
            labels.push("reference_rejects".to_string());
        }
        if ref_incomplete {
            labels.push("stream_ends_mid_packet".to_string());
        }
        if base.error.is_some() {
            labels.push("gneiss_error".to_string());
        }
        for (p, _, _) in &ref_pkts {
            labels.push(format!("pkt:{}", p.type_name()));
        }
        labels.sort();
        labels.dedup();
        let nprops = ref_pkts.iter().map(|(p, _, _)| format!("{:?}", p).matches("Some(").count()).sum::<usize>();
        let nontrivial = ref_pkts.len() >= 2 || nprops >= 2 || (!wellformed && base.error.is_some());
        let digest = hash_str(&format!("{}|{}|{}|{}", case.v5, case.note, ref_pkts.iter().map(|(p, _, _)| p.type_name()).collect::<Vec<_>>().join(","), stream.len() / 8)) ^ hash_bytes(&stream);
        let sample = json!({"v5": case.v5, "generator": case.note, "stream_hex": if case.stream.len() > 160 { format!("{}...", &case.stream[..160]) } else { case.stream.clone() }, "bytes": stream.len(), "max_packet_size": case.max_size, "reference_packets": ref_pkts.iter().map(|(p, _, _)| p.type_name()).collect::<Vec<_>>(), "gneiss_packets": base.packets.len(), "gneiss_error": base.error, "partitions": partitions.iter().map(|(n, c)| format!("{}:{} reads", n, c.len())).collect::<Vec<_>>()});
        CaseReport { violations, labels, nontrivial, digest, sample: Some(sample), counters: vec![("partitions_run".to_string(), runs.len() as u64), ("stream_bytes".to_string(), stream.len() as u64)], ..Default::default() }
    }

    fn cases_per_shard(&self, tier: Tier) -> u32 {
        match tier {
            Tier::Quick => 3000,
            Tier::Thorough => 50_000,
        }
    }

    fn rule_text(&self) -> String {
        "streams of 1-5 server packets (CONNACK, PUBLISH, PUBACK, PUBREC, PUBREL, PUBCOMP, SUBACK, UNSUBACK, PINGRESP, DISCONNECT, AUTH; both versions) produced by the independent reference encoder with every reason code of the spec tables, random property order and explicit/elided reason code and property length; 50% of the streams are then mutated (bit flip, truncation, length field +-n, byte insert/delete, range duplication, over-long and 5-byte VLI, splice, invalid UTF-8 byte, pure random bytes); each stream is decoded whole, byte-by-byte, 2-byte, split inside the fixed header and with a generated partition, under maximum packet sizes {none, 2, size, size-1, size+1, 2^28-1}; oracle: no panic, identical packets and verdict for every partition, every packet the reference decoder accepts is decoded to equal content, oversize packets rejected when only the fixed header has been delivered; non-trivial = >= 2 packets, or >= 2 optional fields, or a mutation that produces an error; distinct = hash of the stream".to_string()
    }

    fn assumptions(&self) -> Vec<String> {
        vec![
            "the reference encoder/decoder refmqtt defines well-formedness; leniency of gneiss towards input the reference rejects is not a violation".to_string(),
            "MQTT 3.1.1 CONNACK return codes 1..5 are compared through the documented correspondence with MQTT 5 reason codes (0x84, 0x85, 0x88, 0x86, 0x87)".to_string(),
        ]
    }
}
