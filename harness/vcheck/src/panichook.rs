//! Quiet panic hook: panics of the code under test are caught with `catch_unwind` around every entry
//! point; the hook keeps the message and location of the last panic per thread instead of printing it.

use std::any::Any;
use std::cell::RefCell;

thread_local! {
    static LAST_LOCATION: RefCell<String> = RefCell::new(String::new());
}

pub fn install() {
    let verbose = std::env::var("VERIF_PANIC_VERBOSE").is_ok();
    let default = std::panic::take_hook();
    std::panic::set_hook(Box::new(move |info| {
        let loc = info.location().map(|l| format!("{}:{}", l.file(), l.line())).unwrap_or_default();
        LAST_LOCATION.with(|l| *l.borrow_mut() = loc);
        if verbose {
            default(info);
        }
    }));
}

pub fn take_last_location() -> String {
    LAST_LOCATION.with(|l| std::mem::take(&mut *l.borrow_mut()))
}

pub fn payload_to_string(e: &Box<dyn Any + Send>) -> String {
    if let Some(s) = e.downcast_ref::<&str>() {
        s.to_string()
    } else if let Some(s) = e.downcast_ref::<String>() {
        s.clone()
    } else {
        "non-string panic payload".to_string()
    }
}

/// Runs `f`, converting a panic into `Err((message, location))`.
pub fn guarded<T>(f: impl FnOnce() -> T) -> Result<T, (String, String)> {
    match std::panic::catch_unwind(std::panic::AssertUnwindSafe(f)) {
        Ok(v) => Ok(v),
        Err(e) => Err((payload_to_string(&e), take_last_location())),
    }
}
