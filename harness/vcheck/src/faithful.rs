//! Faithful-driver simulation (virtual time): the engine is serviced ONLY when the time it reported has
//! been reached and after each delivered event, exactly like the tokio and threaded drivers do.
//! Used by C08 (service-time contract, with an eager twin) and C14 (keep-alive).

use crate::model::*;
use crate::mon::Index;
use crate::panichook::guarded;
use crate::runner::{hash_str, CaseReport, Property, Tier, Violation};
use crate::sim::{Pending, Sim};
use proptest::collection::vec;
use proptest::option;
use proptest::prelude::*;
use refmqtt as rf;
use serde::{Deserialize, Serialize};
use serde_json::json;
use std::collections::BTreeMap;

#[derive(Clone, Debug, Serialize, Deserialize, PartialEq, Eq)]
pub enum FOp {
    Pub {
        qos: u8,
        topic: u8,
        size: u16,
        #[serde(default)]
        timeout_ms: Option<u32>,
    },
    Sub {
        n: u8,
        #[serde(default)]
        timeout_ms: Option<u32>,
    },
    Unsub {
        n: u8,
        #[serde(default)]
        timeout_ms: Option<u32>,
    },
    /// from now on the transport needs this long to take a batch (the write completion comes that much later)
    WriteDelay { ms: u32 },
    Wait { ms: u32 },
    /// wait for a multiple (in quarters) of the negotiated keep-alive interval
    WaitKeepAlive { quarters: u8 },
    Close,
    AckDelay { ms: u32 },
    /// 0 immediately, 1 one millisecond before the ping deadline, 2 at the deadline, 3 one millisecond after, 4 never
    PingDelay { kind: u8 },
    Frag { n: u16 },
    SrvPublish { qos: u8, pid: u8 },
    SessionLoss,
}

#[derive(Clone, Debug, Serialize, Deserialize, PartialEq, Eq)]
pub struct FCase {
    pub cfg: SimCfg,
    pub ops: Vec<FOp>,
}

pub struct Faithful {
    pub sim: Sim,
    sched: Vec<(u64, Pending)>,
    ack_delay: u64,
    ping_delay_kind: u8,
    frag: usize,
    eager: bool,
    write_delay: u64,
    flush_due: Option<u64>,
    cand_key: Option<(usize, usize)>,
    cand_cache: Vec<u64>,
    opened: u32,
    session_loss_next: bool,
    pub spin: Vec<String>,
    pub stranded: Option<String>,
    pub steps: u64,
    pub step_bound_hit: bool,
}

fn keep_alive_ms(cfg: &SimCfg) -> u64 {
    let k = if cfg.v5 { cfg.connack.server_keep_alive.or(cfg.keep_alive) } else { cfg.keep_alive };
    k.unwrap_or(0) as u64 * 1000
}

fn ping_deadline_ms(cfg: &SimCfg) -> u64 {
    // min(configured ping timeout, K/2) with K/2 as a real number
    cfg.ping_timeout_ms.min(keep_alive_ms(cfg) / 2)
}

impl Faithful {
    pub fn new(cfg: &SimCfg, eager: bool) -> Faithful {
        Faithful { sim: Sim::new(cfg), sched: Vec::new(), ack_delay: 0, ping_delay_kind: 0, frag: usize::MAX, eager, write_delay: 0, flush_due: None, cand_key: None, cand_cache: Vec::new(), opened: 0, session_loss_next: false, spin: Vec::new(), stranded: None, steps: 0, step_bound_hit: false }
    }

    fn ping_delay(&self) -> Option<u64> {
        let d = ping_deadline_ms(&self.sim.cfg);
        match self.ping_delay_kind {
            0 => Some(0),
            1 => Some(d.saturating_sub(1)),
            2 => Some(d),
            3 => Some(d + 1),
            _ => None,
        }
    }

    fn digest(&mut self) -> Option<(gneiss_mqtt::verif::Snapshot, EState)> {
        match guarded(|| self.sim.eng.snapshot()) {
            Ok(s) => Some((s, self.sim.state())),
            Err(_) => None,
        }
    }

    /// moves the broker's freshly computed responses into the schedule
    fn schedule_new(&mut self) {
        let now = self.sim.now;
        let ping = self.ping_delay();
        if let Some(c) = self.sim.conn.as_mut() {
            let items: Vec<Pending> = c.pending.drain(..).collect();
            for p in items {
                let due = match p.type_code {
                    2 => Some(now),
                    13 => ping.map(|d| now + d),
                    _ => Some(now + self.ack_delay),
                };
                if let Some(d) = due {
                    self.sched.push((d, p));
                }
            }
        }
    }

    /// everything that can happen at the current instant
    pub fn pump(&mut self) {
        let mut spin_count = 0;
        let mut eager_done = false;
        for _ in 0..200_000 {
            self.steps += 1;
            if self.sim.tr.dead || self.sim.finished {
                return;
            }
            if self.sim.conn.as_ref().map(|c| c.errored || c.client_disconnected).unwrap_or(false) {
                self.sim.do_close();
                self.sched.clear();
                self.flush_due = None;
                continue;
            }
            if self.sim.conn.is_none() {
                // a history that keeps losing its connection for ever (e.g. a keep-alive that fires on every new
                // connection) must end: after 150 connections the run stops and the monitors judge what happened
                if self.opened >= 150 {
                    self.step_bound_hit = true;
                    return;
                }
                self.opened += 1;
                self.sim.do_open(30_000);
                continue;
            }
            self.schedule_new();
            let now = self.sim.now;
            if matches!(self.flush_due, Some(t) if t <= now) {
                // the slow transport has finally taken the batch
                self.flush_due = None;
                self.flush();
                continue;
            }
            if let Some(pos) = self.sched.iter().position(|(due, _)| *due <= now) {
                let (_, p) = self.sched.remove(pos);
                if p.type_code == 2 {
                    let kind = if self.session_loss_next { ConnackKind::OkSessionLost } else { ConnackKind::Ok };
                    self.session_loss_next = false;
                    // put the entry back so that the broker model sees a solicited CONNACK
                    if let Some(c) = self.sim.conn.as_mut() {
                        c.pending.push(p);
                    }
                    self.sim.send_connack(kind, false);
                } else {
                    self.sim.send_response(&p, RespondHow::Normal);
                }
                continue;
            }
            let ns = self.sim.next_service();
            let due = matches!(ns, Some(t) if t <= now);
            if due {
                let before = self.digest();
                let evs_before = self.sim.tags.values().filter(|t| t.resolved).count();
                let emitted_before = self.sim.conn.as_ref().map(|c| c.emitted.len()).unwrap_or(0);
                self.sim.do_service(false);
                if self.sim.tr.dead {
                    return;
                }
                let emitted_after = self.sim.conn.as_ref().map(|c| c.emitted.len()).unwrap_or(0);
                let evs_after = self.sim.tags.values().filter(|t| t.resolved).count();
                let after = self.digest();
                let errored = self.sim.conn.as_ref().map(|c| c.errored).unwrap_or(true);
                if emitted_after == emitted_before && evs_after == evs_before && before == after && !errored {
                    spin_count += 1;
                    if spin_count >= 2 {
                        self.spin.push(format!("t={} state={:?}: next-service answers 'now' twice in a row although service produces no output, completes nothing and changes no state", now, self.sim.state()));
                        return;
                    }
                } else {
                    spin_count = 0;
                }
                self.flush_or_schedule();
                continue;
            }
            if self.eager && !eager_done {
                // the eager twin also services when nobody asked
                eager_done = true;
                let emitted_before = self.sim.conn.as_ref().map(|c| c.emitted.len()).unwrap_or(0);
                self.sim.do_service(true);
                if self.sim.tr.dead {
                    return;
                }
                let emitted_after = self.sim.conn.as_ref().map(|c| c.emitted.len()).unwrap_or(0);
                if emitted_after != emitted_before {
                    eager_done = false;
                    self.flush_or_schedule();
                }
                continue;
            }
            return;
        }
        self.step_bound_hit = true;
    }

    /// bytes leave at once, or - with a slow transport - the batch (including whatever later service calls append
    /// to it) is taken `write_delay` ms after its first byte was produced
    fn flush_or_schedule(&mut self) {
        let pending = self.sim.conn.as_ref().map(|c| if c.errored { 0 } else { c.out.len() - c.written }).unwrap_or(0);
        if pending == 0 {
            return;
        }
        if self.write_delay == 0 {
            self.flush();
        } else if self.flush_due.is_none() {
            self.flush_due = Some(self.sim.now + self.write_delay);
        }
    }

    /// instants at which an independent observer knows that the engine has something to do (ack deadlines computed
    /// from the wire log); only the eager twin uses them, the faithful driver relies on the engine's own answer
    fn eager_candidates(&mut self) -> Option<u64> {
        let now = self.sim.now;
        let key = (self.sim.tr.emitted.len(), self.sim.tags.values().filter(|t| t.resolved).count());
        if self.cand_key == Some(key) {
            return self.cand_cache.iter().copied().filter(|d| *d > now).min();
        }
        let all = self.eager_candidates_uncached();
        self.cand_key = Some(key);
        self.cand_cache = all;
        self.cand_cache.iter().copied().filter(|d| *d > now).min()
    }

    fn eager_candidates_uncached(&self) -> Vec<u64> {
        let tr = &self.sim.tr;
        let mut timeouts: BTreeMap<u32, u64> = BTreeMap::new();
        let mut resolved: std::collections::BTreeSet<u32> = Default::default();
        for e in &tr.evs {
            match e {
                Ev::Submit { tag, timeout_ms: Some(t), .. } => {
                    timeouts.insert(*tag, *t as u64);
                }
                Ev::Done { tag, .. } => {
                    resolved.insert(*tag);
                }
                _ => {}
            }
        }
        let mut all = Vec::new();
        for em in &tr.emitted {
            if let Some(tag) = em.tag {
                if resolved.contains(&tag) {
                    continue;
                }
                if let Some(t) = timeouts.get(&tag) {
                    all.push(em.t.saturating_add(*t));
                }
            }
        }
        all
    }

    fn flush(&mut self) {
        let mut guard = 0;
        while guard < 1_000_000 {
            guard += 1;
            let pending = self.sim.conn.as_ref().map(|c| if c.errored { 0 } else { c.out.len() - c.written }).unwrap_or(0);
            if pending == 0 || self.sim.tr.dead {
                break;
            }
            self.sim.do_flush_bytes(self.frag.min(pending).max(1));
        }
    }

    fn next_event(&mut self) -> Option<u64> {
        let now = self.sim.now;
        let ns = if self.sim.conn.is_some() { self.sim.next_service().filter(|t| *t > now) } else { None };
        let sc = self.sched.iter().map(|(d, _)| *d).filter(|d| *d > now).min();
        let fl = self.flush_due.filter(|d| *d > now);
        let ec = if self.eager && self.sim.conn.is_some() { self.eager_candidates() } else { None };
        [ns, sc, fl, ec].iter().flatten().min().copied()
    }

    pub fn wait(&mut self, ms: u64) {
        let target = self.sim.now + ms;
        let mut guard = 0;
        loop {
            guard += 1;
            self.pump();
            if self.sim.tr.dead || self.step_bound_hit || !self.spin.is_empty() || guard > 200_000 {
                if guard > 200_000 {
                    self.step_bound_hit = true;
                }
                return;
            }
            match self.next_event() {
                Some(t) if t < target => self.sim.now = t,
                _ => {
                    self.sim.now = target;
                    self.pump();
                    return;
                }
            }
        }
    }

    pub fn apply(&mut self, op: &FOp) {
        if self.sim.tr.dead {
            return;
        }
        match op {
            FOp::Pub { qos, topic, size, timeout_ms } => {
                self.sim.do_publish(*qos, *topic, *size as usize, false, *timeout_ms, None);
                self.pump();
            }
            FOp::Sub { n, timeout_ms } => {
                self.sim.do_subscribe(*n, *timeout_ms, false, false, false);
                self.pump();
            }
            FOp::Unsub { n, timeout_ms } => {
                self.sim.do_unsubscribe(*n, *timeout_ms);
                self.pump();
            }
            FOp::WriteDelay { ms } => {
                // with a keep-alive in force a transport that needs longer than the keep-alive for one packet would only
                // produce endless ping-timeout / reconnect cycles (the property presupposes writes that complete)
                if keep_alive_ms(&self.sim.cfg) == 0 {
                    self.write_delay = *ms as u64;
                }
            }
            FOp::Wait { ms } => self.wait(*ms as u64),
            FOp::WaitKeepAlive { quarters } => {
                let k = keep_alive_ms(&self.sim.cfg).min(200_000_000);
                self.wait(k / 4 * (*quarters as u64));
            }
            FOp::Close => {
                if self.sim.conn.is_some() {
                    self.sim.do_close();
                    self.sched.clear();
                    self.flush_due = None;
                }
                self.pump();
            }
            FOp::AckDelay { ms } => self.ack_delay = *ms as u64,
            FOp::PingDelay { kind } => self.ping_delay_kind = *kind % 5,
            FOp::Frag { n } => self.frag = (*n as usize).max(1),
            FOp::SrvPublish { qos, pid } => {
                self.sim.srv_publish(*qos, *pid, false, 0, None, false, 4);
                self.pump();
            }
            FOp::SessionLoss => self.session_loss_next = true,
        }
    }

    /// run until every operation is resolved, or nothing more can happen
    pub fn finish(&mut self) {
        let mut rounds = 0;
        while rounds < 20_000 {
            rounds += 1;
            self.pump();
            if self.sim.tr.dead || self.step_bound_hit || !self.spin.is_empty() {
                return;
            }
            if self.sim.unresolved() == 0 {
                return;
            }
            match self.next_event() {
                Some(t) => self.sim.now = t,
                None => {
                    let snap = guarded(|| self.sim.eng.snapshot()).ok();
                    let what = match snap {
                        Some(s) => {
                            if s.current_operation.is_some() {
                                "an operation is partially encoded"
                            } else if !s.high_priority_operation_queue.is_empty() {
                                "the high-priority queue is not empty"
                            } else if !s.resubmit_operation_queue.is_empty() {
                                "the resubmit queue is not empty"
                            } else if !s.user_operation_queue.is_empty() {
                                "the user queue is not empty"
                            } else if !s.pending_publish_operations.is_empty() || !s.pending_non_publish_operations.is_empty() {
                                "operations await acknowledgements that the broker has already sent or was never asked for"
                            } else {
                                "operations are tracked in no queue"
                            }
                        }
                        None => "unknown",
                    };
                    self.stranded = Some(format!("engine reports no next service time in state {:?} although {}", self.sim.state(), what));
                    return;
                }
            }
        }
        self.step_bound_hit = true;
    }

    pub fn run(case: &FCase, eager: bool) -> Faithful {
        let mut f = Faithful::new(&case.cfg, eager);
        for op in &case.ops {
            f.apply(op);
            if f.sim.tr.dead || f.step_bound_hit || !f.spin.is_empty() {
                break;
            }
        }
        f
    }
}

/// per tag: (time of first transmission, time of completion, success)
fn timeline(tr: &Trace) -> BTreeMap<u32, (Option<u64>, Option<u64>, bool)> {
    let mut m: BTreeMap<u32, (Option<u64>, Option<u64>, bool)> = BTreeMap::new();
    for e in &tr.evs {
        match e {
            Ev::Submit { tag, .. } => {
                m.entry(*tag).or_insert((None, None, false));
            }
            Ev::Emit { ix } => {
                let em = &tr.emitted[*ix];
                if let Some(tag) = em.tag {
                    let x = m.entry(tag).or_insert((None, None, false));
                    if x.0.is_none() {
                        x.0 = Some(em.t);
                    }
                }
            }
            Ev::Done { tag, t, done, .. } => {
                let x = m.entry(*tag).or_insert((None, None, false));
                if x.1.is_none() {
                    x.1 = Some(*t);
                    x.2 = !matches!(done, Done::Err(..));
                }
            }
            _ => {}
        }
    }
    m
}

// ================================================================================================
// C08
// ================================================================================================

pub struct C08;

fn op_timeout() -> BoxedStrategy<Option<u32>> {
    prop_oneof![7 => Just(None), 1 => Just(Some(50u32)), 1 => Just(Some(1000u32)), 1 => Just(Some(3000u32))].boxed()
}

fn fop_strategy(keepalive_focus: bool) -> BoxedStrategy<FOp> {
    if keepalive_focus {
        prop_oneof![
            4 => (0u8..3, 0u8..3, 0u16..30).prop_map(|(qos, topic, size)| FOp::Pub { qos, topic, size, timeout_ms: None }),
            1 => (1u8..3).prop_map(|n| FOp::Sub { n, timeout_ms: None }),
            6 => (1u8..14).prop_map(|quarters| FOp::WaitKeepAlive { quarters }),
            3 => prop_oneof![Just(0u32), Just(1u32), Just(499u32), Just(500u32), Just(501u32), Just(999u32), Just(1000u32), Just(1001u32), Just(1499u32), Just(1500u32), Just(1501u32), Just(3000u32)].prop_map(|ms| FOp::Wait { ms }),
            4 => (0u8..5).prop_map(|kind| FOp::PingDelay { kind }),
            1 => prop_oneof![Just(0u32), Just(300u32), Just(1200u32)].prop_map(|ms| FOp::AckDelay { ms }),
            1 => Just(FOp::Close),
            1 => (0u8..3, 0u8..4).prop_map(|(qos, pid)| FOp::SrvPublish { qos, pid }),
        ]
        .boxed()
    } else {
        prop_oneof![
            10 => (0u8..3, 0u8..3, prop_oneof![4 => 0u16..40, 2 => 40u16..600, 2 => 4000u16..9000, 1 => 9000u16..20000], op_timeout()).prop_map(|(qos, topic, size, timeout_ms)| FOp::Pub { qos, topic, size, timeout_ms }),
            2 => (1u8..4, op_timeout()).prop_map(|(n, timeout_ms)| FOp::Sub { n, timeout_ms }),
            2 => (1u8..4, op_timeout()).prop_map(|(n, timeout_ms)| FOp::Unsub { n, timeout_ms }),
            2 => prop_oneof![Just(0u32), Just(1u32), Just(30u32), Just(300u32), Just(2000u32)].prop_map(|ms| FOp::WriteDelay { ms }),
            4 => prop_oneof![Just(0u32), Just(1u32), Just(10u32), Just(250u32), Just(5000u32)].prop_map(|ms| FOp::Wait { ms }),
            2 => Just(FOp::Close),
            2 => prop_oneof![Just(0u32), Just(1u32), Just(40u32), Just(700u32)].prop_map(|ms| FOp::AckDelay { ms }),
            2 => prop_oneof![Just(1u16), Just(3u16), Just(100u16), Just(4096u16), Just(u16::MAX)].prop_map(|n| FOp::Frag { n }),
            1 => (0u8..3, 0u8..4).prop_map(|(qos, pid)| FOp::SrvPublish { qos, pid }),
            1 => Just(FOp::SessionLoss),
        ]
        .boxed()
    }
}

fn c08_cfg() -> BoxedStrategy<SimCfg> {
    (
        any::<bool>(),
        0u8..4,
        any::<bool>(),
        0u8..3,
        prop_oneof![3 => Just(4usize), 2 => Just(5usize), 2 => Just(7usize), 2 => Just(16usize), 2 => Just(64usize), 3 => Just(4096usize)],
        prop_oneof![3 => Just(Some(1u16)), 2 => Just(Some(2u16)), 2 => Just(Some(3u16)), 1 => Just(Some(65535u16)), 2 => Just(None)],
        prop_oneof![3 => Just(None), 1 => Just(Some(2u16)), 1 => Just(Some(60u16))],
    )
        .prop_map(|(v5, offline, one_at_a_time, rejoin, buf_cap, receive_max, keep_alive)| {
            let mut cfg = SimCfg { v5, offline, one_at_a_time, rejoin, buf_cap, keep_alive, drain: false, ..SimCfg::default() };
            if v5 {
                cfg.connack.receive_max = receive_max;
            } else {
                cfg.connack = ConnackTemplate { assign_client_id: false, ..ConnackTemplate::default() };
            }
            cfg
        })
        .boxed()
}

/// byte-driven twins of `fop_strategy`, `c08_cfg` and `c14_cfg` for the coverage-guided tier (same value sets and
/// weights as the proptest strategies above; see bytegen.rs)
fn fop_from(c: &mut crate::bytegen::Cur, keepalive_focus: bool) -> FOp {
    if keepalive_focus {
        match c.weighted(&[4, 1, 6, 3, 4, 1, 1, 1]).unwrap_or(0) {
            0 => FOp::Pub { qos: c.below(3) as u8, topic: c.below(3) as u8, size: c.below(30) as u16, timeout_ms: None },
            1 => FOp::Sub { n: 1 + c.below(2) as u8, timeout_ms: None },
            2 => FOp::WaitKeepAlive { quarters: 1 + c.below(13) as u8 },
            3 => FOp::Wait { ms: c.pick(&[0u32, 1, 499, 500, 501, 999, 1000, 1001, 1499, 1500, 1501, 3000]) },
            4 => FOp::PingDelay { kind: c.below(5) as u8 },
            5 => FOp::AckDelay { ms: c.pick(&[0u32, 300, 1200]) },
            6 => FOp::Close,
            _ => FOp::SrvPublish { qos: c.below(3) as u8, pid: c.below(4) as u8 },
        }
    } else {
        let op_timeout = |c: &mut crate::bytegen::Cur| c.wpick(&[(7, None), (1, Some(50u32)), (1, Some(1000u32)), (1, Some(3000u32))]);
        match c.weighted(&[10, 2, 2, 4, 2, 2, 2, 1, 1, 2]).unwrap_or(0) {
            0 => {
                let qos = c.below(3) as u8;
                let topic = c.below(3) as u8;
                let size = match c.weighted(&[4, 2, 2, 1]).unwrap_or(0) {
                    0 => c.below(40) as u16,
                    1 => 40 + (c.u16() % 560),
                    2 => 4000 + (c.u16() % 5000),
                    _ => 9000 + (c.u16() % 11000),
                };
                FOp::Pub { qos, topic, size, timeout_ms: op_timeout(c) }
            }
            1 => FOp::Sub { n: 1 + c.below(3) as u8, timeout_ms: op_timeout(c) },
            2 => FOp::Unsub { n: 1 + c.below(3) as u8, timeout_ms: op_timeout(c) },
            9 => FOp::WriteDelay { ms: c.pick(&[0u32, 1, 30, 300, 2000]) },
            3 => FOp::Wait { ms: c.pick(&[0u32, 1, 10, 250, 5000]) },
            4 => FOp::Close,
            5 => FOp::AckDelay { ms: c.pick(&[0u32, 1, 40, 700]) },
            6 => FOp::Frag { n: c.pick(&[1u16, 3, 100, 4096, u16::MAX]) },
            7 => FOp::SrvPublish { qos: c.below(3) as u8, pid: c.below(4) as u8 },
            _ => FOp::SessionLoss,
        }
    }
}

fn fcase_from(data: &[u8], keepalive_focus: bool, max_ops: usize) -> Option<FCase> {
    use crate::bytegen::Cur;
    if data.len() < 10 {
        return None;
    }
    let mut h = Cur::new(&data[..8]);
    let cfg = if keepalive_focus {
        let v5 = h.prob(0.5);
        let keep_alive = h.pick(&[None, Some(0u16), Some(1), Some(2), Some(3), Some(5), Some(60), Some(65535)]);
        let server_keep_alive = h.wpick(&[(3, None), (1, Some(0u16)), (1, Some(1)), (1, Some(2)), (1, Some(3)), (1, Some(7)), (1, Some(65535))]);
        let ping_timeout_ms = h.wpick(&[(1, 0u64), (1, 1), (2, 400), (1, 500), (1, 1500), (3, 10_000), (1, 100_000_000)]);
        let buf_cap = h.wpick(&[(1, 64usize), (3, 4096)]);
        let mut cfg = SimCfg { v5, keep_alive, ping_timeout_ms, buf_cap, drain: false, ..SimCfg::default() };
        if v5 {
            cfg.connack.server_keep_alive = server_keep_alive;
        } else {
            cfg.connack = ConnackTemplate { assign_client_id: false, ..ConnackTemplate::default() };
        }
        cfg
    } else {
        let v5 = h.prob(0.5);
        let offline = h.below(4) as u8;
        let one_at_a_time = h.prob(0.5);
        let rejoin = h.below(3) as u8;
        let buf_cap = h.wpick(&[(3, 4usize), (2, 5), (2, 7), (2, 16), (2, 64), (3, 4096)]);
        let receive_max = h.wpick(&[(3, Some(1u16)), (2, Some(2)), (2, Some(3)), (1, Some(65535)), (2, None)]);
        let keep_alive = h.wpick(&[(3, None), (1, Some(2u16)), (1, Some(60))]);
        let mut cfg = SimCfg { v5, offline, one_at_a_time, rejoin, buf_cap, keep_alive, drain: false, ..SimCfg::default() };
        if v5 {
            cfg.connack.receive_max = receive_max;
        } else {
            cfg.connack = ConnackTemplate { assign_client_id: false, ..ConnackTemplate::default() };
        }
        cfg
    };
    let mut c = Cur::new(&data[8..]);
    let mut ops = Vec::new();
    while !c.exhausted() && ops.len() < max_ops {
        ops.push(fop_from(&mut c, keepalive_focus));
    }
    if ops.is_empty() {
        return None;
    }
    Some(FCase { cfg, ops })
}

impl Property for C08 {
    type Case = FCase;

    fn id(&self) -> &'static str {
        "C08"
    }

    fn strategy(&self, tier: Tier) -> BoxedStrategy<FCase> {
        let n = if tier == Tier::Quick { 40 } else { 200 };
        (c08_cfg(), vec(fop_strategy(false), 1..n)).prop_map(|(cfg, ops)| FCase { cfg, ops }).boxed()
    }

    fn fuzz_case(&self, data: &[u8]) -> Option<FCase> {
        fcase_from(data, false, 199)
    }

    fn check(&self, case: &FCase) -> CaseReport {
        let mut violations = Vec::new();
        let mut f = Faithful::run(case, false);
        if !f.sim.tr.dead && f.spin.is_empty() && !f.step_bound_hit {
            f.finish();
        }
        crate::props_engine::dump_trace(&f.sim.tr);
        let mut labels: Vec<String> = Vec::new();
        let ix_cfg = case.cfg.clone();
        for s in &f.spin {
            violations.push(Violation::new("C08.idle_spin", "the engine keeps answering 'service me now' without producing output, completing anything or changing state", s.clone()));
        }
        if let Some(s) = &f.stranded {
            let unresolved: Vec<u32> = f.sim.tags.iter().filter(|(_, t)| !t.resolved).map(|(k, _)| *k).collect();
            violations.push(Violation::new("C08.stranded", format!("work is stranded: {}", s), format!("unresolved tags {:?} at t={}", unresolved, f.sim.now)));
        }
        if f.step_bound_hit && std::env::var("VERIF_DEBUG_STEPBOUND").is_ok() {
            violations.push(Violation::new("C08.debug_step_bound", "harness step bound (debug only)", format!("steps {}", f.steps)));
        }
        let panicked = f.sim.tr.evs.iter().any(|e| matches!(e, Ev::Panic { .. }));
        // every retained operation completes successfully
        let tl = timeline(&f.sim.tr);
        if f.stranded.is_none() && f.spin.is_empty() && !f.step_bound_hit && !panicked {
            for (tag, (_, done, ok)) in &tl {
                if done.is_none() {
                    violations.push(Violation::new("C08.unresolved", "an operation never completes against a responsive broker", format!("tag {}", tag)));
                } else if !ok {
                    let kind = f.sim.tr.evs.iter().find_map(|e| match e {
                        Ev::Done { tag: t, done: Done::Err(k, _), .. } if t == tag => Some(*k),
                        _ => None,
                    });
                    let had_timeout = f.sim.tr.evs.iter().any(|e| matches!(e, Ev::Submit { tag: t, timeout_ms: Some(_), .. } if t == tag));
                    if !matches!(kind, Some(EK::OfflineQueuePolicyFailed)) && !(had_timeout && matches!(kind, Some(EK::AckTimeout))) {
                        violations.push(Violation::new("C08.failed", format!("an operation fails with {:?} although the broker is responsive", kind), format!("tag {}", tag)));
                    }
                }
            }
        }
        // eager twin
        let mut twin_ran = false;
        if violations.is_empty() && !panicked && !f.step_bound_hit {
            let mut e = Faithful::run(case, true);
            if !e.sim.tr.dead && e.spin.is_empty() && !e.step_bound_hit {
                e.finish();
            }
            if !e.sim.tr.dead && !e.step_bound_hit && e.stranded.is_none() {
                twin_ran = true;
                let te = timeline(&e.sim.tr);
                for (tag, (first_f, done_f, _)) in &tl {
                    if let Some((first_e, done_e, _)) = te.get(tag) {
                        if let (Some(a), Some(b)) = (first_f, first_e) {
                            if a > b {
                                violations.push(Violation::new("C08.late_transmission", "an operation is first transmitted later under the faithful driver than under a driver that also services when not asked", format!("tag {} faithful {} eager {}", tag, a, b)));
                            }
                        }
                        if first_f.is_none() && first_e.is_some() {
                            violations.push(Violation::new("C08.late_transmission", "an operation is transmitted only when the driver services without being asked", format!("tag {}", tag)));
                        }
                        if let (Some(a), Some(b)) = (done_f, done_e) {
                            if a > b {
                                violations.push(Violation::new("C08.late_completion", "an operation completes later under the faithful driver than under a driver that also services when not asked", format!("tag {} faithful {} eager {}", tag, a, b)));
                            }
                        }
                    }
                }
            }
        }
        let ix = Index::build(&f.sim.tr, &ix_cfg);
        // wire-level sanity: reference decoder must accept everything
        for v in crate::mon::m02_wire(&ix) {
            violations.push(v);
        }
        for e in &f.sim.tr.evs {
            if let Ev::Panic { msg, loc, kind, .. } = e {
                violations.push(Violation::new("C08.panic", format!("panic in {:?}: {}", kind, msg.chars().map(|c| if c.is_ascii_digit() { '#' } else { c }).take(80).collect::<String>()), format!("{} at {}", msg, loc)));
            }
        }
        let multi_write = f.sim.tr.emitted.iter().any(|e| e.calls_spanned >= 2 && !matches!(e.pkt, rf::Packet::Connect(_)));
        let many_writes = f.sim.tr.emitted.iter().any(|e| e.calls_spanned >= 10);
        let reconnect = ix.conns.len() >= 2;
        let stalled = {
            // a flow-control stall: more QoS>0 publishes submitted than receive maximum
            let rm = case.cfg.connack.receive_max.unwrap_or(65535) as usize;
            ix.tags.values().filter(|r| matches!(r.kind, Some(Kind::Pub1 | Kind::Pub2))).count() > rm
        };
        if multi_write {
            labels.push("operation_spans_writes".into());
        }
        if many_writes {
            labels.push("operation_spans>=10_writes".into());
        }
        if reconnect {
            labels.push("reconnect".into());
        }
        if stalled {
            labels.push("receive_maximum_stall".into());
        }
        if case.cfg.one_at_a_time {
            labels.push("one_at_a_time".into());
        }
        if twin_ran {
            labels.push("twin_compared".into());
        }
        if case.ops.iter().any(|o| matches!(o, FOp::WriteDelay { ms } if *ms > 0)) {
            labels.push("slow_transport".into());
        }
        if f.sim.tr.evs.iter().any(|e| matches!(e, Ev::Done { done: Done::Err(EK::AckTimeout, _), .. })) {
            labels.push("ack_timeout_fired".into());
        }
        if f.step_bound_hit {
            labels.push("step_bound".into());
        }
        if ix.tags.values().any(|r| r.emits.len() >= 2) {
            labels.push("retransmission".into());
        }
        let nontrivial = !ix.tags.is_empty() && (multi_write || stalled || (reconnect && ix.tags.values().any(|r| r.emits.len() >= 2)));
        let digest = crate::props_engine::digest_of(&ix);
        let sample = json!({"config": {"v5": case.cfg.v5, "buffer_capacity": case.cfg.buf_cap, "receive_maximum": case.cfg.connack.receive_max, "one_at_a_time": case.cfg.one_at_a_time, "offline": case.cfg.offline}, "ops": case.ops.iter().take(30).map(|o| format!("{:?}", o)).collect::<Vec<_>>(), "operations": ix.tags.len(), "connections": ix.conns.len(), "virtual_end_time_ms": f.sim.now, "driver_steps": f.steps});
        CaseReport { violations, labels, nontrivial, digest, sample: Some(sample), counters: vec![("driver_steps".into(), f.steps), ("operations".into(), ix.tags.len() as u64)], inconclusive: f.step_bound_hit, ..Default::default() }
    }

    fn cases_per_shard(&self, tier: Tier) -> u32 {
        match tier {
            Tier::Quick => 700,
            Tier::Thorough => 2_000,
        }
    }

    fn rule_text(&self) -> String {
        "faithful-driver simulations (service only when the reported next-service time is reached and after each delivered event; persistent output buffer of capacity 4..4096; transport fragments 1..n bytes; write completion only when the whole batch is out; virtual time jumps to min(reported service time, next broker event)) against a compliant, responsive broker with generated ack delays, receive-maximum 1/2/3/65535/absent, both drain policies, payloads up to 20 kB, closes with automatic reconnect, session loss; oracle: (a) every operation completes (successfully unless the offline policy rejects it) and the run never ends with unresolved work and no reported service time, (b) first-transmission and completion times are never later than under an eager twin driver that also services unasked, (c) two consecutive 'now' answers without output, completion or state change are a spin; non-trivial = an operation spanning several writes, or more QoS>0 publishes than receive-maximum, or a reconnect with retransmission; distinct = abstracted event history hash".to_string()
    }

    fn assumptions(&self) -> Vec<String> {
        vec!["liveness is decided as bounded progress under an explicit fair environment (every write completes, the broker answers everything after a finite delay)".into(), "virtual clock; no wall-clock dependence".into()]
    }
}

// ================================================================================================
// C14
// ================================================================================================

pub struct C14;

fn c14_cfg() -> BoxedStrategy<SimCfg> {
    (
        any::<bool>(),
        prop_oneof![Just(None), Just(Some(0u16)), Just(Some(1u16)), Just(Some(2u16)), Just(Some(3u16)), Just(Some(5u16)), Just(Some(60u16)), Just(Some(65535u16))],
        prop_oneof![3 => Just(None), 1 => Just(Some(0u16)), 1 => Just(Some(1u16)), 1 => Just(Some(2u16)), 1 => Just(Some(3u16)), 1 => Just(Some(7u16)), 1 => Just(Some(65535u16))],
        prop_oneof![1 => Just(0u64), 1 => Just(1u64), 2 => Just(400u64), 1 => Just(500u64), 1 => Just(1500u64), 3 => Just(10_000u64), 1 => Just(100_000_000u64)],
        prop_oneof![1 => Just(64usize), 3 => Just(4096usize)],
    )
        .prop_map(|(v5, keep_alive, server_keep_alive, ping_timeout_ms, buf_cap)| {
            let mut cfg = SimCfg { v5, keep_alive, ping_timeout_ms, buf_cap, drain: false, ..SimCfg::default() };
            if v5 {
                cfg.connack.server_keep_alive = server_keep_alive;
            } else {
                cfg.connack = ConnackTemplate { assign_client_id: false, ..ConnackTemplate::default() };
            }
            cfg
        })
        .boxed()
}

pub fn m14(ix: &Index, end_time: u64) -> Vec<Violation> {
    let mut out = Vec::new();
    let tr = ix.tr;
    let cfg = ix.cfg;
    let k_ms = keep_alive_ms(cfg);
    let ping_window = ping_deadline_ms(cfg);
    // a keep-alive failure is only ever justified by a PINGREQ of the same connection that went unanswered: a
    // connection that is failed for keep-alive without having sent a PINGREQ at all (e.g. because of a deadline left
    // over from an earlier connection) times out a live peer
    for (conn, c) in &ix.conns {
        for e in &tr.evs {
            if let Ev::Call { kind: CallKind::Service, result: Err(EK::ConnectionClosed), msg, t, conn: Some(cc), .. } = e {
                if cc == conn && msg.contains("keep alive") {
                    let pinged = c.pkts.iter().any(|&p| matches!(tr.emitted[p].pkt, rf::Packet::Pingreq) && tr.emitted[p].t <= *t);
                    if !pinged {
                        out.push(Violation::new("C14.timeout_without_ping", "the connection was failed for keep-alive although no PINGREQ had been sent on it", format!("conn {} failed at {}", conn, t)));
                    }
                }
            }
        }
    }
    for (conn, c) in &ix.conns {
        let t0 = match c.connack_ok_t {
            Some(t) => t,
            None => continue,
        };
        let end = c.close_t.unwrap_or(end_time);
        // connection-ending error, if any
        let mut keepalive_err: Option<u64> = None;
        for e in &tr.evs {
            if let Ev::Call { kind: CallKind::Service, result: Err(EK::ConnectionClosed), msg, t, conn: Some(cc), .. } = e {
                if cc == conn && msg.contains("keep alive") {
                    keepalive_err = Some(*t);
                }
            }
        }
        let pings: Vec<u64> = c.pkts.iter().filter(|&&p| matches!(tr.emitted[p].pkt, rf::Packet::Pingreq)).map(|&p| tr.emitted[p].t).collect();
        if k_ms == 0 {
            if !pings.is_empty() {
                out.push(Violation::new("C14.ping_without_keep_alive", "PINGREQ sent although the negotiated keep-alive is 0", format!("conn {}", conn)));
            }
            if keepalive_err.is_some() {
                out.push(Violation::new("C14.timeout_without_keep_alive", "keep-alive failure although the negotiated keep-alive is 0", format!("conn {}", conn)));
            }
            continue;
        }
        // (1) never more than K seconds without sending a packet
        let mut last = t0;
        let mut times: Vec<u64> = c.pkts.iter().map(|&p| tr.emitted[p].t).filter(|t| *t >= t0).collect();
        times.sort();
        let stop = keepalive_err.unwrap_or(end);
        for t in times.iter().chain(std::iter::once(&stop)) {
            if *t > stop {
                break;
            }
            if *t > last && *t - last > k_ms {
                out.push(Violation::new("C14.silence_longer_than_keep_alive", "more than the negotiated keep-alive interval passed without the client sending a packet", format!("conn {} keep-alive {} ms, silent from {} to {}", conn, k_ms, last, t)));
                break;
            }
            last = last.max(*t);
        }
        // (2) ping deadline
        let resp_times: Vec<u64> = tr
            .evs
            .iter()
            .filter_map(|e| match e {
                Ev::SrvSend { conn: cc, t, desc: SrvDesc::Pingresp, .. } if cc == conn => Some(*t),
                _ => None,
            })
            .collect();
        let mut resp_iter = resp_times.iter().peekable();
        for (i, tp) in pings.iter().enumerate() {
            let deadline = tp + ping_window;
            // the response to this ping: the first PINGRESP at or after the ping and before the next ping
            let next_ping = pings.get(i + 1).copied().unwrap_or(u64::MAX);
            while let Some(r) = resp_iter.peek() {
                if **r < *tp {
                    resp_iter.next();
                } else {
                    break;
                }
            }
            let answered_at = match resp_iter.peek() {
                Some(r) if **r <= next_ping => {
                    let v = **r;
                    resp_iter.next();
                    Some(v)
                }
                _ => None,
            };
            match (answered_at, keepalive_err) {
                (Some(r), Some(ke)) if r < deadline && ke >= *tp && ke <= next_ping.min(end) => {
                    out.push(Violation::new("C14.live_peer_timed_out", "the connection was failed for keep-alive although the PINGREQ was answered before min(ping timeout, K/2)", format!("conn {} ping at {} answered at {} deadline {} failed at {} (K={} ms, ping timeout {} ms)", conn, tp, r, deadline, ke, k_ms, cfg.ping_timeout_ms)));
                }
                (None, Some(ke)) | (Some(_), Some(ke)) if ke >= *tp && ke < deadline && answered_at.map_or(true, |r| r >= deadline) => {
                    out.push(Violation::new("C14.timeout_early", "keep-alive failure before min(ping timeout, K/2) had elapsed since the PINGREQ", format!("conn {} ping at {} deadline {} failed at {} (K={} ms, ping timeout {} ms)", conn, tp, deadline, ke, k_ms, cfg.ping_timeout_ms)));
                }
                _ => {}
            }
            // an answer delivered in the very millisecond of the deadline may or may not beat the timeout: don't care
            let unanswered_by_deadline = answered_at.map_or(true, |r| r > deadline);
            if unanswered_by_deadline && end > deadline && next_ping > deadline {
                // the connection must have been failed exactly at the deadline
                match keepalive_err {
                    Some(ke) if ke == deadline => {}
                    Some(ke) if ke < *tp => {}
                    other => {
                        // only if the connection lived beyond the deadline for another reason
                        let ended_before = c.close_t.map_or(false, |ct| ct <= deadline) || c.first_err_ev.is_some() && other.is_none() && c.close_t.map_or(false, |ct| ct <= deadline);
                        if !ended_before && other.map_or(true, |ke| ke > deadline) {
                            out.push(Violation::new("C14.dead_peer_not_detected", "an unanswered PINGREQ did not fail the connection at min(ping timeout, K/2)", format!("conn {} ping at {} deadline {} keep-alive error {:?} connection end {}", conn, tp, deadline, other, end)));
                        }
                    }
                }
            }
        }
    }
    out
}

impl Property for C14 {
    type Case = FCase;

    fn id(&self) -> &'static str {
        "C14"
    }

    fn strategy(&self, tier: Tier) -> BoxedStrategy<FCase> {
        let n = if tier == Tier::Quick { 30 } else { 120 };
        (c14_cfg(), vec(fop_strategy(true), 1..n)).prop_map(|(cfg, ops)| FCase { cfg, ops }).boxed()
    }

    fn fuzz_case(&self, data: &[u8]) -> Option<FCase> {
        fcase_from(data, true, 119)
    }

    fn check(&self, case: &FCase) -> CaseReport {
        let mut violations = Vec::new();
        let f = Faithful::run(case, false);
        crate::props_engine::dump_trace(&f.sim.tr);
        let ix = Index::build(&f.sim.tr, &case.cfg);
        let panicked = f.sim.tr.evs.iter().any(|e| matches!(e, Ev::Panic { .. }));
        if !panicked && !f.step_bound_hit && f.spin.is_empty() {
            violations.extend(m14(&ix, f.sim.now));
        } else if !panicked {
            // the run was cut short (e.g. an endless reconnect cycle): the pure safety rule still applies to what happened
            violations.extend(m14(&ix, f.sim.now).into_iter().filter(|v| v.rule == "C14.timeout_without_ping"));
        }
        for e in &f.sim.tr.evs {
            if let Ev::Panic { msg, loc, kind, .. } = e {
                violations.push(Violation::new("C14.panic", format!("panic in {:?}: {}", kind, msg.chars().map(|c| if c.is_ascii_digit() { '#' } else { c }).take(80).collect::<String>()), format!("{} at {}", msg, loc)));
            }
        }
        let k = keep_alive_ms(&case.cfg);
        let pings = f.sim.tr.emitted.iter().filter(|e| matches!(e.pkt, rf::Packet::Pingreq)).count();
        let ka_errors = f.sim.tr.evs.iter().filter(|e| matches!(e, Ev::Call { result: Err(EK::ConnectionClosed), msg, .. } if msg.contains("keep alive"))).count();
        let mut labels: Vec<String> = Vec::new();
        labels.push(format!("K={}", if k == 0 { "0".to_string() } else if k == 1000 { "1".into() } else if (k / 1000) % 2 == 1 { "odd".into() } else { "even".into() }));
        if pings >= 1 {
            labels.push("ping".into());
        }
        if pings >= 2 {
            labels.push("pings>=2".into());
        }
        if ka_errors > 0 {
            labels.push("keep_alive_failure".into());
        }
        let near = case.ops.iter().any(|o| matches!(o, FOp::PingDelay { kind } if (1..=3).contains(&(*kind % 5))));
        if near && pings > 0 {
            labels.push("pingresp_near_deadline".into());
        }
        if f.step_bound_hit {
            labels.push("step_bound".into());
        }
        let nontrivial = pings >= 2 || (pings >= 1 && (k / 1000) % 2 == 1) || (near && pings > 0);
        let digest = crate::props_engine::digest_of(&ix) ^ hash_str(&format!("{}|{}", k, case.cfg.ping_timeout_ms));
        let sample = json!({"config": {"v5": case.cfg.v5, "client_keep_alive": case.cfg.keep_alive, "server_keep_alive": case.cfg.connack.server_keep_alive, "ping_timeout_ms": case.cfg.ping_timeout_ms}, "ops": case.ops.iter().take(30).map(|o| format!("{:?}", o)).collect::<Vec<_>>(), "pings": pings, "keep_alive_failures": ka_errors, "virtual_end_time_ms": f.sim.now});
        CaseReport { violations, labels, nontrivial, digest, sample: Some(sample), counters: vec![("pings".into(), pings as u64), ("keep_alive_failures".into(), ka_errors as u64)], inconclusive: f.step_bound_hit, ..Default::default() }
    }

    fn cases_per_shard(&self, tier: Tier) -> u32 {
        match tier {
            Tier::Quick => 1500,
            Tier::Thorough => 30_000,
        }
    }

    fn rule_text(&self) -> String {
        "faithful-driver simulations (on-time service, prompt write completion) with keep-alive from CONNECT {none,0,1,2,3,5,60,65535} and/or CONNACK {absent,0,1,2,3,7,65535}, ping timeouts {0,1,400,500,1500,10000,1e8 ms}, PINGRESP delays {0, deadline-1 ms, deadline, deadline+1 ms, never}, waits in quarters of the keep-alive interval and around 500/1000/1500 ms, acknowledged and unacknowledged traffic in between; oracle: K>0: no gap between consecutive client emissions (from CONNACK) exceeds K s, an unanswered PINGREQ fails the connection exactly at t_ping + min(ping timeout, K/2) with K/2 a real number, an answer strictly before that deadline never leads to a keep-alive failure; K=0: no PINGREQ and no keep-alive failure; non-trivial = >= 2 pings, or odd K with a ping, or a PINGRESP within 1 ms of the deadline; distinct = abstracted event history hash x (K, ping timeout)".to_string()
    }

    fn assumptions(&self) -> Vec<String> {
        vec!["writes complete promptly and buffers are large enough that a PINGREQ is emitted by the service call that queues it (the property's premise 'writes completing')".into(), "virtual clock with millisecond resolution".into()]
    }
}
